//! hwx — fact extractor for the heartwood static checks.
//!
//! A `rustc_driver` wrapper.  Used as `RUSTC_WORKSPACE_WRAPPER` under
//! `cargo +nightly check`, it compiles every workspace member exactly like
//! rustc would and, after analysis, writes one JSON-lines fact file per crate
//! into `$HWX_OUT` (functions with their MIR control-flow graphs, ADTs, impls,
//! traits, integer constants).  Nothing is executed.
#![feature(rustc_private)]
#![allow(clippy::all)]

extern crate rustc_abi;
extern crate rustc_data_structures;
extern crate rustc_driver;
extern crate rustc_hir;
extern crate rustc_interface;
extern crate rustc_middle;
extern crate rustc_session;
extern crate rustc_span;

use std::fmt::Write as _;

use rustc_driver::{Callbacks, Compilation};
use rustc_hir::def::{CtorKind, DefKind};
use rustc_hir::def_id::{DefId, LOCAL_CRATE};
use rustc_interface::interface::Compiler;
use rustc_middle::mir::{
    self, AggregateKind, BasicBlock, Body, BorrowKind, Const, ConstValue, Operand, Place,
    ProjectionElem, Rvalue, StatementKind, TerminatorKind, UnwindAction,
};
use rustc_middle::ty::print::{PrintTraitRefExt, with_crate_prefix, with_no_trimmed_paths, with_no_visible_paths};
use rustc_middle::ty::{self, Instance, InstanceKind, Ty, TyCtxt, TypingEnv};
use rustc_span::Span;

// ---------------------------------------------------------------- json

fn esc(out: &mut String, s: &str) {
    out.push('"');
    for c in s.chars() {
        match c {
            '"' => out.push_str("\\\""),
            '\\' => out.push_str("\\\\"),
            '\n' => out.push_str("\\n"),
            '\r' => out.push_str("\\r"),
            '\t' => out.push_str("\\t"),
            c if (c as u32) < 0x20 => {
                let _ = write!(out, "\\u{:04x}", c as u32);
            }
            c => out.push(c),
        }
    }
    out.push('"');
}

fn js(s: &str) -> String {
    let mut o = String::with_capacity(s.len() + 2);
    esc(&mut o, s);
    o
}

fn jopt(s: &Option<String>) -> String {
    match s {
        Some(s) => js(s),
        None => "null".to_string(),
    }
}

fn jarr(items: &[String]) -> String {
    let mut o = String::from("[");
    for (i, it) in items.iter().enumerate() {
        if i > 0 {
            o.push(',');
        }
        o.push_str(it);
    }
    o.push(']');
    o
}

// ---------------------------------------------------------------- names

struct Cx<'tcx> {
    tcx: TyCtxt<'tcx>,
    krate: String,
}

impl<'tcx> Cx<'tcx> {
    fn fix(&self, s: String) -> String {
        // `crate::` (local crate prefix) -> `<crate name>::`
        if !s.contains("crate::") {
            if s == "crate" {
                return self.krate.clone();
            }
            return s;
        }
        let mut out = String::with_capacity(s.len() + 16);
        let b = s.as_bytes();
        let mut i = 0;
        while i < b.len() {
            if s[i..].starts_with("crate::")
                && (i == 0 || !(b[i - 1].is_ascii_alphanumeric() || b[i - 1] == b'_'))
            {
                out.push_str(&self.krate);
                out.push_str("::");
                i += 7;
            } else {
                let ch = s[i..].chars().next().unwrap();
                out.push(ch);
                i += ch.len_utf8();
            }
        }
        out
    }

    fn path(&self, did: DefId) -> String {
        let s = with_no_visible_paths!(with_no_trimmed_paths!(with_crate_prefix!(self
            .tcx
            .def_path_str(did))));
        self.fix(s)
    }

    fn path_args(&self, did: DefId, args: ty::GenericArgsRef<'tcx>) -> String {
        let s = with_no_visible_paths!(with_no_trimmed_paths!(with_crate_prefix!(self
            .tcx
            .def_path_str_with_args(did, args))));
        self.fix(s)
    }

    fn ty(&self, t: Ty<'tcx>) -> String {
        let s = match t.kind() {
            ty::Closure(did, _) => format!("{{closure:{}}}", self.path(*did)),
            ty::FnDef(did, _) => format!("{{fn:{}}}", self.path(*did)),
            _ => with_no_visible_paths!(with_no_trimmed_paths!(with_crate_prefix!(format!(
                "{}",
                t
            )))),
        };
        self.fix(s)
    }

    fn trait_full(&self, tr: ty::TraitRef<'tcx>) -> String {
        let s = with_no_visible_paths!(with_no_trimmed_paths!(with_crate_prefix!(format!(
            "{}",
            tr.print_only_trait_path()
        ))));
        self.fix(s)
    }

    fn loc(&self, sp: Span) -> (String, usize, usize) {
        let sp = sp.source_callsite();
        let sm = self.tcx.sess.source_map();
        let l = sm.lookup_char_pos(sp.lo());
        let f = match &l.file.name {
            rustc_span::FileName::Real(r) => match r.local_path() {
                Some(p) => p.to_string_lossy().to_string(),
                None => format!("{:?}", l.file.name),
            },
            o => format!("{:?}", o),
        };
        (f, l.line, l.col.0 + 1)
    }

    fn line(&self, sp: Span) -> usize {
        let sp = sp.source_callsite();
        self.tcx.sess.source_map().lookup_char_pos(sp.lo()).line
    }

    fn exp(&self, sp: Span) -> Option<String> {
        if !sp.from_expansion() {
            return None;
        }
        let mut v = Vec::new();
        for d in sp.macro_backtrace() {
            v.push(d.kind.descr());
            if v.len() > 6 {
                break;
            }
        }
        Some(v.join(">"))
    }
}

// ---------------------------------------------------------------- MIR

struct FnCx<'a, 'tcx> {
    cx: &'a Cx<'tcx>,
    body: &'a Body<'tcx>,
    env: TypingEnv<'tcx>,
}

impl<'a, 'tcx> FnCx<'a, 'tcx> {
    fn place(&self, p: &Place<'tcx>) -> String {
        let tcx = self.cx.tcx;
        let mut projs: Vec<String> = Vec::new();
        let mut pty = mir::PlaceTy::from_ty(self.body.local_decls[p.local].ty);
        for elem in p.projection.iter() {
            let s = match elem {
                ProjectionElem::Deref => "*".to_string(),
                ProjectionElem::Field(f, _) => {
                    let mut name = String::new();
                    if let ty::Adt(def, _) = pty.ty.kind() {
                        let vi = pty.variant_index.unwrap_or(rustc_abi::FIRST_VARIANT);
                        if def.is_enum() || def.is_struct() || def.is_union() {
                            if let Some(v) = def.variants().get(vi) {
                                if let Some(fd) = v.fields.get(f) {
                                    name = fd.name.to_string();
                                }
                            }
                        }
                    }
                    format!(".{}:{}", f.index(), name)
                }
                ProjectionElem::Downcast(name, vi) => {
                    format!(
                        "@{}:{}",
                        vi.index(),
                        name.map(|n| n.to_string()).unwrap_or_default()
                    )
                }
                ProjectionElem::Index(l) => format!("[_{}]", l.index()),
                ProjectionElem::ConstantIndex { offset, min_length, from_end } => {
                    format!("[c{}{}/{}]", if from_end { "-" } else { "" }, offset, min_length)
                }
                ProjectionElem::Subslice { from, to, from_end } => {
                    format!("[{}..{}{}]", from, if from_end { "-" } else { "" }, to)
                }
                ProjectionElem::OpaqueCast(_) => "opaque".to_string(),
                ProjectionElem::UnwrapUnsafeBinder(_) => "unbind".to_string(),
            };
            projs.push(js(&s));
            pty = pty.projection_ty(tcx, elem);
        }
        format!("[{},{}]", p.local.index(), jarr(&projs))
    }

    fn konst(&self, c: &mir::ConstOperand<'tcx>) -> String {
        let tcx = self.cx.tcx;
        let ty = c.const_.ty();
        let mut parts: Vec<String> = Vec::new();
        parts.push(format!("\"t\":{}", js(&self.cx.ty(ty))));
        match ty.kind() {
            ty::FnDef(did, args) => {
                parts.push(format!("\"fn\":{}", js(&self.cx.path(*did))));
                let ga: Vec<String> = args
                    .iter()
                    .filter_map(|a| a.as_type().map(|t| js(&self.cx.ty(t))))
                    .collect();
                parts.push(format!("\"ga\":{}", jarr(&ga)));
                if matches!(tcx.def_kind(*did), DefKind::Ctor(..)) {
                    parts.push("\"ctor\":true".to_string());
                    let p = tcx.parent(*did);
                    parts.push(format!("\"ctor_of\":{}", js(&self.cx.path(p))));
                }
                if let Some(r) = self.resolve(*did, args) {
                    parts.push(format!("\"r\":{}", js(&r.0)));
                }
            }
            _ => {
                if let Const::Unevaluated(uv, _) = c.const_ {
                    match uv.promoted {
                        None => parts.push(format!("\"cn\":{}", js(&self.cx.path(uv.def)))),
                        Some(p) => {
                            // promoted constant (`&CONST`, `&literal`): name the constants it mentions
                            parts.push(format!("\"promoted\":{}", p.index()));
                            let mut names: Vec<String> = Vec::new();
                            let mut aggs: Vec<String> = Vec::new();
                            if uv.def.is_local() {
                                let prom = tcx.promoted_mir(uv.def);
                                if let Some(pb) = prom.get(p) {
                                    for bbd in pb.basic_blocks.iter() {
                                        for st in bbd.statements.iter() {
                                            if let StatementKind::Assign(b) = &st.kind {
                                                let mut ops: Vec<&Operand<'tcx>> = Vec::new();
                                                match &b.1 {
                                                    Rvalue::Use(o, ..) => ops.push(o),
                                                    Rvalue::Cast(_, o, _) => ops.push(o),
                                                    Rvalue::Aggregate(k, os) => {
                                                        if let AggregateKind::Adt(adid, vi, _, _, _) = &**k {
                                                            let def = tcx.adt_def(*adid);
                                                            aggs.push(format!(
                                                                "{}::{}",
                                                                self.cx.path(*adid),
                                                                def.variant(*vi).name
                                                            ));
                                                        }
                                                        for o in os.iter() {
                                                            ops.push(o)
                                                        }
                                                    }
                                                    _ => {}
                                                }
                                                for o in ops {
                                                    if let Operand::Constant(ic) = o {
                                                        if let Const::Unevaluated(iuv, _) = ic.const_ {
                                                            if iuv.promoted.is_none() {
                                                                names.push(self.cx.path(iuv.def));
                                                            }
                                                        }
                                                    }
                                                }
                                            }
                                        }
                                    }
                                }
                            }
                            if names.len() == 1 {
                                parts.push(format!("\"cn\":{}", js(&names[0])));
                            }
                            if !aggs.is_empty() {
                                let a: Vec<String> = aggs.iter().map(|x| js(x)).collect();
                                parts.push(format!("\"pagg\":{}", jarr(&a)));
                            }
                        }
                    }
                }
                if let Some(sdid) = c.check_static_ptr(tcx) {
                    // `&STATIC`: name the static
                    parts.push(format!("\"static\":{}", js(&self.cx.path(sdid))));
                }
                let is_scalar = ty.is_integral() || ty.is_bool() || ty.is_char();
                if is_scalar {
                    if let Some(si) = c.const_.try_eval_scalar_int(tcx, self.env) {
                        let size = si.size();
                        let bits = si.to_bits(size);
                        let v: i128 = if ty.is_signed() {
                            size.sign_extend(bits) as i128
                        } else {
                            bits as i128
                        };
                        parts.push(format!("\"v\":{}", js(&v.to_string())));
                    }
                } else if ty.is_floating_point() {
                    if let Some(si) = c.const_.try_eval_scalar_int(tcx, self.env) {
                        let size = si.size();
                        let bits = si.to_bits(size);
                        let f: f64 = if size.bytes() == 4 {
                            f32::from_bits(bits as u32) as f64
                        } else if size.bytes() == 8 {
                            f64::from_bits(bits as u64)
                        } else {
                            f64::NAN
                        };
                        parts.push(format!("\"f\":{}", js(&format!("{:?}", f))));
                    }
                } else if let ty::Ref(_, inner, _) = ty.kind() {
                    // `&[u8; N]` (byte strings, format templates): dump the bytes
                    if let ty::Array(elem, _) = inner.kind() {
                        if *elem == tcx.types.u8 {
                            if let Ok(ConstValue::Scalar(rustc_middle::mir::interpret::Scalar::Ptr(ptr, _))) =
                                c.const_.eval(tcx, self.env, c.span)
                            {
                                let (prov, offset) = ptr.prov_and_relative_offset();
                                if let Some(rustc_middle::mir::interpret::GlobalAlloc::Memory(alloc)) =
                                    tcx.try_get_global_alloc(prov.alloc_id())
                                {
                                    let a = alloc.inner();
                                    let start = offset.bytes_usize();
                                    let end = a.len();
                                    if start <= end {
                                        let bytes = a.inspect_with_uninit_and_ptr_outside_interpreter(start..end);
                                        let s: String = bytes
                                            .iter()
                                            .map(|b| if (0x20..0x7f).contains(b) { *b as char } else { '\u{fffd}' })
                                            .collect();
                                        parts.push(format!("\"b\":{}", js(&s)));
                                    }
                                }
                            }
                        }
                    }
                    if inner.is_str() {
                        if let Ok(val) = c.const_.eval(tcx, self.env, c.span) {
                            if matches!(val, ConstValue::Slice { .. } | ConstValue::Indirect { .. })
                            {
                                if let Some(bytes) = val.try_get_slice_bytes_for_diagnostics(tcx) {
                                    let s = String::from_utf8_lossy(bytes);
                                    parts.push(format!("\"s\":{}", js(&s)));
                                }
                            }
                        }
                    }
                }
            }
        }
        format!("{{{}}}", parts.join(","))
    }

    fn operand(&self, o: &Operand<'tcx>) -> String {
        match o {
            Operand::Copy(p) => format!("[\"c\",{}]", self.place(p)),
            Operand::Move(p) => format!("[\"m\",{}]", self.place(p)),
            Operand::Constant(c) => format!("[\"k\",{}]", self.konst(c)),
            #[allow(unreachable_patterns)]
            _ => format!("[\"o\",{}]", js(&format!("{:?}", o))),
        }
    }

    /// Resolve a callee to a concrete instance if possible.
    fn resolve(
        &self,
        did: DefId,
        args: ty::GenericArgsRef<'tcx>,
    ) -> Option<(String, &'static str, DefId)> {
        let tcx = self.cx.tcx;
        match Instance::try_resolve(tcx, self.env, did, args) {
            Ok(Some(inst)) => {
                let (kind, d) = match inst.def {
                    InstanceKind::Item(d) => ("item", d),
                    InstanceKind::Virtual(d, _) => ("virtual", d),
                    InstanceKind::ClosureOnceShim { call_once, .. } => ("once_shim", call_once),
                    InstanceKind::FnPtrShim(d, _) => ("fnptr_shim", d),
                    InstanceKind::ReifyShim(d, _) => ("reify", d),
                    InstanceKind::DropGlue(d, _) => ("drop_glue", d),
                    InstanceKind::CloneShim(d, _) => ("clone_shim", d),
                    InstanceKind::Intrinsic(d) => ("intrinsic", d),
                    InstanceKind::VTableShim(d) => ("vtable_shim", d),
                    other => ("other", other.def_id()),
                };
                Some((self.cx.path(d), kind, d))
            }
            _ => None,
        }
    }

    fn rvalue(&self, rv: &Rvalue<'tcx>) -> String {
        match rv {
            Rvalue::Use(o, ..) => format!("[\"use\",{}]", self.operand(o)),
            Rvalue::Repeat(o, n) => {
                format!("[\"repeat\",{},{}]", self.operand(o), js(&format!("{}", n)))
            }
            Rvalue::Ref(_, bk, p) => {
                let k = match bk {
                    BorrowKind::Shared => "shr",
                    BorrowKind::Fake(_) => "fake",
                    BorrowKind::Mut { .. } => "mut",
                };
                format!("[\"ref\",\"{}\",{}]", k, self.place(p))
            }
            Rvalue::RawPtr(k, p) => {
                format!("[\"raw\",{},{}]", js(&format!("{:?}", k)), self.place(p))
            }
            Rvalue::Cast(k, o, t) => {
                let ks = format!("{:?}", k);
                let ks = ks.split('(').next().unwrap_or("").to_string();
                format!("[\"cast\",{},{},{}]", js(&ks), self.operand(o), js(&self.cx.ty(*t)))
            }
            Rvalue::BinaryOp(op, ab) => format!(
                "[\"bin\",{},{},{}]",
                js(&format!("{:?}", op)),
                self.operand(&ab.0),
                self.operand(&ab.1)
            ),
            Rvalue::UnaryOp(op, a) => {
                format!("[\"un\",{},{}]", js(&format!("{:?}", op)), self.operand(a))
            }
            Rvalue::Discriminant(p) => {
                let tcx = self.cx.tcx;
                let t = p.ty(self.body, tcx).ty;
                let mut vars: Vec<String> = Vec::new();
                if let ty::Adt(def, _) = t.kind() {
                    if def.is_enum() {
                        for (vi, v) in def.variants().iter_enumerated() {
                            let d = def.discriminant_for_variant(tcx, vi).val;
                            vars.push(format!("[{},{}]", js(&d.to_string()), js(&v.name.to_string())));
                        }
                    }
                }
                format!(
                    "[\"discr\",{},{},{}]",
                    self.place(p),
                    js(&self.cx.ty(t)),
                    jarr(&vars)
                )
            }
            Rvalue::Aggregate(kind, ops) => {
                let k = match &**kind {
                    AggregateKind::Array(_) => "\"array\"".to_string(),
                    AggregateKind::Tuple => "\"tuple\"".to_string(),
                    AggregateKind::Adt(did, vi, args, _, _) => {
                        let def = self.cx.tcx.adt_def(*did);
                        let v = def.variant(*vi);
                        let fields: Vec<String> =
                            v.fields.iter().map(|f| js(&f.name.to_string())).collect();
                        let ga: Vec<String> = args
                            .iter()
                            .filter_map(|a| a.as_type().map(|t| js(&self.cx.ty(t))))
                            .collect();
                        format!(
                            "{{\"adt\":{},\"var\":{},\"vi\":{},\"ga\":{},\"fields\":{}}}",
                            js(&self.cx.path(*did)),
                            js(&v.name.to_string()),
                            vi.index(),
                            jarr(&ga),
                            jarr(&fields)
                        )
                    }
                    AggregateKind::Closure(did, _) => {
                        format!("{{\"closure\":{}}}", js(&self.cx.path(*did)))
                    }
                    AggregateKind::Coroutine(did, _) => {
                        format!("{{\"coroutine\":{}}}", js(&self.cx.path(*did)))
                    }
                    AggregateKind::CoroutineClosure(did, _) => {
                        format!("{{\"closure\":{}}}", js(&self.cx.path(*did)))
                    }
                    AggregateKind::RawPtr(..) => "\"rawptr\"".to_string(),
                };
                let ops: Vec<String> = ops.iter().map(|o| self.operand(o)).collect();
                format!("[\"agg\",{},{}]", k, jarr(&ops))
            }
            Rvalue::CopyForDeref(p) => format!("[\"use\",[\"c\",{}]]", self.place(p)),
            Rvalue::ThreadLocalRef(d) => format!("[\"tls\",{}]", js(&self.cx.path(*d))),
            other => format!("[\"other\",{}]", js(&format!("{:?}", other))),
        }
    }

    fn unwind(&self, u: &UnwindAction) -> String {
        match u {
            UnwindAction::Cleanup(bb) => format!("{}", bb.index()),
            _ => "null".to_string(),
        }
    }

    fn bb(&self, b: &Option<BasicBlock>) -> String {
        match b {
            Some(b) => format!("{}", b.index()),
            None => "null".to_string(),
        }
    }

    fn callee(&self, func: &Operand<'tcx>) -> String {
        let tcx = self.cx.tcx;
        if let Operand::Constant(c) = func {
            if let ty::FnDef(did, args) = c.const_.ty().kind() {
                let mut parts: Vec<String> = Vec::new();
                parts.push(format!("\"d\":{}", js(&self.cx.path(*did))));
                parts.push(format!("\"da\":{}", js(&self.cx.path_args(*did, args))));
                if let Some(tr) = tcx.trait_of_assoc(*did) {
                    parts.push(format!("\"tr\":{}", js(&self.cx.path(tr))));
                }
                match self.resolve(*did, args) {
                    Some((name, kind, _)) => {
                        parts.push(format!("\"r\":{}", js(&name)));
                        parts.push(format!("\"rk\":\"{}\"", kind));
                    }
                    None => parts.push("\"r\":null".to_string()),
                }
                let ga: Vec<String> = args
                    .iter()
                    .filter_map(|a| a.as_type().map(|t| js(&self.cx.ty(t))))
                    .collect();
                parts.push(format!("\"ga\":{}", jarr(&ga)));
                if matches!(tcx.def_kind(*did), DefKind::Ctor(..)) {
                    parts.push("\"ctor\":true".to_string());
                    parts.push(format!("\"ctor_of\":{}", js(&self.cx.path(tcx.parent(*did)))));
                }
                return format!("{{{}}}", parts.join(","));
            }
        }
        let t = func.ty(self.body, tcx);
        format!("{{\"ind\":{},\"t\":{}}}", self.operand(func), js(&self.cx.ty(t)))
    }

    fn block(&self, data: &mir::BasicBlockData<'tcx>) -> String {
        let mut stmts: Vec<String> = Vec::new();
        for st in data.statements.iter() {
            let line = self.cx.line(st.source_info.span);
            match &st.kind {
                StatementKind::Assign(b) => {
                    let (p, rv) = &**b;
                    let mut s = format!("[\"=\",{},{},{}", self.place(p), self.rvalue(rv), line);
                    if let Some(e) = self.cx.exp(st.source_info.span) {
                        s.push(',');
                        s.push_str(&js(&e));
                    }
                    s.push(']');
                    stmts.push(s);
                }
                StatementKind::SetDiscriminant { place, variant_index } => {
                    stmts.push(format!(
                        "[\"sd\",{},{},{}]",
                        self.place(place),
                        variant_index.index(),
                        line
                    ));
                }
                StatementKind::Intrinsic(i) => {
                    stmts.push(format!("[\"intr\",{},{}]", js(&format!("{:?}", i)), line));
                }
                _ => {}
            }
        }
        let term = data.terminator();
        let sp = term.source_info.span;
        let line = self.cx.line(sp);
        let exp = jopt(&self.cx.exp(sp));
        let t = match &term.kind {
            TerminatorKind::Goto { target } => format!("[\"goto\",{}]", target.index()),
            TerminatorKind::SwitchInt { discr, targets } => {
                let mut arms: Vec<String> = Vec::new();
                for (v, bb) in targets.iter() {
                    arms.push(format!("[{},{}]", js(&v.to_string()), bb.index()));
                }
                let dty = discr.ty(self.body, self.cx.tcx);
                format!(
                    "[\"switch\",{},{},{},{},{}]",
                    self.operand(discr),
                    jarr(&arms),
                    targets.otherwise().index(),
                    js(&self.cx.ty(dty)),
                    line
                )
            }
            TerminatorKind::UnwindResume => "[\"resume\"]".to_string(),
            TerminatorKind::UnwindTerminate(_) => "[\"abort\"]".to_string(),
            TerminatorKind::Return => "[\"ret\"]".to_string(),
            TerminatorKind::Unreachable => "[\"unreachable\"]".to_string(),
            TerminatorKind::Drop { place, target, unwind, .. } => format!(
                "[\"drop\",{},{},{}]",
                self.place(place),
                target.index(),
                self.unwind(unwind)
            ),
            TerminatorKind::Call { func, args, destination, target, unwind, fn_span, .. } => {
                let ops: Vec<String> = args.iter().map(|a| self.operand(&a.node)).collect();
                let (_, _, col) = self.cx.loc(*fn_span);
                format!(
                    "[\"call\",{},{},{},{},{},{},{},{}]",
                    self.callee(func),
                    jarr(&ops),
                    self.place(destination),
                    self.bb(target),
                    self.unwind(unwind),
                    line,
                    exp,
                    col
                )
            }
            TerminatorKind::TailCall { func, args, .. } => {
                let ops: Vec<String> = args.iter().map(|a| self.operand(&a.node)).collect();
                format!("[\"tailcall\",{},{},{}]", self.callee(func), jarr(&ops), line)
            }
            TerminatorKind::Assert { cond, expected, msg, target, unwind } => {
                let k = format!("{:?}", msg);
                let k = k.split(|c: char| !c.is_alphanumeric()).next().unwrap_or("").to_string();
                format!(
                    "[\"assert\",{},{},{},{},{},{},{}]",
                    self.operand(cond),
                    expected,
                    js(&k),
                    target.index(),
                    self.unwind(unwind),
                    line,
                    exp
                )
            }
            TerminatorKind::FalseEdge { real_target, .. } => {
                format!("[\"goto\",{}]", real_target.index())
            }
            TerminatorKind::FalseUnwind { real_target, .. } => {
                format!("[\"goto\",{}]", real_target.index())
            }
            other => format!("[\"other\",{}]", js(&format!("{:?}", other))),
        };
        format!(
            "{{\"s\":{},\"t\":{}{}}}",
            jarr(&stmts),
            t,
            if data.is_cleanup { ",\"c\":1" } else { "" }
        )
    }
}

fn vis_str<'tcx>(cx: &Cx<'tcx>, did: DefId) -> String {
    match cx.tcx.visibility(did) {
        ty::Visibility::Public => "pub".to_string(),
        ty::Visibility::Restricted(m) => format!("in:{}", cx.path(m)),
    }
}

fn emit_fn<'tcx>(cx: &Cx<'tcx>, did: DefId, out: &mut String) {
    let tcx = cx.tcx;
    let dk = tcx.def_kind(did);
    let is_fn_like = matches!(
        dk,
        DefKind::Fn | DefKind::AssocFn | DefKind::Closure | DefKind::SyntheticCoroutineBody
    );
    let is_const_like = matches!(
        dk,
        DefKind::Const { .. }
            | DefKind::AssocConst { .. }
            | DefKind::Static { .. }
            | DefKind::AnonConst
            | DefKind::InlineConst
    );
    if !is_fn_like && !is_const_like {
        return;
    }
    if !tcx.is_mir_available(did) && !is_const_like {
        return;
    }
    let body: &Body<'tcx> = if is_const_like {
        if !did.is_local() || !tcx.hir_body_owner_kind(did.expect_local()).is_fn_or_closure() {
            tcx.mir_for_ctfe(did)
        } else {
            return;
        }
    } else {
        tcx.optimized_mir(did)
    };
    let env = TypingEnv::post_analysis(tcx, did);
    let fcx = FnCx { cx, body, env };
    let (file, line, col) = cx.loc(body.span);
    let endline = {
        let sm = tcx.sess.source_map();
        sm.lookup_char_pos(body.span.source_callsite().hi()).line
    };
    let mut parts: Vec<String> = Vec::new();
    parts.push("\"k\":\"fn\"".to_string());
    parts.push(format!("\"n\":{}", js(&cx.path(did))));
    parts.push(format!("\"crate\":{}", js(&cx.krate)));
    parts.push(format!("\"file\":{}", js(&file)));
    parts.push(format!("\"line\":{}", line));
    parts.push(format!("\"col\":{}", col));
    parts.push(format!("\"endline\":{}", endline));
    parts.push(format!("\"dk\":{}", js(&format!("{:?}", dk))));
    parts.push(format!("\"exp\":{}", jopt(&cx.exp(body.span))));
    if tcx.is_closure_like(did) {
        let root = tcx.typeck_root_def_id(did);
        parts.push(format!("\"root\":{}", js(&cx.path(root))));
        parts.push(format!("\"parent\":{}", js(&cx.path(tcx.parent(did)))));
    } else if matches!(dk, DefKind::Fn | DefKind::AssocFn) {
        parts.push(format!("\"vis\":{}", js(&vis_str(cx, did))));
    }
    if let Some(impl_did) = tcx.impl_of_assoc(did) {
        let self_ty = tcx.type_of(impl_did).instantiate_identity().skip_norm_wip();
        let mut ip: Vec<String> = Vec::new();
        ip.push(format!("\"self\":{}", js(&cx.ty(self_ty))));
        if let ty::Adt(def, _) = self_ty.kind() {
            ip.push(format!("\"self_adt\":{}", js(&cx.path(def.did()))));
        }
        if let Some(tr) = tcx.impl_opt_trait_ref(impl_did) {
            let tr = tr.instantiate_identity().skip_norm_wip();
            ip.push(format!("\"trait\":{}", js(&cx.path(tr.def_id))));
            ip.push(format!("\"trait_full\":{}", js(&cx.trait_full(tr))));
        }
        if tcx.is_automatically_derived(impl_did) {
            ip.push("\"derived\":true".to_string());
        }
        parts.push(format!("\"impl\":{{{}}}", ip.join(",")));
    }
    if let Some(tr) = tcx.trait_of_assoc(did) {
        parts.push(format!("\"trait_default_of\":{}", js(&cx.path(tr))));
    }
    if let Some(ai) = tcx.opt_associated_item(did) {
        parts.push(format!("\"assoc_name\":{}", js(&ai.name().to_string())));
    }
    parts.push(format!("\"nargs\":{}", body.arg_count));
    // locals
    let mut names: Vec<Option<String>> = vec![None; body.local_decls.len()];
    for vdi in body.var_debug_info.iter() {
        if let mir::VarDebugInfoContents::Place(p) = &vdi.value {
            if p.projection.is_empty() {
                names[p.local.index()] = Some(vdi.name.to_string());
            }
        }
    }
    let mut locals: Vec<String> = Vec::new();
    for (i, d) in body.local_decls.iter().enumerate() {
        locals.push(format!("[{},{}]", js(&cx.ty(d.ty)), jopt(&names[i])));
    }
    parts.push(format!("\"locals\":{}", jarr(&locals)));
    // upvar debug names (closures): which upvar field corresponds to which captured name
    let mut upv: Vec<String> = Vec::new();
    for vdi in body.var_debug_info.iter() {
        if let mir::VarDebugInfoContents::Place(p) = &vdi.value {
            if !p.projection.is_empty() {
                upv.push(format!("[{},{}]", js(&vdi.name.to_string()), fcx.place(p)));
            }
        }
    }
    if !upv.is_empty() {
        parts.push(format!("\"upvars\":{}", jarr(&upv)));
    }
    let mut blocks: Vec<String> = Vec::new();
    for (_, data) in body.basic_blocks.iter_enumerated() {
        blocks.push(fcx.block(data));
    }
    parts.push(format!("\"blocks\":{}", jarr(&blocks)));
    out.push('{');
    out.push_str(&parts.join(","));
    out.push_str("}\n");
}

fn emit_items<'tcx>(cx: &Cx<'tcx>, out: &mut String) {
    let tcx = cx.tcx;
    let items = tcx.hir_crate_items(());
    for ldid in items.definitions() {
        let did = ldid.to_def_id();
        let dk = tcx.def_kind(did);
        match dk {
            DefKind::Struct | DefKind::Enum | DefKind::Union => {
                let def = tcx.adt_def(did);
                let (file, line, _) = cx.loc(tcx.def_span(did));
                let mut vars: Vec<String> = Vec::new();
                for (vi, v) in def.variants().iter_enumerated() {
                    let mut fields: Vec<String> = Vec::new();
                    for f in v.fields.iter() {
                        let fty = tcx.type_of(f.did).instantiate_identity().skip_norm_wip();
                        fields.push(format!(
                            "{{\"n\":{},\"ty\":{},\"vis\":{}}}",
                            js(&f.name.to_string()),
                            js(&cx.ty(fty)),
                            js(&vis_str(cx, f.did))
                        ));
                    }
                    let discr = if def.is_enum() {
                        format!("{}", def.discriminant_for_variant(tcx, vi).val)
                    } else {
                        "0".to_string()
                    };
                    let ck = match v.ctor_kind() {
                        Some(CtorKind::Fn) => "fn",
                        Some(CtorKind::Const) => "const",
                        None => "struct",
                    };
                    vars.push(format!(
                        "{{\"n\":{},\"discr\":{},\"ck\":\"{}\",\"fields\":{}}}",
                        js(&v.name.to_string()),
                        js(&discr),
                        ck,
                        jarr(&fields)
                    ));
                }
                let _ = writeln!(
                    out,
                    "{{\"k\":\"adt\",\"n\":{},\"crate\":{},\"kind\":{},\"file\":{},\"line\":{},\"vis\":{},\"repr\":{},\"variants\":{}}}",
                    js(&cx.path(did)),
                    js(&cx.krate),
                    js(&format!("{:?}", dk)),
                    js(&file),
                    line,
                    js(&vis_str(cx, did)),
                    js(&format!("{:?}", def.repr().int)),
                    jarr(&vars)
                );
            }
            DefKind::Impl { .. } => {
                let self_ty = tcx.type_of(did).instantiate_identity().skip_norm_wip();
                let (file, line, _) = cx.loc(tcx.def_span(did));
                let mut parts: Vec<String> = Vec::new();
                parts.push("\"k\":\"impl\"".to_string());
                parts.push(format!("\"crate\":{}", js(&cx.krate)));
                parts.push(format!("\"file\":{}", js(&file)));
                parts.push(format!("\"line\":{}", line));
                parts.push(format!("\"self\":{}", js(&cx.ty(self_ty))));
                if let ty::Adt(def, _) = self_ty.kind() {
                    parts.push(format!("\"self_adt\":{}", js(&cx.path(def.did()))));
                }
                if tcx.is_automatically_derived(did) {
                    parts.push("\"derived\":true".to_string());
                }
                let mut its: Vec<String> = Vec::new();
                for ai in tcx.associated_items(did).in_definition_order() {
                    its.push(format!(
                        "{{\"n\":{},\"kind\":{},\"def\":{}}}",
                        js(&ai.name().to_string()),
                        js(&format!("{:?}", tcx.def_kind(ai.def_id))),
                        js(&cx.path(ai.def_id))
                    ));
                }
                parts.push(format!("\"items\":{}", jarr(&its)));
                if let Some(tr) = tcx.impl_opt_trait_ref(did) {
                    let tr = tr.instantiate_identity().skip_norm_wip();
                    parts.push(format!("\"trait\":{}", js(&cx.path(tr.def_id))));
                    parts.push(format!("\"trait_full\":{}", js(&cx.trait_full(tr))));
                    let mut tis: Vec<String> = Vec::new();
                    for ai in tcx.associated_items(tr.def_id).in_definition_order() {
                        tis.push(format!(
                            "[{},{},{}]",
                            js(&ai.name().to_string()),
                            js(&format!("{:?}", tcx.def_kind(ai.def_id))),
                            ai.defaultness(tcx).has_value()
                        ));
                    }
                    parts.push(format!("\"trait_items\":{}", jarr(&tis)));
                }
                let _ = writeln!(out, "{{{}}}", parts.join(","));
            }
            DefKind::Trait => {
                let (file, line, _) = cx.loc(tcx.def_span(did));
                let mut tis: Vec<String> = Vec::new();
                for ai in tcx.associated_items(did).in_definition_order() {
                    tis.push(format!(
                        "[{},{},{}]",
                        js(&ai.name().to_string()),
                        js(&format!("{:?}", tcx.def_kind(ai.def_id))),
                        ai.defaultness(tcx).has_value()
                    ));
                }
                let _ = writeln!(
                    out,
                    "{{\"k\":\"trait\",\"n\":{},\"crate\":{},\"file\":{},\"line\":{},\"items\":{}}}",
                    js(&cx.path(did)),
                    js(&cx.krate),
                    js(&file),
                    line,
                    jarr(&tis)
                );
            }
            DefKind::Const { .. } | DefKind::AssocConst { .. } => {
                let ty = tcx.type_of(did).instantiate_identity().skip_norm_wip();
                // only non-generic scalar constants are evaluated
                let generics = tcx.generics_of(did);
                if generics.count() != 0 || generics.parent_count != 0 && tcx.generics_of(did).parent.map(|p| tcx.generics_of(p).count()).unwrap_or(0) != 0 {
                    continue;
                }
                if matches!(dk, DefKind::AssocConst { .. }) && tcx.trait_of_assoc(did).is_some() {
                    continue;
                }
                let mut val: Option<String> = None;
                let mut sval: Option<String> = None;
                if ty.is_integral() || ty.is_bool() {
                    if let Ok(cv) = tcx.const_eval_poly(did) {
                        if let Some(si) = cv.try_to_scalar_int() {
                            let size = si.size();
                            let bits = si.to_bits(size);
                            let v: i128 = if ty.is_signed() {
                                size.sign_extend(bits) as i128
                            } else {
                                bits as i128
                            };
                            val = Some(v.to_string());
                        }
                    }
                } else if let ty::Ref(_, inner, _) = ty.kind() {
                    if inner.is_str() {
                        if let Ok(cv) = tcx.const_eval_poly(did) {
                            if matches!(cv, ConstValue::Slice { .. } | ConstValue::Indirect { .. }) {
                                if let Some(bytes) = cv.try_get_slice_bytes_for_diagnostics(tcx) {
                                    sval = Some(String::from_utf8_lossy(bytes).to_string());
                                }
                            }
                        }
                    }
                }
                let (file, line, _) = cx.loc(tcx.def_span(did));
                let _ = writeln!(
                    out,
                    "{{\"k\":\"const\",\"n\":{},\"crate\":{},\"file\":{},\"line\":{},\"ty\":{},\"v\":{},\"s\":{}}}",
                    js(&cx.path(did)),
                    js(&cx.krate),
                    js(&file),
                    line,
                    js(&cx.ty(ty)),
                    jopt(&val),
                    jopt(&sval)
                );
            }
            _ => {}
        }
    }
}

fn extract<'tcx>(tcx: TyCtxt<'tcx>) {
    let out_dir = match std::env::var("HWX_OUT") {
        Ok(d) => d,
        Err(_) => return,
    };
    let krate = tcx.crate_name(LOCAL_CRATE).to_string();
    if krate.starts_with("build_script") {
        return;
    }
    let kinds: Vec<String> =
        tcx.crate_types().iter().map(|c| format!("{:?}", c).to_lowercase()).collect();
    let kind = kinds.first().cloned().unwrap_or_else(|| "x".to_string());
    let cx = Cx { tcx, krate: krate.clone() };
    let mut out = String::new();
    let _ = writeln!(
        out,
        "{{\"k\":\"crate\",\"n\":{},\"type\":{},\"debug_assertions\":{}}}",
        js(&krate),
        js(&kind),
        tcx.sess.opts.debug_assertions
    );
    emit_items(&cx, &mut out);
    let mut nfn = 0usize;
    for ldid in tcx.mir_keys(()).iter() {
        let before = out.len();
        emit_fn(&cx, ldid.to_def_id(), &mut out);
        if out.len() != before {
            nfn += 1;
        }
    }
    let _ = writeln!(out, "{{\"k\":\"end\",\"n\":{},\"fns\":{}}}", js(&krate), nfn);
    let path = format!("{}/{}.{}.jsonl", out_dir, krate, kind);
    let tmp = format!("{}.tmp{}", path, std::process::id());
    std::fs::write(&tmp, out).expect("hwx: cannot write facts");
    std::fs::rename(&tmp, &path).expect("hwx: cannot rename facts");
}

struct Cb;

impl Callbacks for Cb {
    fn after_analysis<'tcx>(&mut self, _c: &Compiler, tcx: TyCtxt<'tcx>) -> Compilation {
        extract(tcx);
        Compilation::Continue
    }
}

fn main() {
    let mut args: Vec<String> = std::env::args().collect();
    // wrapper mode: argv[1] is the path of the real rustc
    if args.len() > 1 && (args[1].ends_with("rustc") || args[1].ends_with("rustc.exe")) {
        args.remove(1);
    }
    // Flags for analysed (workspace) crates only; dependencies are compiled by plain rustc.
    if std::env::var("HWX_OUT").is_ok() {
        args.push("-Zmir-opt-level=0".to_string());
        args.push("-Awarnings".to_string());
        if std::env::var("HWX_NODEBUG").map(|v| v == "1").unwrap_or(false) {
            args.push("-Cdebug-assertions=off".to_string());
        }
    }
    let code = rustc_driver::catch_with_exit_code(|| {
        rustc_driver::run_compiler(&args, &mut Cb);
    });
    if code == std::process::ExitCode::SUCCESS { std::process::exit(0) } else { std::process::exit(1) }
}
