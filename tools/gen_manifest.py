#!/usr/bin/env python3
"""Regenerate /verif/MANIFEST.json from the table below (one place to keep it valid)."""
import json
import os

VERIF = os.path.dirname(os.path.dirname(os.path.abspath(__file__)))

TRUST = ("Trusted base: rustc nightly MIR construction and Instance::try_resolve on the default-feature dev build of the "
         "workspace (radicle-cli-test excluded because it switches on test features); the hwx extractor; the hw rule engine "
         "and its reference tables (transcriptions of the property statement). Calls into dependencies are leaves.")

# id -> (technique, claim text, design ref)
CLAIMED = {
    "C12": ("MIR who-may-call + dominance + dataflow provenance + boolean decision tables",
            "Structural decision of the whole mechanism: upload_pack is reachable only behind is_authorized()=Ok for the same "
            "requester and the repo id parsed from the request; is_authorized is Ok only if not blocked and visible; "
            "is_visible_to/is_block tables. Decided for every path of the analysed functions, not the behaviour of git itself.",
            "DESIGN §4 C12"),
    "C19": ("typestate (private fields) + who-may-construct over all MIR aggregates/ctor uses + dominance of range checks",
            "Validity clause decided structurally for every construction site in the workspace (derive-generated bodies and "
            "constants included); repo id provenance from the canonical encoding. Round trip decode(encode(d)) not decided.",
            "DESIGN §4 C19"),
    "C20": ("typestate + who-may-construct + dominance/exclusion on MIR + argument provenance of the signature check",
            "Partial: decides that SignedRefs<Verified> only arises behind verify()=Ok and that verify()'s Ok exits are dominated "
            "by the signature check over self.refs.canonical() with self.id/self.signature and by the identity-root binding. "
            "Text round trip and cryptographic tamper detection are not decided.",
            "DESIGN §4 C20"),
    "C28": ("MIR exclusion/dominance of deletion sites by guards + provenance + who-may-call",
            "Structural decision of the mechanism: deletions in Repository::clean excluded for local/delegate namespaces on every "
            "path; whole-repo removal only when local sigrefs are absent; who may remove.",
            "DESIGN §4 C28"),
    "C29": ("who-may-write + provenance of announcement timestamps + freshness pairing + order-domain dataflow",
            "Partial (strong): last_timestamp written only by new/timestamp; every announcement timestamp built in service.rs "
            "derives from a fresh Service::timestamp() draw; timestamp() returns > previous on all paths (abstract "
            "interpretation in an order domain). Interleaving behaviour as a whole is not decided.",
            "DESIGN §4 C29"),
}

NOT_APPLICABLE = {
    "C03": "vote arithmetic over arbitrary commit DAGs (merge-base results at run time); no structural rule bounds it and a frozen-shape check would be a text match",
    "C22": "associativity/commutativity/idempotence are equations over all values; needs algebraic proof or a solver, not a structural rule",
    "C23": "correctness of topological sort/prune/merge over every DAG is a graph-algorithm property of runtime data",
    "C25": "success-iff-target-reached is arithmetic on set cardinalities accumulated over an arbitrary event sequence",
    "C30": "equality of a diff with the decode of its free-form text encoding over all diffs; encoder/decoder are not table driven",
}

PENDING = "check not armed yet (rule engine for this property under construction; planned rule in DESIGN.md §4)"


def main():
    props = [json.loads(l) for l in open(os.path.join(VERIF, "properties.jsonl"))]
    checks = []
    na = []
    for p in props:
        pid = p["id"]
        if pid in CLAIMED and os.path.exists(os.path.join(VERIF, "hw", "props", pid.lower() + ".py")):
            tech, text, ref = CLAIMED[pid]
            checks.append({
                "property_id": pid,
                "quick_cmd": "./check %s --tier quick" % pid,
                "thorough_cmd": "./check %s --tier thorough" % pid,
                "evidence_file": "/verif/evidence/%s.json" % pid,
                "replay_cmd_template": "./check %s --replay {path}" % pid,
                "engine": "hwx+hwrules",
                "level_claimed": {"category": "other", "text": text, "design_ref": ref},
                "level_note": TRUST,
                "technique": "static analysis: " + tech,
            })
        elif pid in NOT_APPLICABLE:
            na.append({"property_id": pid, "reason": "static analysis not applicable: " + NOT_APPLICABLE[pid]})
        else:
            na.append({"property_id": pid, "reason": PENDING})
    m = {
        "version": 1,
        "setup_cmd": "./setup.sh",
        "hooks": {
            "guard": "radicle_dev_heartwood_verif",
            "enable": "none needed: the checks read the unmodified build through a RUSTC_WORKSPACE_WRAPPER driver; no hook commits in /repo",
            "baseline_off_cmd": "cd /repo && (cargo nextest run --workspace --no-fail-fast --offline || cargo test --workspace --no-fail-fast --offline)",
            "source_commits": [],
            "add_only": True,
        },
        "engines": [
            {"name": "hwx", "path": "/verif/extractor", "serves_properties": [c["property_id"] for c in checks],
             "kind_free_text": "rustc_private driver (nightly) dumping MIR/ADT/impl facts of every workspace crate as JSON lines"},
            {"name": "hwrules", "path": "/verif/hw", "serves_properties": [c["property_id"] for c in checks],
             "kind_free_text": "python3 rule engine: CFG dominance/exclusion, who-may, provenance, order-domain dataflow, tables"},
        ],
        "checks": checks,
        "notes": "Static analysis only; see DESIGN.md. quick = rules on the dev-profile fact base of /repo's current tree; "
                 "thorough = additionally the debug-assertions=off fact base and the canned mutation replay for that property.",
        "not_applicable": na,
    }
    with open(os.path.join(VERIF, "MANIFEST.json"), "w") as f:
        json.dump(m, f, indent=1)
    print("checks: %d, not_applicable: %d" % (len(checks), len(na)))


if __name__ == "__main__":
    main()
