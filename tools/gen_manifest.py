#!/usr/bin/env python3
"""Regenerate /verif/MANIFEST.json from the table below (one place to keep it valid)."""
import json
import os

VERIF = os.path.dirname(os.path.dirname(os.path.abspath(__file__)))

TRUST = ("Trusted base: rustc nightly MIR construction and Instance::try_resolve on the default-feature dev build of the "
         "workspace (radicle-cli-test excluded because it switches on test features); the hwx extractor; the hw rule engine "
         "and its reference tables (transcriptions of the property statement). Calls into dependencies are leaves.")

# id -> technique; the claim text is the docstring of hw/props/<id>.py (one place, always in sync)
TECH = {
    "C01": "MIR who-may-write + failure/prune pairing on loop iterations + dominance of validated-insert by validate + sibling agreement + typestate",
    "C02": "MIR dominance/exclusion of the ref update by the threshold compare + decision tables of policy/ancestry arms + who-may-construct",
    "C03": "MIR dominance of the threshold filter + provenance of candidate keys + decision table of the head-selection loop (structural clauses only)",
    "C04": "MIR dominance / must-pass-through of signature verification + who-may-write + decision tables + transactional effect analysis",
    "C05": "call-graph reachability + nondeterminism-source lint (hash iteration, clocks, env, rand) + container type facts + required comparator",
    "C06": "transactional effect analysis (interprocedural write/err dataflow summaries over MIR) for every Evaluate::apply",
    "C07": "decision-table extraction by abstract interpretation of MIR with uninterpreted predicates vs. reference table + dominance + HIR match exhaustiveness",
    "C08": "type facts + MIR dominance/exclusion of merge recording and Merged transition + decision table of lifecycle guard + who-may-construct",
    "C09": "write-through pairing on MIR paths + sibling callee-set agreement + SQL shape lints over string constants reaching prepare()",
    "C10": "MIR dominance/exclusion of store/relay by verification, freshness and known-announcer guards + argument provenance of verify + SQL lint + relay filter closure containment",
    "C11": "send-site enumeration + message provenance classification + visibility-filter dominance/closure containment",
    "C12": "MIR who-may-call + dominance + dataflow provenance + boolean decision tables",
    "C13": "call-graph reachability from network entries + panic-source enumeration against a reviewed table + dominance verification of guarded sources",
    "C14": "integer taint dataflow from wire reads to allocation sizes + error-flow rule for inner readers + decision table of deserialize_next",
    "C15": "sibling agreement of Encode/Decode field and wire-type sequences + tag-table bijection + interval arithmetic of maximum encoded sizes over compile-time constants",
    "C16": "MIR who-may-call/write + dominance/exclusion of Io::Fetch by vacancy/connected/capacity guards + pairing + attribution branch dominance",
    "C17": "MIR exclusion of token take by bypass guards + decision tables of take/refill + who-may-write",
    "C18": "trait-impl exhaustiveness against serde_json's Formatter item list + type facts + required-call and delegation lints",
    "C19": "typestate (private fields) + who-may-construct over all MIR aggregates/ctor uses + dominance of range checks",
    "C20": "typestate + who-may-construct + dominance/exclusion on MIR + argument provenance of the signature check",
    "C21": "call-graph reachability from parser entry points + panic-source enumeration against a reviewed table + constant agreement",
    "C22": "merge tables read off the MIR (path summaries + effects through &mut self), laws checked exhaustively over small abstract carriers (orderings / equality classes / nested interpreted lattices); structural delegation rules for the keyed collections",
    "C24": "SQL shape lints over string constants reaching prepare() + bind-argument provenance on MIR",
    "C25": "path summaries of the loop-free decision functions (MIR paths with locals resolved along the path) checked against decision tables over all orderings of the compared pairs + EXCL/DOM of the recording and hand-out sites + WHO",
    "C26": "panic-source enumeration against a reviewed table + char-boundary class dataflow for str range bounds",
    "C27": "panic-source enumeration against a reviewed table + dominance verification of emptiness/length guards + sibling contradiction check",
    "C28": "MIR exclusion/dominance of deletion sites by guards + provenance + who-may-call",
    "C29": "who-may-write + provenance of announcement timestamps + freshness pairing + order-domain dataflow",
}


def claim_text(pid):
    import ast
    src = open(os.path.join(VERIF, "hw", "props", pid.lower() + ".py")).read()
    doc = ast.get_docstring(ast.parse(src)) or ""
    return " ".join(doc.split())


NOT_APPLICABLE = {
    "C23": "correctness of topological sort/prune/merge over every DAG is a graph-algorithm property of runtime data",
    "C30": "equality of a diff with the decode of its free-form text encoding over all diffs; encoder/decoder are not table driven",
}

PENDING = "check not armed yet (rule engine for this property under construction; planned rule in DESIGN.md §4)"


def main():
    props = [json.loads(l) for l in open(os.path.join(VERIF, "properties.jsonl"))]
    checks = []
    na = []
    for p in props:
        pid = p["id"]
        if pid in TECH and os.path.exists(os.path.join(VERIF, "hw", "props", pid.lower() + ".py")):
            tech, text, ref = TECH[pid], claim_text(pid), "DESIGN §4 " + pid
            checks.append({
                "property_id": pid,
                "quick_cmd": "./check %s --tier quick" % pid,
                "thorough_cmd": "./check %s --tier thorough" % pid,
                "evidence_file": "/verif/evidence/%s.json" % pid,
                "replay_cmd_template": "./check %s --replay {path}" % pid,
                "engine": "hwx+hwrules",
                "level_claimed": {"category": "other", "text": text, "design_ref": ref},
                "level_note": TRUST,
                "technique": "static analysis: " + tech,
            })
        elif pid in NOT_APPLICABLE:
            na.append({"property_id": pid, "reason": "static analysis not applicable: " + NOT_APPLICABLE[pid]})
        else:
            na.append({"property_id": pid, "reason": PENDING})
    m = {
        "version": 1,
        "setup_cmd": "./setup.sh",
        "hooks": {
            "guard": "radicle_dev_heartwood_verif",
            "enable": "none needed: the checks read the unmodified build through a RUSTC_WORKSPACE_WRAPPER driver; no hook commits in /repo",
            "baseline_off_cmd": "cd /repo && (cargo nextest run --workspace --no-fail-fast --offline || cargo test --workspace --no-fail-fast --offline)",
            "source_commits": [],
            "add_only": True,
        },
        "engines": [
            {"name": "hwx", "path": "/verif/extractor", "serves_properties": [c["property_id"] for c in checks],
             "kind_free_text": "rustc_private driver (nightly) dumping MIR/ADT/impl facts of every workspace crate as JSON lines"},
            {"name": "hwrules", "path": "/verif/hw", "serves_properties": [c["property_id"] for c in checks],
             "kind_free_text": "python3 rule engine: CFG dominance/exclusion, who-may, provenance, order-domain dataflow, tables"},
        ],
        "checks": checks,
        "notes": "Static analysis only; see DESIGN.md. quick = rules on the dev-profile fact base of /repo's current tree; "
                 "thorough = additionally the debug-assertions=off fact base and the canned mutation replay for that property.",
        "not_applicable": na,
    }
    with open(os.path.join(VERIF, "MANIFEST.json"), "w") as f:
        json.dump(m, f, indent=1)
    print("checks: %d, not_applicable: %d" % (len(checks), len(na)))


if __name__ == "__main__":
    main()
