"""Path summaries of small loop-free functions.

For decision functions written with combinators and `&&`/`||` over locals (`Option::then_some`, a bool local assigned
on two branches and tested later) dominators are not enough: the condition under which a value is returned is spread
over φ-locals.  Here every acyclic entry->return path is enumerated, locals are resolved *along the path* (the last
definition on the path, recursively), switch edges whose operand resolves to a constant prune infeasible paths, and the
remaining edges contribute atomic facts (cfg.decompose).  A summary is the list of (facts, returned expression).

Only meant for functions with a handful of blocks; `paths` refuses (returns None) beyond `limit` paths or on a cycle
that a path would have to take."""
from . import cfg
from .cfg import graph, expr_rvalue, expr_operand, peel

INF = 1 << 30


def paths(fn, limit=4000):
    g = graph(fn)
    bl = fn["blocks"]
    out = []
    stack = [(0, (0,))]
    while stack:
        b, p = stack.pop()
        t = bl[b]["t"]
        if t[0] == "ret":
            out.append(list(p))
            if len(out) > limit:
                return None
            continue
        for tb, lab in g.succ[b]:
            if bl[tb].get("c") or tb in p:
                continue
            stack.append((tb, p + (tb,)))
    return out


def _last_def(fn, local, path, i, j):
    """Last whole definition of `local` on path before position (i, j) (j = statement index, INF = terminator and
    everything before it).  Returns (i2, j2, kind, payload) or None."""
    bl = fn["blocks"]
    for pi in range(i, -1, -1):
        b = bl[path[pi]]
        t = b["t"]
        jmax = j if pi == i else INF + 1
        # a call terminator defines its destination *after* the block: it is visible only from later blocks
        if pi < i and t[0] == "call" and t[3][0] == local and not t[3][1]:
            return (pi, INF, "call", t)
        for sj in range(min(len(b["s"]), jmax) - 1, -1, -1):
            s = b["s"][sj]
            if s[0] == "=" and s[1][0] == local and not s[1][1]:
                return (pi, sj, "stmt", s[2])
    return None


def _field_writes_between(fn, local, path, start, end):
    """Single-level field assignments `local.f = rv` on the path after position `start` (exclusive) and before `end`
    (exclusive); positions are (path index, statement index).  -> [(pi, sj, idx, name, rvalue)] in path order."""
    bl = fn["blocks"]
    out = []
    (si, sj0), (ei, ej) = start, end
    for pi in range(max(si, 0), ei + 1):
        b = bl[path[pi]]
        lo = sj0 + 1 if pi == si else 0
        hi = min(len(b["s"]), ej) if pi == ei else len(b["s"])
        for sj in range(lo, hi):
            st = b["s"][sj]
            if st[0] == "=" and st[1][0] == local and len(st[1][1]) == 1 and isinstance(st[1][1][0], str) and st[1][1][0].startswith("."):
                idx, _, name = st[1][1][0][1:].partition(":")
                out.append((pi, sj, int(idx), name, st[2]))
    return out


def resolve(fn, e, path, i, j=INF, depth=0):
    """Replace φ-locals in expression `e` (evaluated at position (i, j) of `path`) by their definition on the path."""
    if depth > 24 or not isinstance(e, tuple):
        return e
    k = e[0]
    if k == "phi":
        d = _last_def(fn, e[1], path, i, j)
        is_arg = 1 <= e[1] <= fn["nargs"]
        if d is None and not is_arg:
            return e
        if d is None:
            base, start = ("arg", e[1]), (0, -1)
        else:
            pi, pj, kind, payload = d
            if kind == "stmt":
                base = resolve(fn, _rv(fn, payload), path, pi, pj, depth + 1)
                start = (pi, pj)
            else:
                t = payload
                base = ("call", t[1], [resolve(fn, _op(fn, a), path, pi, INF, depth + 1) for a in t[2]], path[pi])
                start = (pi, len(fn["blocks"][path[pi]]["s"]))
        # in-place updates of single fields after that definition (`self.count += 1; self`)
        for (wi, wj, idx, name, rv) in _field_writes_between(fn, e[1], path, start, (i, j if j != INF else INF)):
            val = resolve(fn, _rv(fn, rv), path, wi, wj, depth + 1)
            base = ("upd", base, name, idx, val)
        return base
    if k == "call":
        return ("call", e[1], [resolve(fn, a, path, i, j, depth + 1) for a in e[2]], e[3] if len(e) > 3 else None)
    if k in ("ref", "deref"):
        return (k, resolve(fn, e[1], path, i, j, depth + 1))
    if k == "field":
        inner = resolve(fn, e[1], path, i, j, depth + 1)
        while inner[0] == "upd":
            if inner[3] == e[3]:
                return inner[4]
            inner = inner[1]
        if inner[0] == "agg" and inner[1] != "array" and e[3] < len(inner[2]):
            return inner[2][e[3]]
        return ("field", inner, e[2], e[3])
    if k == "down":
        return ("down", resolve(fn, e[1], path, i, j, depth + 1), e[2])
    if k == "bin":
        return ("bin", e[1], resolve(fn, e[2], path, i, j, depth + 1), resolve(fn, e[3], path, i, j, depth + 1))
    if k == "un":
        return ("un", e[1], resolve(fn, e[2], path, i, j, depth + 1))
    if k == "cast":
        return ("cast", e[1], resolve(fn, e[2], path, i, j, depth + 1), e[3])
    if k == "agg":
        return ("agg", e[1], [resolve(fn, a, path, i, j, depth + 1) for a in e[2]])
    if k == "discr":
        return ("discr", resolve(fn, e[1], path, i, j, depth + 1)) + tuple(e[2:])
    return e


def _shallow_local(fn, local):
    if 1 <= local <= fn["nargs"] and not graph(fn).defs().get(local, []):
        return ("arg", local)
    return ("phi", local)


def _place(fn, place):
    local, proj = place
    e = _shallow_local(fn, local)
    for p in proj:
        if p == "*":
            e = e[1] if e[0] == "ref" else ("deref", e)
        elif p.startswith("."):
            idx, _, name = p[1:].partition(":")
            e = ("field", e, name, int(idx))
        elif p.startswith("@"):
            idx, _, name = p[1:].partition(":")
            e = ("down", e, name)
        else:
            e = ("index", e)
    return e


def _op(fn, op):
    if op[0] == "k":
        return ("const", op[1])
    if op[0] in ("c", "m"):
        return _place(fn, op[1])
    return ("unknown", str(op))


def _rv(fn, rv):
    """Like cfg.expr_rvalue but *shallow*: every local stays a φ so that it is resolved along the path."""
    k = rv[0]
    if k == "use":
        return _op(fn, rv[1])
    if k in ("ref", "raw"):
        return ("ref", _place(fn, rv[2]))
    if k == "cast":
        return ("cast", rv[1], _op(fn, rv[2]), rv[3])
    if k == "bin":
        return ("bin", rv[1], _op(fn, rv[2]), _op(fn, rv[3]))
    if k == "un":
        return ("un", rv[1], _op(fn, rv[2]))
    if k == "discr":
        return ("discr", _place(fn, rv[1]), rv[2] if len(rv) > 2 else "", rv[3] if len(rv) > 3 else None)
    if k == "agg":
        return ("agg", rv[1], [_op(fn, o) for o in rv[2]])
    return ("unknown", k)


def const_value(e):
    e = peel(e)
    if e[0] == "const" and "v" in e[1]:
        try:
            return int(e[1]["v"])
        except (TypeError, ValueError):
            return None
    return None


def summaries(db, fn, limit=4000):
    """[(path, facts, ret_expr)] for the feasible acyclic paths of fn, or None if fn is not small/loop-free enough.
    ret_expr is the resolved definition of the return place (None if the path never assigns it)."""
    ps = paths(fn, limit)
    if ps is None:
        return None
    g = graph(fn)
    bl = fn["blocks"]
    res = []
    for p in ps:
        facts = []
        feasible = True
        for i in range(len(p) - 1):
            b, tb = p[i], p[i + 1]
            t = bl[b]["t"]
            if t[0] != "switch":
                continue
            labs = [lab for x, lab in g.succ[b] if x == tb]
            e = resolve(fn, _op(fn, t[1]), p, i, INF)
            cv = const_value(e)
            if cv is not None:
                vals = {int(v) for v, _ in t[2]}
                ok = any((lab == "otherwise" and cv not in vals) or (lab != "otherwise" and lab == cv) for lab in labs)
                if not ok:
                    feasible = False
                    break
                continue
            if len(labs) != 1:
                continue
            lab = labs[0]
            val = ("not", {int(v) for v, _ in t[2]}) if lab == "otherwise" else ("is", lab)
            cfg.decompose(db, e, val, facts)
        if not feasible:
            continue
        d = _last_def(fn, 0, p, len(p) - 1, INF + 1)
        ret = None
        if d is not None:
            pi, pj, kind, payload = d
            if kind == "stmt":
                ret = resolve(fn, _rv(fn, payload), p, pi, pj)
            else:
                ret = ("call", payload[1], [resolve(fn, _op(fn, a), p, pi, INF) for a in payload[2]], p[pi])
        else:
            # a call terminator in the last-but-one position may define _0 directly
            for pi in range(len(p) - 1, -1, -1):
                t = bl[p[pi]]["t"]
                if t[0] == "call" and t[3][0] == 0 and not t[3][1]:
                    ret = ("call", t[1], [resolve(fn, _op(fn, a), p, pi, INF) for a in t[2]], p[pi])
                    break
        res.append((p, facts, ret))
    return res


if __name__ == "__main__":
    import sys
    from . import extract
    from .facts import DB
    d, h = extract.ensure_facts(quiet=True)
    db = DB(d)
    for fn in db.find(sys.argv[1]):
        print("fn", fn["key"])
        ss = summaries(db, fn)
        if ss is None:
            print("  (too many paths)")
            continue
        for p, facts, ret in ss:
            print("  path", p)
            for f in facts:
                if f[0] == "cmp":
                    print("     cmp", f[1], cfg.nshow(f[2]), "|", cfg.nshow(f[3]))
                elif f[0] == "bool":
                    print("     bool", cfg.nshow(f[1]), f[2])
                else:
                    print("     variant", cfg.nshow(f[1]), f[3], f[4])
            print("     ->", cfg.nshow(ret) if ret else None)


# ---------------------------------------------------------------------------------------------- effects through &mut
def _rooted_at_arg(e, depth=0):
    """The argument index an lvalue expression is rooted at (through deref / field / downcast / ref), or None."""
    while depth < 40 and isinstance(e, tuple):
        depth += 1
        if e[0] == "arg":
            return e[1]
        if e[0] in ("deref", "ref", "field", "down", "index"):
            e = e[1]
            continue
        if e[0] == "upd":
            e = e[1]
            continue
        return None
    return None


def effects(db, fn, path):
    """Writes through reference arguments along a path, in order:
       ('assign', target_expr, value_expr)         for `(*p).f = v` with p derived from a reference argument
       ('call', callee dict, [arg exprs], block)   for calls that receive a `&mut` place derived from a reference argument
    Expressions are resolved along the path (arguments appear as ('arg', n))."""
    bl = fn["blocks"]
    out = []
    for pi, b in enumerate(path):
        blk = bl[b]
        for sj, st in enumerate(blk["s"]):
            if st[0] != "=":
                continue
            local, proj = st[1]
            if "*" not in proj:
                continue
            tgt = resolve(fn, _place(fn, st[1]), path, pi, sj)
            if _rooted_at_arg(tgt) is None:
                continue
            val = resolve(fn, _rv(fn, st[2]), path, pi, sj)
            out.append(("assign", tgt, val))
        t = blk["t"]
        if t[0] == "call" and pi + 1 < len(path):
            args = [resolve(fn, _op(fn, a), path, pi, INF) for a in t[2]]
            if any(peel_ref_mut(a) is not None for a in args):
                out.append(("call", t[1], args, b))
    return out


def peel_ref_mut(e):
    """If e is a reference to a place rooted at an argument (i.e. it may be written through), the argument index."""
    if isinstance(e, tuple) and e[0] == "ref":
        return _rooted_at_arg(e[1])
    if isinstance(e, tuple) and e[0] == "arg":
        return None
    return None
