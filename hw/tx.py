"""TX: transactional-effect analysis.

For a function f and a `&mut` parameter p, decide
    dirty_err(f, p) = there is a path on which memory reachable through p is written
                      and f then returns (may-)Err.
Forward dataflow over the CFG with the state (dirty, pending-call); call results are
resolved on the Ok/Err edges of the branch that inspects them (`?` or match);
workspace callees are summarised recursively (recursion => assumed dirty); std
methods are classified by name (writers / non-writing accessors).  Three-valued:
a verdict that rests only on an unknown callee is `inconclusive` and names it."""
import re

from . import cfg
from .cfg import graph, expr_operand, peel, base_value
from .facts import strip_generics

# std/collection methods that take `&mut self` but only hand out references
ACCESSORS = re.compile(
    r"::(get_mut|iter_mut|values_mut|as_mut|as_mut_slice|deref_mut|last_mut|first_mut|entry|get_or_insert_with|"
    r"borrow_mut|as_deref_mut|peek_mut|range_mut|split_at_mut|chunks_mut|by_ref|as_mut_ptr|first_entry|last_entry|get_many_mut|iter|get|"
    r"into_iter|next|find|any|all|position|len|is_empty|contains|contains_key)$")
# std helpers that forward a reference unchanged (result derives from the argument)
FORWARD = re.compile(
    r"^core::option::Option::(unwrap|expect|ok_or|ok_or_else|map|and_then|unwrap_or|unwrap_or_else|as_mut|as_deref_mut|filter|take_if|or_else|or|unwrap_or_default|ok_or_else)$|"
    r"^core::result::Result::(unwrap|expect|ok|map|map_err|and_then|unwrap_or|unwrap_or_else|as_mut)$|"
    r"^core::ops::try_trait::Try::branch$|^core::ops::deref::DerefMut::deref_mut$|^core::ops::deref::Deref::deref$|"
    r"^core::convert::(AsMut::as_mut|Into::into|From::from)$|^core::iter::traits::iterator::Iterator::(next|find|last|nth|map|filter|filter_map|flat_map|flatten|rev|enumerate|peekable|find_map)$|"
    r"^core::iter::traits::collect::IntoIterator::into_iter$|^core::borrow::BorrowMut::borrow_mut$")


class TX:
    def __init__(self, db):
        self.db = db
        self.memo = {}       # (uid, param) -> summary dict
        self.stack = set()

    # -------------------------------------------------------------- derived refs
    def derived_locals(self, fn, param):
        """Locals that (may) hold a `&mut` (or a value containing one) derived from param."""
        der = {param}
        g = graph(fn)
        changed = True
        blocks = fn["blocks"]
        while changed:
            changed = False
            for i, b in enumerate(blocks):
                if b.get("c"):
                    continue
                for s in b["s"]:
                    if s[0] != "=":
                        continue
                    dst = s[1][0]
                    if dst in der and not s[1][1]:
                        continue
                    rv = s[2]
                    src = None
                    if rv[0] == "use" and rv[1][0] in ("c", "m"):
                        src = rv[1][1]
                    elif rv[0] in ("ref", "raw") and rv[1] in ("mut", "Mut"):
                        src = rv[2]
                    elif rv[0] == "cast" and rv[2][0] in ("c", "m"):
                        src = rv[2][1]
                    elif rv[0] == "agg":
                        for o in rv[2]:
                            if o[0] in ("c", "m") and o[1][0] in der and self._has_mut(fn, o[1][0]):
                                src = o[1]
                    if src is not None and src[0] in der and dst not in der and not s[1][1]:
                        # copying a plain value out of *p is not a reference
                        if rv[0] == "use" and "*" in src[1] and not self._ty_has_mut(fn["locals"][dst][0]):
                            continue
                        if rv[0] == "use" and not self._ty_has_mut(fn["locals"][dst][0]) and not self._has_mut(fn, src[0]):
                            continue
                        der.add(dst)
                        changed = True
                t = b["t"]
                if t[0] == "call":
                    dst = t[3][0]
                    if dst in der or t[3][1]:
                        continue
                    if not self._ty_has_mut(fn["locals"][dst][0]):
                        continue
                    if any(a[0] in ("c", "m") and a[1][0] in der for a in t[2]):
                        der.add(dst)
                        changed = True
        return der

    @staticmethod
    def _ty_has_mut(ty):
        return "&mut " in ty or "IterMut" in ty or "ValuesMut" in ty or "Entry<" in ty or "RefMut" in ty or "{closure" in ty

    def _has_mut(self, fn, local):
        return self._ty_has_mut(fn["locals"][local][0])

    # -------------------------------------------------------------- call effects
    def call_effect(self, fn, t, der):
        """-> (writes_on_ok, dirty_err, unknown_reason|None) for a call terminator."""
        c = t[1]
        args = t[2]
        idxs = [i for i, a in enumerate(args) if a[0] in ("c", "m") and a[1][0] in der and not self._is_plain_copy(fn, a)]
        if not idxs:
            return (False, False, None)
        n = c.get("n")
        if n is None:
            return (True, True, "indirect call")
        dn = c.get("dn") or ""
        if FORWARD.search(dn) or FORWARD.search(n):
            # closures passed alongside may write
            w = False
            for a in args:
                e = peel(expr_operand(fn, a))
                if e[0] == "agg" and isinstance(e[1], dict) and e[1].get("closure"):
                    w = w or self.closure_writes(fn, e[1]["closure"])
            return (w, False, None)
        tgts = [f for f in self.db.by_key.get(n, []) if f["unit"] == fn["unit"]] or self.db.by_key.get(n, [])
        tgts = [f for f in tgts if "blocks" in f]
        if tgts and (c.get("rk") in ("item", None) and c.get("rn")):
            w = de = False
            unk = None
            for g_ in tgts[:1]:
                for i in idxs:
                    s = self.summary(g_, i + 1)
                    w = w or s["writes"]
                    de = de or s["dirty_err"]
                    unk = unk or s.get("unknown")
            return (w, de, unk)
        if not c.get("rn") and c.get("tr"):
            # unresolved trait method: fan out over workspace impls
            m = dn.rsplit("::", 1)[1]
            impls = [f for f in self.db.all_fns() if f.get("assoc_name") == m and
                     ((f.get("impl") or {}).get("trait") == c["tr"])]
            if impls:
                w = de = False
                unk = None
                for g_ in impls:
                    for i in idxs:
                        s = self.summary(g_, i + 1)
                        w = w or s["writes"]
                        de = de or s["dirty_err"]
                        unk = unk or s.get("unknown")
                return (w, de, unk)
        # dependency / std callee
        if ACCESSORS.search(n):
            return (False, False, None)
        ret_result = "Result<" in fn["locals"][t[3][0]][0] if not t[3][1] else False
        if n.startswith(("core::", "alloc::", "std::", "nonempty::")):
            # std writers never fail after writing (they return values, not errors)
            return (True, False, None)
        return (True, ret_result, "unknown callee %s" % cfg.short(n) if ret_result else None)

    def _is_plain_copy(self, fn, a):
        """Operand copies a non-reference value out of a derived place (no aliasing)."""
        l, proj = a[1]
        return False

    def closure_writes(self, fn, name):
        key = strip_generics(name)
        fs = [f for f in self.db.by_key.get(key, []) if f["unit"] == fn["unit"]]
        for f in fs:
            s = self.summary(f, 1)
            if s["writes"]:
                return True
            # nested closures
        return False

    # -------------------------------------------------------------- summaries
    def summary(self, fn, param):
        k = (fn["uid"], param)
        if k in self.memo:
            return self.memo[k]
        if k in self.stack:
            return {"writes": True, "dirty_err": True, "unknown": "recursion through %s" % cfg.short(fn["key"]), "witness": None}
        self.stack.add(k)
        try:
            s = self._analyse(fn, param)
        finally:
            self.stack.discard(k)
        self.memo[k] = s
        return s

    def _analyse(self, fn, param):
        db = self.db
        g = graph(fn)
        der = self.derived_locals(fn, param)
        is_closure_env = "root" in fn and param == 1
        blocks = fn["blocks"]
        returns_result = "Result<" in fn["locals"][0][0]
        # --- local write events per block: list of (kind, payload) in order
        writes_any = False
        unknown = None
        ev = {}
        for i, b in enumerate(blocks):
            if b.get("c"):
                continue
            w = False
            for s in b["s"]:
                if s[0] == "=" and s[1][0] in der and "*" in s[1][1]:
                    w = True
                elif s[0] == "=" and is_closure_env and s[1][0] in der and s[1][1]:
                    w = True
                elif s[0] == "sd" and s[1][0] in der and "*" in s[1][1]:
                    w = True
            t = b["t"]
            call = None
            if t[0] == "call":
                wo, de, unk = self.call_effect(fn, t, der)
                # a call whose destination is a place behind p is itself a write
                if t[3][0] in der and "*" in t[3][1]:
                    wo = True
                if wo or de:
                    call = (wo, de, unk)
            elif t[0] == "drop" and t[1][0] in der and "*" in t[1][1]:
                w = True
            ev[i] = (w, call)
            if w or (call and (call[0] or call[1])):
                writes_any = True
        if not writes_any:
            return {"writes": False, "dirty_err": False, "unknown": None, "witness": None}
        if not returns_result:
            return {"writes": True, "dirty_err": False, "unknown": None, "witness": None}
        # --- dataflow: state = (dirty, pend) ; pend = None | (call_block, dirty_before)
        #     retkind is derived at ret from the last assignment to _0 on the path: tracked as third component
        edge_cache = {}

        def efacts(b, tb, lab):
            key = (b, tb, lab)
            if key not in edge_cache:
                edge_cache[key] = cfg.edge_facts(db, fn, b, tb, lab)
            return edge_cache[key]
        start = (0, False, None, "unset", None)      # block, dirty, pend, retkind, dirty_cause
        seen = set()
        work = [start + (None,)]                     # last component: block of the last assignment to _0
        witness = None
        dirty_err = False
        errsites = set()                             # (kind, block): where a dirty error return gets its value
        unk_only = True
        prev = {}
        while work:
            st = work.pop()
            b, dirty, pend, rk, cause, rkb = st
            key = (b, dirty, pend, rk, rkb)
            if key in seen:
                continue
            seen.add(key)
            blk = blocks[b]
            w, call = ev.get(b, (False, None))
            # statements: assignments to _0 and writes
            for s in blk["s"]:
                if s[0] == "=" and s[1][0] == 0 and not s[1][1]:
                    rv = s[2]
                    if rv[0] == "agg" and isinstance(rv[1], dict) and rv[1].get("adt") == "core::result::Result":
                        rk = rv[1]["var"]
                    elif rv[0] == "use" and rv[1][0] in ("c", "m"):
                        rk = self._local_kind(fn, rv[1][1][0])
                    else:
                        rk = "unknown"
                    rkb = b
            if w:
                if pend:
                    dirty = dirty or pend[1] or pend[2]
                    pend = None
                if not dirty:
                    cause = ("write", b)
                dirty = True
            t = blk["t"]
            if t[0] == "call":
                if call:
                    wo, de, unk = call
                    if pend:
                        dirty = dirty or pend[1] or pend[2]
                        pend = None
                    if t[3][0] == 0 and not t[3][1]:
                        # tail position: result returned as is
                        rk = "done"      # the Err outcome of the tail call is judged here, not again at ret
                        if de and not dirty:
                            cause = ("callee", b, unk)
                        dirty_at_err = dirty or de
                        # the Ok outcome is irrelevant for dirty_err; record Err outcome now
                        if dirty_at_err:
                            dirty_err = True
                            errsites.add(("tail", b, bool(dirty)))
                            if witness is None:
                                witness = (b, cause or ("callee", b, unk))
                            if not (de and not dirty and unk):
                                unk_only = False
                        dirty = dirty or wo
                    else:
                        pend = (b, wo, de, dirty, unk)
                        # encode pend so it is hashable & carries what we need: (call block, wo, de, dirty_before, unk)
                        pend = (b, wo, de, dirty, unk)
                        dirty = dirty      # resolved on the result's branch
                        st_pend = pend
                elif t[3][0] == 0 and not t[3][1]:
                    n = t[1].get("n") or ""
                    if n.endswith("FromResidual::from_residual") or "from_residual" in n:
                        rk = "Err"
                        rkb = b
                    elif pend and (FORWARD.search(t[1].get("dn") or "") or FORWARD.search(n)) and t[2] and \
                            self._is_pending_result(fn, t[2][0], pend[0]):
                        # `pending_call(..).map_err(..)` returned as is: judge the pending call's Err outcome here
                        cb, wo, de, dbefore, unk = pend
                        if dbefore or de:
                            dirty_err = True
                            errsites.add(("tail", cb, bool(dbefore)))
                            if witness is None:
                                witness = (b, cause if dbefore else ("callee", cb, unk))
                            if not (de and not dbefore and unk):
                                unk_only = False
                        dirty = dbefore or wo
                        pend = None
                        rk = "done"
                    else:
                        rk = "call"
                        rkb = b
            if t[0] == "ret":
                d = dirty
                if pend:
                    d = d or pend[1] or pend[2]
                if d and rk in ("Err", "call", "unknown", "unset"):
                    dirty_err = True
                    errsites.add(("ret", rkb, True))
                    if witness is None:
                        witness = (b, cause)
                    unk_only = unk_only and bool(cause and cause[0] == "callee" and cause[-1])
                continue
            for tb, lab in g.succ[b]:
                nd, npend, ncause = dirty, pend, cause
                if pend and t[0] == "switch":
                    cb, wo, de, dbefore, unk = pend
                    side = None
                    for f in efacts(b, tb, lab):
                        if f[0] == "variant" and f[4]:
                            bv = base_value(f[1])
                            if bv[0] == "call" and bv[3] == cb:
                                if f[3] in ("Err", "Break"):
                                    side = "err"
                                elif f[3] in ("Ok", "Continue"):
                                    side = "ok"
                        elif f[0] == "bool":
                            e = peel(f[1])
                            if e[0] == "call" and (e[1].get("dn") or "").endswith(("is_err", "is_ok")) and e[2]:
                                bv = base_value(e[2][0])
                                if bv[0] == "call" and bv[3] == cb:
                                    is_err = e[1]["dn"].endswith("is_err")
                                    side = "err" if (is_err == f[2]) else "ok"
                    if side == "err":
                        nd = dbefore or de
                        if de and not dbefore:
                            ncause = ("callee", cb, unk)
                        npend = None
                    elif side == "ok":
                        nd = dbefore or wo
                        if wo and not dbefore:
                            ncause = ("callee-ok", cb, unk)
                        npend = None
                work.append((tb, nd, npend, rk, ncause, rkb))
        return {"writes": True, "dirty_err": dirty_err, "unknown": None if not dirty_err else (self._unk(witness) if unk_only else None),
                "witness": witness, "errsites": sorted(errsites, key=str)}

    def _is_pending_result(self, fn, op, call_block):
        bv = base_value(expr_operand(fn, op))
        return bv[0] == "call" and bv[3] == call_block

    @staticmethod
    def _unk(w):
        if w and w[1] and w[1][0] == "callee":
            return w[1][-1]
        return None

    def _local_kind(self, fn, l):
        g = graph(fn)
        ds = g.defs().get(l, [])
        kinds = set()
        for d in ds:
            if d[0] == "stmt" and d[3][0] == "agg" and isinstance(d[3][1], dict) and d[3][1].get("adt") == "core::result::Result":
                kinds.add(d[3][1]["var"])
            elif d[0] == "call":
                n = d[2][1].get("n") or ""
                kinds.add("Err" if "from_residual" in n else "call")
            else:
                kinds.add("unknown")
        if kinds == {"Ok"}:
            return "Ok"
        if kinds == {"Err"}:
            return "Err"
        return "unknown" if kinds else "unset"
