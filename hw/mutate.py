"""Mutation replay: apply canned single-site edits (hw/mutations.py) to a scratch
copy of /repo, re-extract, and require the named property check to report them.

usage: python3 -m hw.mutate [--prop Cxx] [ids...]     (developer tool and thorough self-test)"""
import os
import re
import shutil
import subprocess
import sys
import tempfile
import time

from . import extract
from .facts import DB
from .report import Ctx

SCRATCH_BASE = "/var/tmp"


def make_scratch(repo=extract.REPO):
    d = tempfile.mkdtemp(prefix="hw-verif-", dir=SCRATCH_BASE)
    for top in ("Cargo.toml", "Cargo.lock", "rust-toolchain.toml", "build.rs"):
        p = os.path.join(repo, top)
        if os.path.exists(p):
            shutil.copy2(p, os.path.join(d, top))
    shutil.copytree(os.path.join(repo, "crates"), os.path.join(d, "crates"),
                    ignore=shutil.ignore_patterns("target"))
    # build.rs of the workspace root reads git metadata; keep .git out, it tolerates absence
    return d


def apply_edit(root, m):
    """m['edits'] = [(relpath, old, new)], each `old` must occur exactly once;
    or m['patch'] = path of a unified diff (seeded change) applied with `git apply`."""
    saved = []
    if m.get("patch"):
        files = re.findall(r"^\+\+\+ b/(\S+)", open(m["patch"]).read(), re.M)
        for rel in files:
            p = os.path.join(root, rel)
            saved.append((p, open(p).read() if os.path.exists(p) else None))
        r = subprocess.run(["git", "apply", "--whitespace=nowarn", m["patch"]], cwd=root, stdout=subprocess.PIPE, stderr=subprocess.STDOUT, text=True)
        if r.returncode != 0:
            raise RuntimeError("mutation %s: patch does not apply: %s" % (m["id"], r.stdout[-300:]))
        return saved
    for rel, old, new in m["edits"]:
        p = os.path.join(root, rel)
        s = open(p).read()
        if s.count(old) != 1:
            for q, orig in saved:
                open(q, "w").write(orig)
            raise RuntimeError("mutation %s: pattern occurs %d times in %s" % (m["id"], s.count(old), rel))
        saved.append((p, s))
        open(p, "w").write(s.replace(old, new))
    return saved


def revert(saved):
    # restore in reverse order: a file edited twice must end up with its original content
    for p, s in reversed(saved):
        if s is None:
            if os.path.exists(p):
                os.remove(p)
        else:
            open(p, "w").write(s)


def run_prop(pid, facts_dir, h):
    import importlib
    import io
    import contextlib
    mod = importlib.import_module("hw.props.%s" % pid.lower())
    db = DB(facts_dir)
    ctx = Ctx(pid, "quick", db, h)
    mod.run(ctx)
    return [o for o in ctx.obs if o["status"] == "violated"]


def replay(muts, verbose=True, baseline_keys=None):
    """Returns [(mutation id, detected, violated keys, note)]"""
    root = make_scratch()
    target = None  # share the dependency artefacts of the main target dir
    results = []
    try:
        for m in muts:
            t0 = time.time()
            try:
                saved = apply_edit(root, m)
            except RuntimeError as e:
                results.append((m["id"], False, [], "NOT APPLICABLE: %s" % e))
                if verbose:
                    print("  %s: %s" % (m["id"], e))
                continue
            out = tempfile.mkdtemp(prefix="hw-facts-", dir=SCRATCH_BASE)
            try:
                rc, log, secs = extract.run_extraction(root, out, target=target)
                if rc != 0:
                    results.append((m["id"], False, [], "mutant does not compile"))
                    if verbose:
                        print("  %s: mutant does not compile\n%s" % (m["id"], log[-1500:]))
                    continue
                base = set(baseline_keys.get(m["prop"], ())) if baseline_keys else set()
                v = run_prop(m["prop"], out, "mut-" + m["id"])
                keys = [o["key"] for o in v if o["key"] not in base]
                exp = re.compile(m.get("expect", "."))
                hit = [k for k in keys if exp.search(k)]
                results.append((m["id"], bool(hit), keys, ""))
                if verbose:
                    print("  %s [%s] %s (%.0fs): %s" % (m["id"], m["prop"], "DETECTED" if hit else "MISSED",
                                                       time.time() - t0, keys[:4]))
            finally:
                revert(saved)
                shutil.rmtree(out, ignore_errors=True)
    finally:
        shutil.rmtree(root, ignore_errors=True)
    return results


def main(argv):
    from .mutations import MUTATIONS
    prop = None
    ids = []
    i = 0
    while i < len(argv):
        if argv[i] == "--prop":
            prop = argv[i + 1]
            i += 2
        else:
            ids.append(argv[i])
            i += 1
    muts = [m for m in MUTATIONS if (not prop or m["prop"] == prop) and (not ids or m["id"] in ids)]
    # baseline violations (known findings on the unchanged tree) are not detections
    d, h = extract.ensure_facts()
    baseline = {}
    for p in set(m["prop"] for m in muts):
        baseline[p] = [o["key"] for o in run_prop(p, d, h)]
    res = replay(muts, baseline_keys=baseline)
    missed = [r for r in res if not r[1]]
    print("mutation replay: %d/%d detected" % (len(res) - len(missed), len(res)))
    for r in missed:
        print("  MISSED %s %s %s" % (r[0], r[3], r[2][:3]))
    return 1 if missed else 0


if __name__ == "__main__":
    sys.exit(main(sys.argv[1:]))
