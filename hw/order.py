"""ORDER: forward dataflow in a small order domain.

Every tracked value (value-number) carries its relation to one reference value —
the value the tracked field had on function entry: '=', '>', '>=', or '?' (unknown).
Lattice: '=' and '>' are below '>=' which is below '?'.  Copies share value
numbers, so a comparison refines every copy of the compared value.  Joins at
merge points take the least upper bound (this is an abstract interpretation with
joins, not path enumeration)."""
from .cfg import graph

TOP = "?"


def join_rel(a, b):
    if a == b:
        return a
    if TOP in (a, b) or a is None or b is None:
        return TOP
    return ">="      # any mix of '=', '>', '>='


TRANSPARENT = ("core::ops::deref::Deref::deref", "core::clone::Clone::clone")


class RelFlow:
    def __init__(self, fn, field, add_callees=("core::ops::arith::Add::add",)):
        self.fn = fn
        self.field = field
        self.add_callees = add_callees
        self.g = graph(fn)
        self.notes = []

    def is_field(self, place):
        proj = place[1]
        return len(proj) >= 1 and proj[-1].startswith(".") and proj[-1].partition(":")[2] == self.field

    # state: {"loc": {local: vn}, "rel": {vn: rel}, "F": vn, "cond": {local: (op, vnA, vnB)}}
    def run(self):
        fn, g = self.fn, self.g
        n = g.n
        init = {"loc": {}, "rel": {("F0",): "="}, "F": ("F0",), "cond": {}}
        IN = {0: init}
        order = sorted(g.reachable_blocks())
        out_edges = {}
        for _ in range(8):
            changed = False
            for b in order:
                if b not in IN:
                    continue
                st = self.copy(IN[b])
                self.block(b, st)
                for tb, lab in g.succ[b]:
                    st2 = self.copy(st)
                    self.edge(b, tb, lab, st2)
                    out_edges[(b, tb, lab)] = st2
                    if tb not in IN:
                        IN[tb] = st2
                        changed = True
                    else:
                        j = self.join(tb, IN[tb], st2)
                        if j != IN[tb]:
                            IN[tb] = j
                            changed = True
            if not changed:
                break
        else:
            self.notes.append("no fixpoint within the iteration bound (loop): results widened")
            return None
        res = []
        for b in order:
            if fn["blocks"][b]["t"][0] == "ret" and b in IN:
                st = self.copy(IN[b])
                self.block(b, st)
                rv = st["loc"].get(0)
                res.append({"bb": b, "ret_rel": st["rel"].get(rv, TOP) if rv else TOP,
                            "field_rel": st["rel"].get(st["F"], TOP),
                            "ret_is_field": rv is not None and rv == st["F"]})
        return res

    @staticmethod
    def copy(st):
        return {"loc": dict(st["loc"]), "rel": dict(st["rel"]), "F": st["F"], "cond": dict(st["cond"])}

    def join(self, b, a, c):
        out = {"loc": {}, "rel": {}, "F": None, "cond": {}}
        for l in set(a["loc"]) & set(c["loc"]):
            va, vc = a["loc"][l], c["loc"][l]
            if va == vc:
                out["loc"][l] = va
                out["rel"][va] = join_rel(a["rel"].get(va, TOP), c["rel"].get(vc, TOP))
            else:
                v = ("j", b, l)
                out["loc"][l] = v
                out["rel"][v] = join_rel(a["rel"].get(va, TOP), c["rel"].get(vc, TOP))
        if a["F"] == c["F"]:
            out["F"] = a["F"]
            out["rel"][a["F"]] = join_rel(a["rel"].get(a["F"], TOP), c["rel"].get(c["F"], TOP))
        else:
            v = ("j", b, "F")
            out["F"] = v
            out["rel"][v] = join_rel(a["rel"].get(a["F"], TOP), c["rel"].get(c["F"], TOP))
        for l in set(a["cond"]) & set(c["cond"]):
            if a["cond"][l] == c["cond"][l]:
                out["cond"][l] = a["cond"][l]
        return out

    def val_of_place(self, st, place, site):
        if self.is_field(place):
            return st["F"]
        l, proj = place
        if not proj or proj == ["*"]:
            v = st["loc"].get(l)
            if v is None:
                v = ("in", l)
                st["loc"][l] = v
                st["rel"].setdefault(v, TOP)
            return v
        v = ("p", site)
        st["rel"][v] = TOP
        return v

    def val_of_operand(self, st, op, site):
        if op[0] in ("c", "m"):
            return self.val_of_place(st, op[1], site)
        v = ("k", site)
        st["rel"][v] = TOP
        return v

    def assign(self, st, place, v):
        if self.is_field(place):
            st["F"] = v
            return
        l, proj = place
        if not proj:
            st["loc"][l] = v
            st["cond"].pop(l, None)
        # writes through other projections do not affect tracked values

    def block(self, b, st):
        fn = self.fn
        blk = fn["blocks"][b]
        for j, s in enumerate(blk["s"]):
            if s[0] != "=":
                continue
            place, rv = s[1], s[2]
            site = (b, j)
            k = rv[0]
            if k == "use":
                self.assign(st, place, self.val_of_operand(st, rv[1], site))
            elif k == "ref":
                self.assign(st, place, self.val_of_place(st, rv[2], site))
            elif k == "bin" and rv[1] in ("Gt", "Ge", "Lt", "Le", "Eq", "Ne"):
                a = self.val_of_operand(st, rv[2], (b, j, 0))
                c = self.val_of_operand(st, rv[3], (b, j, 1))
                v = ("b", site)
                st["rel"][v] = TOP
                self.assign(st, place, v)
                if not place[1]:
                    st["cond"][place[0]] = (rv[1], a, c)
            else:
                v = ("s", site)
                st["rel"][v] = TOP
                self.assign(st, place, v)
        t = blk["t"]
        if t[0] == "call":
            c = t[1]
            dn = c.get("dn")
            site = (b, "t")
            if dn in TRANSPARENT and t[2]:
                v = self.val_of_operand(st, t[2][0], site)
            elif dn in self.add_callees and len(t[2]) == 2:
                a = self.val_of_operand(st, t[2][0], site)
                ra = st["rel"].get(a, TOP)
                inc = t[2][1]
                v = ("add", site)
                if inc[0] == "k" and "v" in inc[1] and ra != TOP:
                    cval = int(inc[1]["v"])
                    if cval > 0:
                        st["rel"][v] = ">"
                    elif cval == 0:
                        st["rel"][v] = ra
                    else:
                        st["rel"][v] = TOP
                else:
                    st["rel"][v] = TOP
            else:
                v = ("c", site)
                st["rel"][v] = TOP
            self.assign(st, t[3], v)

    def edge(self, b, tb, lab, st):
        t = self.fn["blocks"][b]["t"]
        if t[0] != "switch":
            return
        op = t[1]
        if op[0] not in ("c", "m") or op[1][1]:
            return
        cond = st["cond"].get(op[1][0])
        if not cond:
            return
        if lab == "otherwise":
            vals = {int(v) for v, _ in t[2]}
            truth = True if vals == {0} else (False if vals == {1} else None)
        else:
            truth = (lab != 0)
        if truth is None:
            return
        o, a, c = cond
        if not truth:
            o = {"Gt": "Le", "Ge": "Lt", "Lt": "Ge", "Le": "Gt", "Eq": "Ne", "Ne": "Eq"}[o]
        # normalise to a (op) c with op in Gt, Ge, Eq
        if o in ("Lt", "Le"):
            o = {"Lt": "Gt", "Le": "Ge"}[o]
            a, c = c, a
        rc = st["rel"].get(c, TOP)
        ra = st["rel"].get(a, TOP)
        if o == "Gt" and rc in ("=", ">", ">="):
            st["rel"][a] = ">"
        elif o == "Ge" and rc in ("=", ">", ">="):
            if ra == TOP:
                st["rel"][a] = rc if rc != "=" else ">="
        elif o == "Eq":
            if ra == TOP and rc != TOP:
                st["rel"][a] = rc
            elif rc == TOP and ra != TOP:
                st["rel"][c] = ra
