"""Canned single-site mutations (DESIGN Appendix C).  Each compiles, and the named
property check must report it (key matching `expect`)."""

N = "crates/radicle-node/src/"
R = "crates/radicle/src/"
F = "crates/radicle-fetch/src/"

MUTATIONS = [
    # ---- C29
    {"id": "m38a", "prop": "C29", "expect": r"order:timestamp",
     "edits": [(N + "service.rs", "if *now > *self.last_timestamp {", "if *now >= *self.last_timestamp {")]},
    {"id": "m38b", "prop": "C29", "expect": r"order:timestamp",
     "edits": [(N + "service.rs", "self.last_timestamp = self.last_timestamp + 1;", "self.last_timestamp = self.last_timestamp + 0;")]},
    {"id": "m38c", "prop": "C29", "expect": r"flow:.*refs_announcement_for",
     "edits": [(N + "service.rs", "let timestamp = self.timestamp();\n        let mut refs = BoundedVec", "let timestamp: Timestamp = self.clock.into();\n        let mut refs = BoundedVec")]},
    {"id": "m38d", "prop": "C29", "expect": r"who:last_timestamp",
     "edits": [(N + "service.rs", "        let inventory = self.inventory()?;\n\n        self.inventory = gossip::inventory(time, inventory);", "        let inventory = self.inventory()?;\n        self.last_timestamp = time;\n        self.inventory = gossip::inventory(time, inventory);")]},
    # ---- C19
    {"id": "m33a", "prop": "C19", "expect": r"who:Delegates",
     "edits": [(R + "identity/doc.rs", '#[serde(try_from = "Vec<Did>")]\npub struct Delegates', 'pub struct Delegates')]},
    {"id": "m33b", "prop": "C19", "expect": r"dom:Threshold::new",
     "edits": [(R + "identity/doc.rs", "} else if t > delegates.len() {", "} else if t > delegates.len() + 1 {")]},
    {"id": "m33c", "prop": "C19", "expect": r"dom:Delegates::new:len",
     "edits": [(R + "identity/doc.rs", "if dids.len() >= MAX_DELEGATES {", "if dids.len() > MAX_DELEGATES {")]},
    {"id": "m33d", "prop": "C19", "expect": r"dom:Version::new",
     "edits": [(R + "identity/doc.rs", "Some(n) if n > IDENTITY_VERSION.into() =>", "Some(n) if n > IDENTITY_VERSION.into() && n.get() % 2 == 7 =>")]},
    {"id": "m33f", "prop": "C19", "expect": r"who:Delegates",
     "edits": [(R + "identity/doc.rs", "    /// Get the first delegate in the set.\n", "    pub fn unchecked(d: Vec<Did>) -> Option<Self> { NonEmpty::from_vec(d).map(Delegates) }\n    /// Get the first delegate in the set.\n")]},
    # ---- C20
    {"id": "m34a", "prop": "C20", "expect": r"dom:verified|who:SignedRefs",
     "edits": [(R + "storage/refs.rs", "            Err(e) => Err(e),\n        }\n    }\n\n    pub fn verify<R: ReadRepository>", "            Err(_) => Ok(SignedRefs { refs: self.refs, signature: self.signature, id: self.id, _verified: PhantomData }),\n        }\n    }\n\n    pub fn verify<R: ReadRepository>")]},
    {"id": "m34b", "prop": "C20", "expect": r"flow:verify:message",
     "edits": [(R + "storage/refs.rs", "let canonical = self.refs.canonical();\n        let local = repo.id();", "let canonical = Refs::from(BTreeMap::new()).canonical();\n        let local = repo.id();")]},
    {"id": "m34c", "prop": "C20", "expect": r"excl:verify:identity-mismatch",
     "edits": [(R + "storage/refs.rs", "if remote != local {", "if remote != local && self.refs.len() > 100000 {")]},
    # ---- C12
    {"id": "m24a", "prop": "C12", "expect": r"dom:upload_pack",
     "edits": [(N + "worker.rs", "if let Err(e) = self.is_authorized(remote, header.repo) {\n                    return FetchResult::Responder {\n                        rid: Some(header.repo),\n                        result: Err(e),\n                    };\n                }",
                "if let Err(e) = self.is_authorized(remote, header.repo) {\n                    log::warn!(target: \"worker\", \"unauthorized: {e}\");\n                }")]},
    {"id": "m25a", "prop": "C12", "expect": r"dom:is_authorized:visible",
     "edits": [(N + "worker.rs", "if !doc.is_visible_to(&remote.into()) {", "if doc.is_visible_to(&remote.into()) {")]},
    {"id": "m25b", "prop": "C12", "expect": r"dom:is_authorized:not-blocked",
     "edits": [(N + "worker.rs", "        if policy.is_block() {\n            return Err(UploadError::Unauthorized(remote, rid));\n        }\n", "")]},
    {"id": "m25c", "prop": "C12", "expect": r"table:is_visible_to",
     "edits": [(R + "identity/doc.rs", "Visibility::Private { allow } => allow.contains(did) || self.is_delegate(did),", "Visibility::Private { allow } => allow.contains(did) || self.is_delegate(did) || allow.is_empty(),")]},
    {"id": "m25d", "prop": "C12", "expect": r"flow:same-repo|flow:is_authorized",
     "edits": [(N + "worker.rs", "let repo = self.storage.repository(rid)?;\n        let doc = repo.identity_doc()?;\n\n        if !doc", "let repo = self.storage.repository(rid)?;\n        let doc = repo.identity_doc()?;\n        let remote = self.nid;\n        if !doc")]},
    # ---- C28
    {"id": "m37a", "prop": "C28", "expect": r"clean:local|floor:clean:guards",
     "edits": [(R + "storage/git.rs", "if *local == id || delegates.contains(&id) {", "if delegates.contains(&id) {")]},
    {"id": "m37b", "prop": "C28", "expect": r"dom:Storage::clean:remove",
     "edits": [(R + "storage/git.rs", "        if has_sigrefs {\n            repo.clean(&self.info.key)", "        if !has_sigrefs {\n            repo.clean(&self.info.key)")]},
    {"id": "m37c", "prop": "C28", "expect": r"clean:delegate",
     "edits": [(R + "storage/git.rs", "if *local == id || delegates.contains(&id) {", "if *local == id || !delegates.contains(&id) {")]},
    {"id": "m37d", "prop": "C28", "expect": r"flow:clean:delegates",
     "edits": [(R + "storage/git.rs", "        let delegates = self\n            .delegates()?\n            .into_iter()\n            .map(|did| *did)\n            .collect::<BTreeSet<_>>();\n        let mut deleted = Vec::new();", "        let delegates = self\n            .delegates()?\n            .into_iter()\n            .map(|did| *did)\n            .take(1)\n            .collect::<BTreeSet<_>>();\n        let mut deleted = Vec::new();")]},
]
