"""Canned single-site mutations (DESIGN Appendix C).  Each compiles, and the named
property check must report it (key matching `expect`)."""

N = "crates/radicle-node/src/"
R = "crates/radicle/src/"
F = "crates/radicle-fetch/src/"

MUTATIONS = [
    # ---- C03
    {"id": "m39a", "prop": "C03", "expect": r"gate:retain",
     "edits": [(R + "git/canonical.rs", "candidates.retain(|_, votes| *votes >= self.threshold);", "candidates.retain(|_, votes| *votes > 0);")]},
    {"id": "m39b", "prop": "C03", "expect": r"keys:entry",
     "edits": [(R + "git/canonical.rs", "                if base == *other || base == *head {\n                    *candidates.entry(base).or_default() += 1;\n                }", "                *candidates.entry(base).or_default() += 1;")]},
    {"id": "m39c", "prop": "C03", "expect": r"advance:descendant|diverge",
     "edits": [(R + "git/canonical.rs", "            if base == *longest {\n                // `head` is a successor of `longest`. Update `longest`.", "            if base == *longest || base != **head {\n                // `head` is a successor of `longest`. Update `longest`.")]},
    # ---- C13 (findings F21, F22 reverted; parser made partial)
    {"id": "m51a", "prop": "C13", "expect": r"Streams::open:unwrap:Option::expect",
     "edits": [(N + "wire/protocol.rs", "            if let Some(channels) = self.register(id, config) {\n                return (id, channels);\n            }",
                "            let channels = self.register(id, config).expect(\"Streams::open: stream was already open\");\n            return (id, channels);")]},
    {"id": "m51b", "prop": "C13", "expect": r"entries:dbread:Row::read<radicle::node::Address>",
     "edits": [(R + "node/address/store.rs", "            // Nb. See `addresses_of`: skip stored addresses that don't parse back.\n            let Ok(addr) = row.try_read::<Address, _>(\"value\") else {\n                continue;\n            };",
                "            let addr = row.read::<Address, _>(\"value\");")]},
    {"id": "m51c", "prop": "C13", "expect": r"Session::fetching",
     "edits": [(N + "service.rs", "        if !session.is_connected() {\n            // This can happen if a session disconnects in the time between asking for seeds to",
                "        if session.is_disconnected() {\n            // This can happen if a session disconnects in the time between asking for seeds to")]},
    # ---- C25
    {"id": "m50a", "prop": "C25", "expect": r"announcer:local:synced_with|announcer:local:continue",
     "edits": [(R + "node/sync/announce.rs", "        if node == self.local_node {\n            return ControlFlow::Continue(self.progress());\n        }\n", "")]},
    {"id": "m50b", "prop": "C25", "expect": r"announcer:local:new:synced",
     "edits": [(R + "node/sync/announce.rs", "        config.synced.remove(&config.local_node);\n", "")]},
    {"id": "m50c", "prop": "C25", "expect": r"fetcher:target:table",
     "edits": [(R + "node/sync/fetch.rs", "None => (succeeded >= min).then_some(SuccessfulOutcome::MinReplicas { succeeded }),", "None => (succeeded > min).then_some(SuccessfulOutcome::MinReplicas { succeeded }),")]},
    {"id": "m50d", "prop": "C25", "expect": r"announcer:target:table",
     "edits": [(R + "node/sync/announce.rs", "            || preferred >= self.target.preferred_seeds.len();", "            || synced >= self.target.preferred_seeds.len();")]},
    {"id": "m50e", "prop": "C25", "expect": r"fetcher:handout:next_fetch",
     "edits": [(R + "node/sync/fetch.rs", "            .map(|Ready { node, addr }| (node, addr))\n            .filter(|(node, _)| self.include_node(node))", "            .map(|Ready { node, addr }| (node, addr))")]},
    {"id": "m50f", "prop": "C25", "expect": r"fetcher:handout:next_node",
     "edits": [(R + "node/sync/fetch.rs", "        let include_node = |node: &NodeId| results.get(node).is_none() && local_node != *node;", "        let include_node = |node: &NodeId| results.get(node).is_none() || local_node != *node;")]},
    {"id": "m50g", "prop": "C25", "expect": r"fetcher:count:",
     "edits": [(R + "node/sync/fetch.rs", "                succeeded += 1;\n                if self.target.seeds.contains(nid) {\n                    preferred += 1;\n                }", "                if self.target.seeds.contains(nid) {\n                    preferred += 1;\n                    succeeded += 1;\n                }")]},
    {"id": "m50h", "prop": "C25", "expect": r"fetcher:record:",
     "edits": [(R + "node/sync/fetch.rs", "        if self.include_node(&node) {\n            self.results.push(node, result);\n        }", "        self.results.push(node, result);")]},
    {"id": "m50i", "prop": "C25", "expect": r"table:lower_bound",
     "edits": [(R + "node/sync.rs", "            Self::Range(ReplicationRange { lower: min, .. }) => *min,", "            Self::Range(ReplicationRange { upper: min, .. }) => *min,")]},
    {"id": "m50j", "prop": "C25", "expect": r"announcer:report:timed_out",
     "edits": [(R + "node/sync/announce.rs", "        match self.is_target_reached() {\n            None => TimedOut {", "        match self.is_target_reached().filter(|_| self.to_sync.is_empty()) {\n            None => TimedOut {")]},
    {"id": "m50k", "prop": "C25", "expect": r"announcer:target:table",
     "edits": [(R + "node/sync/announce.rs", "            Some(max) => (reached_preferred && synced >= max)", "            Some(max) => (reached_preferred || synced >= max)")]},
    # ---- C26 / C27 / C21
    {"id": "m36a", "prop": "C26", "expect": r"boundary|panic",
     "edits": [("crates/radicle-term/src/cell.rs", "                self[..boundary + ws].to_owned()", "                self[..boundary + 1].to_owned()")]},
    {"id": "m36b", "prop": "C27", "expect": r"request_identities|index|guard",
     "edits": [("crates/radicle-ssh/src/agent/client.rs", "        if !resp.is_empty() && resp[0] == msg::IDENTITIES_ANSWER {", "        if resp[0] == msg::IDENTITIES_ANSWER {")]},
    {"id": "m36c", "prop": "C21", "expect": r"panic",
     "edits": [(R + "identity/doc/id.rs", "    fn from_str(s: &str) -> Result<Self, Self::Err> {\n        Self::from_urn(s)\n    }", "    fn from_str(s: &str) -> Result<Self, Self::Err> {\n        if s.as_bytes()[0] == b' ' {\n            return Self::from_urn(s.trim());\n        }\n        Self::from_urn(s)\n    }")]},
    # ---- C02
    {"id": "m03a", "prop": "C02", "expect": r"dom:update:threshold",
     "edits": [(F + "state.rs", "        if valid_delegates.len() >= threshold {\n            let applied", "        if !valid_delegates.is_empty() || threshold == 0 {\n            let applied")]},
    {"id": "m03b", "prop": "C02", "expect": r"table:threshold",
     "edits": [(F + "state.rs", "        let threshold = if is_delegate {\n            anchor.threshold() - 1\n        } else {\n            anchor.threshold()\n        };", "        let threshold = if is_delegate {\n            anchor.threshold() - 1\n        } else {\n            anchor.threshold() - 1\n        };")]},
    {"id": "m04a", "prop": "C02", "expect": r"table:special_update|who:Policy::Allow",
     "edits": [(F + "refs.rs", "        no_ff: if is_delegate(remote) {\n            Policy::Abort\n        } else {", "        no_ff: if is_delegate(remote) {\n            Policy::Allow\n        } else {")]},
    {"id": "m05a", "prop": "C02", "expect": r"excl:delegate:behind|pair:behind:prune",
     "edits": [(F + "state.rs", "                            log::trace!(target: \"fetch\", \"Advertised `rad/sigrefs` {} is behind {at} for {remote}\", sigrefs.at);\n                            self.prune(&remote);\n                            continue;\n                        } else if", "                            log::trace!(target: \"fetch\", \"Advertised `rad/sigrefs` {} is behind {at} for {remote}\", sigrefs.at);\n                        } else if")]},
    # ---- C04
    {"id": "m06a", "prop": "C04", "expect": r"dom:.*accept|verdict|verify",
     "edits": [(R + "cob/identity.rs", "        if current\n            .verify_signature(&author, &signature, self.blob)\n            .is_err()\n        {\n            return Err(ApplyError::InvalidSignature(author, self.blob));\n        }\n        if self", "        if current\n            .verify_signature(&author, &signature, self.blob)\n            .is_err()\n        {\n            log::warn!(\"invalid signature by {author}\");\n        }\n        if self")]},
    {"id": "m07a", "prop": "C04", "expect": r"dom:.*current|majority",
     "edits": [(R + "cob/identity.rs", "        if self.is_majority(votes) {\n            self.current = id;", "        if votes > 1 {\n            self.current = id;")]},
    {"id": "m08a", "prop": "C04", "expect": r"redact|accepted",
     "edits": [(R + "cob/identity.rs", "                        if r.is_accepted() {\n                            // You can't redact an accepted revision.\n                            return Err(ApplyError::UnexpectedState);\n                        }\n", "")]},
    # ---- C05
    {"id": "m09a", "prop": "C05", "expect": r"req:chronological|total",
     "edits": [("crates/radicle-cob/src/change_graph.rs", "x.1.timestamp.cmp(&y.1.timestamp).then(x.0.cmp(y.0))", "x.1.timestamp.cmp(&y.1.timestamp)")]},
    # ---- C06
    {"id": "m10a", "prop": "C06", "expect": r"tx:apply:.*Issue",
     "edits": [(R + "cob/issue.rs", "        let mut next = self.clone();\n\n        for action in op.actions {\n            log::trace!(target: \"issue\"", "        let next = &mut *self;\n\n        for action in op.actions {\n            log::trace!(target: \"issue\""),
               (R + "cob/issue.rs", "                log::error!(target: \"issue\", \"Error applying {}: {e}\", op.id);\n                return Err(e);\n            }\n        }\n        *self = next;\n", "                log::error!(target: \"issue\", \"Error applying {}: {e}\", op.id);\n                return Err(e);\n            }\n        }\n")]},
    # ---- C09
    {"id": "m17a", "prop": "C09", "expect": r"pair:",
     "edits": [(R + "cob/patch.rs", "        let (patch, commit) = tx.commit(message, self.id, &mut self.store.raw, signer)?;\n        self.cache\n            .update(&self.store.as_ref().id(), &self.id, &patch)\n            .map_err(|e| Error::CacheUpdate {\n                id: self.id,\n                err: e.into(),\n            })?;\n        self.patch = patch;", "        let (patch, commit) = tx.commit(message, self.id, &mut self.store.raw, signer)?;\n        self.patch = patch;")]},
    # ---- C13
    {"id": "m26a", "prop": "C13", "expect": r"announced",
     "edits": [(N + "service.rs", "        if timestamp == Timestamp::MIN {\n            return Err(session::Error::InvalidTimestamp(timestamp));\n        }\n", "")]},
    {"id": "m26b", "prop": "C13", "expect": r"read_pktline",
     "edits": [(N + "worker/upload_pack.rs", "            if length < HEADER_LEN || length > buf.len() {", "            if length > buf.len() {")]},
    {"id": "m26c", "prop": "C13", "expect": r"filtered",
     "edits": [(N + "service.rs", "                if subscribe.since <= subscribe.until {", "                if subscribe.since <= subscribe.until || subscribe.until == Timestamp::MIN {")]},
    # ---- C14
    {"id": "m27a", "prop": "C14", "expect": r"taint",
     "edits": [(N + "wire/varint.rs", "        let mut data = Vec::new();\n        let n = (&mut *reader)", "        let mut data = Vec::with_capacity(*size as usize);\n        let n = (&mut *reader)")]},
    # ---- C18
    {"id": "m32a", "prop": "C18", "expect": r"exh:|write_f64",
     "edits": [(R + "canonical/formatter.rs", "    fn write_f64<W: Write + ?Sized>(&mut self, _writer: &mut W, _value: f64) -> Result<()> {\n        float_err!()\n    }\n", "")]},
    {"id": "m32b", "prop": "C18", "expect": r"nfc",
     "edits": [(R + "canonical/formatter.rs", "        fragment.nfc().try_for_each(|ch| {", "        fragment.chars().try_for_each(|ch| {")]},
    # ---- C15
    {"id": "m28a", "prop": "C15", "expect": r"codec:Message:Subscribe:fields",
     "edits": [(N + "wire/message.rs", "                let since = Timestamp::decode(reader)?;\n                let until = Timestamp::decode(reader)?;", "                let until = Timestamp::decode(reader)?;\n                let since = Timestamp::decode(reader)?;")]},
    {"id": "m28b", "prop": "C15", "expect": r"tags:MessageType:inverse",
     "edits": [(N + "wire/message.rs", "            10 => Ok(MessageType::Ping),\n            12 => Ok(MessageType::Pong),", "            12 => Ok(MessageType::Ping),\n            10 => Ok(MessageType::Pong),")]},
    {"id": "m28c", "prop": "C15", "expect": r"codec:Message:Announcement/.*:(sequence|fields)",
     "edits": [(N + "wire/message.rs", "                n += node.encode(writer)?;\n                n += signature.encode(writer)?;\n                n += message.encode(writer)?;", "                n += signature.encode(writer)?;\n                n += node.encode(writer)?;\n                n += message.encode(writer)?;")]},
    {"id": "m28d", "prop": "C15", "expect": r"codec:RefsAnnouncement:(sequence|fields)",
     "edits": [(N + "wire/message.rs", "        n += self.rid.encode(writer)?;\n        n += self.refs.encode(writer)?;\n        n += self.timestamp.encode(writer)?;", "        n += self.rid.encode(writer)?;\n        n += self.timestamp.encode(writer)?;\n        n += self.refs.encode(writer)?;")]},
    {"id": "m28e", "prop": "C15", "expect": r"tags:type_id",
     "edits": [(N + "wire/message.rs", "AnnouncementMessage::Inventory(_) => MessageType::InventoryAnnouncement,", "AnnouncementMessage::Inventory(_) => MessageType::RefsAnnouncement,")]},
    {"id": "m29a", "prop": "C15", "expect": r"size:Message:Announcement/Inventory",
     "edits": [(N + "service/message.rs", "pub const INVENTORY_LIMIT: usize = 2973;", "pub const INVENTORY_LIMIT: usize = 4000;")]},
    {"id": "m29b", "prop": "C15", "expect": r"size:zeroes",
     "edits": [(N + "service.rs", "                if ponglen > Ping::MAX_PONG_ZEROES {\n                    return Ok(());\n                }\n", "")]},
    {"id": "m29c", "prop": "C15", "expect": r"inj:",
     "edits": [(N + "wire/message.rs", "            if u8::decode(reader)? != 0 {\n                return Err(wire::Error::UnexpectedBytes);\n            }", "            let _ = u8::decode(reader)?;")]},
    {"id": "m29d", "prop": "C15", "expect": r"codec:Address:.*",
     "edits": [(N + "wire/message.rs", "            Ok(AddressType::Ipv6) => {\n                let octets: [u8; 16] = wire::Decode::decode(reader)?;", "            Ok(AddressType::Ipv6) => {\n                let _scope: u8 = wire::Decode::decode(reader)?;\n                let octets: [u8; 16] = wire::Decode::decode(reader)?;")]},
    # ---- C01
    {"id": "m01a", "prop": "C01", "expect": r"pair:failures:prune",
     "edits": [(F + "state.rs", "                        self.prune(&remote);\n                        failures.append(warns);", "                        failures.append(warns);")]},
    {"id": "m01b", "prop": "C01", "expect": r"dom:remotes.insert:validate",
     "edits": [(F + "state.rs", "                        self.prune(&remote);\n                        failures.append(warns);\n                    } else {\n                        remotes.insert(remote);\n                    }", "                        self.prune(&remote);\n                        failures.append(warns);\n                    }\n                    remotes.insert(remote);")]},
    {"id": "m02a", "prop": "C01", "expect": r"skip-only-sigrefs",
     "edits": [(F + "state.rs", "                has_sigrefs = true;\n                continue;\n            }\n            if let Some(signed_oid)", "                has_sigrefs = true;\n                continue;\n            }\n            if refname.starts_with(\"refs/rad/\") {\n                continue;\n            }\n            if let Some(signed_oid)")]},
    {"id": "m02b", "prop": "C01", "expect": r"validate_remote:(mismatch|compare)",
     "edits": [(F + "state.rs", "                if oid != signed_oid {\n                    validations.push", "                if oid != signed_oid && !refname.starts_with(\"refs/tags\") {\n                    validations.push")]},
    {"id": "m02c", "prop": "C01", "expect": r"prepare_updates:prune:unsigned",
     "edits": [(F + "stage.rs", "                if !signed.contains(&name) {", "                if !signed.contains(&name) || signed.len() > 64 {")]},
    {"id": "m02d", "prop": "C01", "expect": r"who:git-ref-write|who:call",
     "edits": [(F + "git/repository.rs", "pub fn update<'a, I>(", "pub fn force(repo: &Repository, name: &str, oid: Oid) -> Result<(), radicle::git::raw::Error> {\n    repo.backend.reference(name, oid.into(), true, \"x\").map(|_| ())\n}\n\npub fn update<'a, I>(")]},
    {"id": "m02e", "prop": "C01", "expect": r"some-iff-nonempty",
     "edits": [(F + "sigrefs.rs", "Ok(validations.is_empty().not().then_some(validations))", "Ok((validations.len() > 1).then_some(validations))")]},
    # ---- C29
    {"id": "m38a", "prop": "C29", "expect": r"order:timestamp",
     "edits": [(N + "service.rs", "if *now > *self.last_timestamp {", "if *now >= *self.last_timestamp {")]},
    {"id": "m38b", "prop": "C29", "expect": r"order:timestamp",
     "edits": [(N + "service.rs", "self.last_timestamp = self.last_timestamp + 1;", "self.last_timestamp = self.last_timestamp + 0;")]},
    {"id": "m38c", "prop": "C29", "expect": r"flow:.*refs_announcement_for",
     "edits": [(N + "service.rs", "let timestamp = self.timestamp();\n        let mut refs = BoundedVec", "let timestamp: Timestamp = self.clock.into();\n        let mut refs = BoundedVec")]},
    {"id": "m38d", "prop": "C29", "expect": r"who:last_timestamp",
     "edits": [(N + "service.rs", "        let inventory = self.inventory()?;\n\n        self.inventory = gossip::inventory(time, inventory);", "        let inventory = self.inventory()?;\n        self.last_timestamp = time;\n        self.inventory = gossip::inventory(time, inventory);")]},
    # ---- C19
    {"id": "m33a", "prop": "C19", "expect": r"who:Delegates",
     "edits": [(R + "identity/doc.rs", '#[serde(try_from = "Vec<Did>")]\npub struct Delegates', 'pub struct Delegates')]},
    {"id": "m33b", "prop": "C19", "expect": r"dom:Threshold::new",
     "edits": [(R + "identity/doc.rs", "} else if t > delegates.len() {", "} else if t > delegates.len() + 1 {")]},
    {"id": "m33c", "prop": "C19", "expect": r"dom:Delegates::new:len",
     "edits": [(R + "identity/doc.rs", "if dids.len() >= MAX_DELEGATES {", "if dids.len() > MAX_DELEGATES {")]},
    {"id": "m33d", "prop": "C19", "expect": r"dom:Version::new",
     "edits": [(R + "identity/doc.rs", "Some(n) if n > IDENTITY_VERSION.into() =>", "Some(n) if n > IDENTITY_VERSION.into() && n.get() % 2 == 7 =>")]},
    {"id": "m33f", "prop": "C19", "expect": r"who:Delegates",
     "edits": [(R + "identity/doc.rs", "    /// Get the first delegate in the set.\n", "    pub fn unchecked(d: Vec<Did>) -> Option<Self> { NonEmpty::from_vec(d).map(Delegates) }\n    /// Get the first delegate in the set.\n")]},
    # ---- C20
    {"id": "m34a", "prop": "C20", "expect": r"dom:verified|who:SignedRefs",
     "edits": [(R + "storage/refs.rs", "            Err(e) => Err(e),\n        }\n    }\n\n    pub fn verify<R: ReadRepository>", "            Err(_) => Ok(SignedRefs { refs: self.refs, signature: self.signature, id: self.id, _verified: PhantomData }),\n        }\n    }\n\n    pub fn verify<R: ReadRepository>")]},
    {"id": "m34b", "prop": "C20", "expect": r"flow:verify:message",
     "edits": [(R + "storage/refs.rs", "let canonical = self.refs.canonical();\n        let local = repo.id();", "let canonical = Refs::from(BTreeMap::new()).canonical();\n        let local = repo.id();")]},
    {"id": "m34c", "prop": "C20", "expect": r"excl:verify:identity-mismatch",
     "edits": [(R + "storage/refs.rs", "if remote != local {", "if remote != local && self.refs.len() > 100000 {")]},
    # ---- C12
    {"id": "m24a", "prop": "C12", "expect": r"dom:upload_pack",
     "edits": [(N + "worker.rs", "if let Err(e) = self.is_authorized(remote, header.repo) {\n                    return FetchResult::Responder {\n                        rid: Some(header.repo),\n                        result: Err(e),\n                    };\n                }",
                "if let Err(e) = self.is_authorized(remote, header.repo) {\n                    log::warn!(target: \"worker\", \"unauthorized: {e}\");\n                }")]},
    {"id": "m25a", "prop": "C12", "expect": r"dom:is_authorized:visible",
     "edits": [(N + "worker.rs", "if !doc.is_visible_to(&remote.into()) {", "if doc.is_visible_to(&remote.into()) {")]},
    {"id": "m25b", "prop": "C12", "expect": r"dom:is_authorized:not-blocked",
     "edits": [(N + "worker.rs", "        if policy.is_block() {\n            return Err(UploadError::Unauthorized(remote, rid));\n        }\n", "")]},
    {"id": "m25c", "prop": "C12", "expect": r"table:is_visible_to",
     "edits": [(R + "identity/doc.rs", "Visibility::Private { allow } => allow.contains(did) || self.is_delegate(did),", "Visibility::Private { allow } => allow.contains(did) || self.is_delegate(did) || allow.is_empty(),")]},
    {"id": "m25d", "prop": "C12", "expect": r"flow:same-repo|flow:is_authorized",
     "edits": [(N + "worker.rs", "let repo = self.storage.repository(rid)?;\n        let doc = repo.identity_doc()?;\n\n        if !doc", "let repo = self.storage.repository(rid)?;\n        let doc = repo.identity_doc()?;\n        let remote = self.nid;\n        if !doc")]},
    # ---- C28
    {"id": "m37a", "prop": "C28", "expect": r"clean:local|floor:clean:guards",
     "edits": [(R + "storage/git.rs", "if *local == id || delegates.contains(&id) {", "if delegates.contains(&id) {")]},
    {"id": "m37b", "prop": "C28", "expect": r"dom:Storage::clean:remove",
     "edits": [(R + "storage/git.rs", "        if has_sigrefs {\n            repo.clean(&self.info.key)", "        if !has_sigrefs {\n            repo.clean(&self.info.key)")]},
    {"id": "m37c", "prop": "C28", "expect": r"clean:delegate",
     "edits": [(R + "storage/git.rs", "if *local == id || delegates.contains(&id) {", "if *local == id || !delegates.contains(&id) {")]},
    {"id": "m37d", "prop": "C28", "expect": r"flow:clean:delegates",
     "edits": [(R + "storage/git.rs", "        let delegates = self\n            .delegates()?\n            .into_iter()\n            .map(|did| *did)\n            .collect::<BTreeSet<_>>();\n        let mut deleted = Vec::new();", "        let delegates = self\n            .delegates()?\n            .into_iter()\n            .map(|did| *did)\n            .take(1)\n            .collect::<BTreeSet<_>>();\n        let mut deleted = Vec::new();")]},
    # ---- C10
    {"id": "m19a", "prop": "C10", "expect": r"dom:announced:verify",
     "edits": [(N + "service.rs", "        if !announcement.verify() {\n            return Err(session::Error::Misbehavior);\n        }\n", "")]},
    {"id": "m19b", "prop": "C10", "expect": r"dom:announced:not-future",
     "edits": [(N + "service.rs", "if timestamp.saturating_sub(now.as_millis()) > MAX_TIME_DELTA.as_millis() as u64 {", "if timestamp.saturating_sub(now.as_millis()) > MAX_TIME_DELTA.as_millis() as u64 && message.is_node_announcement() {")]},
    {"id": "m19c", "prop": "C10", "expect": r"excl:announced:unknown-node",
     "edits": [(N + "service.rs", "                    if node.is_none() {\n                        debug!(target: \"service\", \"Ignoring announcement from unknown node {announcer} (t={timestamp})\");\n                        return Ok(None);\n                    }", "                    if node.is_none() {\n                        debug!(target: \"service\", \"Ignoring announcement from unknown node {announcer} (t={timestamp})\");\n                    }")]},
    {"id": "m20", "prop": "C10", "expect": r"sql:B1:announcements",
     "edits": [(N + "service/gossip/store.rs", "WHERE timestamp < ?6", "WHERE timestamp <= ?6")]},
    {"id": "m21a", "prop": "C10", "expect": r"req:relay:not-announcer",
     "edits": [(N + "service.rs", "            .filter(|(id, _)| **id != announcer)\n", "")]},
    {"id": "m21b", "prop": "C10", "expect": r"req:relay:not-relayers",
     "edits": [(N + "service.rs", ".map(|relayers| !relayers.contains(id))", ".map(|relayers| relayers.contains(id))")]},
    {"id": "m21c", "prop": "C10", "expect": r"table:Announcement::verify",
     "edits": [(N + "service/message.rs", "self.node.verify(msg, &self.signature).is_ok()\n    }\n\n    pub fn matches", "self.node.verify(msg, &self.signature).is_ok() || self.message.is_node_announcement()\n    }\n\n    pub fn matches")]},
    {"id": "m21d", "prop": "C10", "expect": r"dom:relay:accepted",
     "edits": [(N + "service.rs", "if let Some(id) = self.handle_announcement(relayer, &relayer_addr, &ann)? {\n                    if self.config.is_relay() {", "if let Some(id) = self.handle_announcement(relayer, &relayer_addr, &ann)?.or(Some(0)) {\n                    if self.config.is_relay() {")]},
    # ---- C11
    {"id": "m22", "prop": "C11", "expect": r"send:.*announce_refs",
     "edits": [(N + "service.rs", "            peers.filter(|p| {\n                // Only announce to peers who are allowed to view this repo.\n                doc.is_visible_to(&p.id.into())\n            }),", "            peers.filter(|p| {\n                p.is_connected() || doc.is_public()\n            }),")]},
    {"id": "m23", "prop": "C11", "expect": r"dom:initialize:inventory-public",
     "edits": [(N + "service.rs", "            if repo.doc.is_public() {\n                inventory.insert(rid);\n            } else {\n                private.insert(rid);\n            }", "            inventory.insert(rid);\n            if !repo.doc.is_public() {\n                private.insert(rid);\n            }")]},
    {"id": "m22b", "prop": "C11", "expect": r"send:.*relay",
     "edits": [(N + "service.rs", "                        .map(|doc| doc.is_visible_to(&(*id).into()))\n                        .unwrap_or(false)", "                        .map(|doc| doc.is_visible_to(&(*id).into()))\n                        .unwrap_or(false) || true")]},
    {"id": "m22c", "prop": "C11", "expect": r"dom:add_inventory",
     "edits": [(N + "service.rs", "if clone && doc.is_public() {", "if clone {")]},
    # ---- C16
    {"id": "m30a", "prop": "C16", "expect": r"dom:fetch:capacity",
     "edits": [(N + "service.rs", "        if session.is_at_capacity() {\n            // If we're already fetching multiple repos from this peer.\n            return Err(TryFetchError::SessionCapacityReached);\n        }\n", "")]},
    {"id": "m30b", "prop": "C16", "expect": r"dom:queue_fetch:bound",
     "edits": [(N + "service/session.rs", "if self.queue.len() >= MAX_FETCH_QUEUE_SIZE {", "if self.queue.len() > MAX_FETCH_QUEUE_SIZE {")]},
    {"id": "m30c", "prop": "C16", "expect": r"table:is_at_capacity",
     "edits": [(N + "service/session.rs", "if fetching.len() >= self.limits.fetch_concurrency {", "if fetching.len() > self.limits.fetch_concurrency {")]},
    {"id": "m30d", "prop": "C16", "expect": r"table:disconnected:retain",
     "edits": [(N + "service.rs", "            if fetching.from != remote {\n                return true;\n            }\n            // Remove and fail", "            if fetching.from != remote || fetching.subscribers.is_empty() {\n                return true;\n            }\n            // Remove and fail")]},
    {"id": "m30e", "prop": "C16", "expect": r"who:Service.fetching",
     "edits": [(N + "service.rs", "    pub fn dequeue_fetches(&mut self) {\n", "    pub fn dequeue_fetches(&mut self) {\n        if self.fetching.len() > 1024 { self.fetching.clear(); }\n")]},
    # ---- C17
    {"id": "m31a", "prop": "C17", "expect": r"limit:bypass",
     "edits": [(N + "service/limiter.rs", "            if self.bypass.contains(nid) {\n                return false;\n            }", "            if self.bypass.contains(nid) && self.buckets.is_empty() {\n                return false;\n            }")]},
    {"id": "m31b", "prop": "C17", "expect": r"dom:take:spend|table:take",
     "edits": [(N + "service/limiter.rs", "if self.tokens >= 1.0 {", "if self.tokens >= 0.0 {")]},
    {"id": "m31c", "prop": "C17", "expect": r"flow:refill:capped",
     "edits": [(N + "service/limiter.rs", "self.tokens = (self.tokens + tokens).min(self.capacity);", "self.tokens = (self.tokens + tokens).min(self.capacity + tokens);")]},
    {"id": "m31d", "prop": "C17", "expect": r"limit:non-routable",
     "edits": [(N + "service/limiter.rs", "if !address::is_routable(&ip) {", "if address::is_routable(&ip) {")]},
    # ---- C24
    {"id": "m35a", "prop": "C24", "expect": r"sql:B2:refs",
     "edits": [(R + "node/refs/store.rs", "AND oid <> ?4", "")]},
    {"id": "m35b", "prop": "C24", "expect": r"sql:B4:prune",
     "edits": [(R + "node/routing.rs", "WHERE node <> ?1 AND rowid IN", "WHERE rowid IN")]},
    {"id": "m35c", "prop": "C24", "expect": r"sql:B1:routing",
     "edits": [(R + "node/routing.rs", "WHERE timestamp < ?3", "WHERE timestamp <= ?3")]},
    {"id": "m35d", "prop": "C24", "expect": r"sql:B3:repo-sync-status",
     "edits": [(R + "node/seed/store.rs", "stmt.bind((4, &timestamp))?;", "stmt.bind((4, &Timestamp::MAX))?;")]},
    # ---- C07
    {"id": "m12", "prop": "C07", "expect": r"table:Issue:Assign",
     "edits": [(R + "cob/issue.rs", "                    // No-op is allowed for backwards compatibility.\n                    Authorization::Allow\n                } else {\n                    Authorization::Deny\n                }\n            }\n            // Issue authors can edit", "                    // No-op is allowed for backwards compatibility.\n                    Authorization::Allow\n                } else {\n                    Authorization::Allow\n                }\n            }\n            // Issue authors can edit")]},
    {"id": "m13", "prop": "C07", "expect": r"op_action",
     "edits": [(R + "cob/issue.rs", "            Authorization::Deny => Err(Error::NotAuthorized(author, action)),\n            Authorization::Unknown => Ok(()),\n        }\n    }\n\n    /// Apply a single action to the issue.", "            Authorization::Deny => self.action(action, id, author, timestamp, concurrent, doc, repo),\n            Authorization::Unknown => Ok(()),\n        }\n    }\n\n    /// Apply a single action to the issue.")]},
    {"id": "m14", "prop": "C07", "expect": r"table:Patch:RevisionEdit|table:Patch:RevisionRedact",
     "edits": [(R + "cob/patch.rs", "                if let Some(revision) = lookup::revision(self, revision)? {\n                    Authorization::from(actor == revision.author.public_key())", "                if let Some(revision) = lookup::revision(self, revision)? {\n                    Authorization::from(actor != revision.author.public_key())")]},
    {"id": "m14b", "prop": "C07", "expect": r"table:Patch:ReviewCommentResolve",
     "edits": [(R + "cob/patch.rs", "                            actor == &comment.author()\n                                || actor == review.author.public_key()\n                                || actor == revision.author.public_key(),", "                            actor == &comment.author()\n                                || actor == review.author.public_key()\n                                || actor == revision.author.public_key()\n                                || actor == author,")]},
    {"id": "m14c", "prop": "C07", "expect": r"table:Issue:Edit",
     "edits": [(R + "cob/issue.rs", "Action::Edit { .. } => Authorization::from(*actor == author),", "Action::Edit { .. } => Authorization::Allow,")]},
    {"id": "m14d", "prop": "C07", "expect": r"table:Patch:ReviewEdit",
     "edits": [(R + "cob/patch.rs", "                if let Some((_, review)) = lookup::review(self, review)? {\n                    Authorization::from(actor == review.author.public_key())", "                if let Some((revision, _)) = lookup::review(self, review)? {\n                    Authorization::from(actor == revision.author.public_key())")]},
    # ---- C08
    {"id": "m15", "prop": "C08", "expect": r"flow:merged:threshold",
     "edits": [(R + "cob/patch.rs", "merges.retain(|_, count| *count >= identity.threshold());", "merges.retain(|_, count| *count >= 1);")]},
    {"id": "m16", "prop": "C08", "expect": r"table:lifecycle:valid",
     "edits": [(R + "cob/patch.rs", "                    || self.state == State::Archived\n", "                    || self.state == State::Archived\n                    || matches!(self.state, State::Merged { .. })\n")]},
    {"id": "m16b", "prop": "C08", "expect": r"dom:merge:ancestry",
     "edits": [(R + "cob/patch.rs", "                        if commit != head && !repo.is_ancestor_of(commit, head)? {\n                            return Ok(());\n                        }", "                        if commit != head && !repo.is_ancestor_of(commit, head)? {\n                            log::debug!(target: \"patch\", \"merge commit is not on the default branch\");\n                        }")]},
    {"id": "m16c", "prop": "C08", "expect": r"flow:merge:own-branch",
     "edits": [(R + "cob/patch.rs", "let Ok(head) = repo.reference_oid(&author, &branch) else {", "let Ok(head) = repo.reference_oid(self.author().id().as_key(), &branch) else {")]},
    {"id": "m16d", "prop": "C08", "expect": r"flow:merged:group-key",
     "edits": [(R + "cob/patch.rs", "*acc.entry((merge.revision, merge.commit)).or_default() += 1;", "*acc.entry((merge.revision, commit)).or_default() += 1;")]},
]


# ---- independent seeded changes kept under /verif/seeded/<id>/ are replayed like canned mutations
def _seeded():
    import glob
    import json
    import os
    base = os.path.join(os.path.dirname(os.path.dirname(os.path.abspath(__file__))), "seeded")
    out = []
    for mf in sorted(glob.glob(os.path.join(base, "*", "meta.json"))):
        try:
            meta = json.load(open(mf))
        except ValueError:
            continue
        d = os.path.dirname(mf)
        pf = os.path.join(d, "patch.diff")
        if os.path.exists(pf):
            out.append({"id": "seed-" + meta["id"], "prop": meta["property"], "expect": meta.get("expect", "."), "patch": pf})
    return out


MUTATIONS += _seeded()
