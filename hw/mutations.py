"""Canned single-site mutations (DESIGN Appendix C).  Each compiles, and the named
property check must report it (key matching `expect`)."""

N = "crates/radicle-node/src/"
R = "crates/radicle/src/"
F = "crates/radicle-fetch/src/"

MUTATIONS = [
    # ---- C29
    {"id": "m38a", "prop": "C29", "expect": r"order:timestamp",
     "edits": [(N + "service.rs", "if *now > *self.last_timestamp {", "if *now >= *self.last_timestamp {")]},
    {"id": "m38b", "prop": "C29", "expect": r"order:timestamp",
     "edits": [(N + "service.rs", "self.last_timestamp = self.last_timestamp + 1;", "self.last_timestamp = self.last_timestamp + 0;")]},
    {"id": "m38c", "prop": "C29", "expect": r"flow:.*refs_announcement_for",
     "edits": [(N + "service.rs", "let timestamp = self.timestamp();\n        let mut refs = BoundedVec", "let timestamp: Timestamp = self.clock.into();\n        let mut refs = BoundedVec")]},
    {"id": "m38d", "prop": "C29", "expect": r"who:last_timestamp",
     "edits": [(N + "service.rs", "        let inventory = self.inventory()?;\n\n        self.inventory = gossip::inventory(time, inventory);", "        let inventory = self.inventory()?;\n        self.last_timestamp = time;\n        self.inventory = gossip::inventory(time, inventory);")]},
]
