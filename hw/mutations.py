"""Canned single-site mutations (DESIGN Appendix C).  Each compiles, and the named
property check must report it (key matching `expect`)."""

N = "crates/radicle-node/src/"
R = "crates/radicle/src/"
F = "crates/radicle-fetch/src/"

MUTATIONS = [
    # ---- C29
    {"id": "m38a", "prop": "C29", "expect": r"order:timestamp",
     "edits": [(N + "service.rs", "if *now > *self.last_timestamp {", "if *now >= *self.last_timestamp {")]},
    {"id": "m38b", "prop": "C29", "expect": r"order:timestamp",
     "edits": [(N + "service.rs", "self.last_timestamp = self.last_timestamp + 1;", "self.last_timestamp = self.last_timestamp + 0;")]},
    {"id": "m38c", "prop": "C29", "expect": r"flow:.*refs_announcement_for",
     "edits": [(N + "service.rs", "let timestamp = self.timestamp();\n        let mut refs = BoundedVec", "let timestamp: Timestamp = self.clock.into();\n        let mut refs = BoundedVec")]},
    {"id": "m38d", "prop": "C29", "expect": r"who:last_timestamp",
     "edits": [(N + "service.rs", "        let inventory = self.inventory()?;\n\n        self.inventory = gossip::inventory(time, inventory);", "        let inventory = self.inventory()?;\n        self.last_timestamp = time;\n        self.inventory = gossip::inventory(time, inventory);")]},
    # ---- C19
    {"id": "m33a", "prop": "C19", "expect": r"who:Doc",
     "edits": [(R + "identity/doc.rs", '#[serde(try_from = "RawDoc")]\npub struct Doc {', 'pub struct Doc {')]},
    {"id": "m33b", "prop": "C19", "expect": r"dom:Threshold::new",
     "edits": [(R + "identity/doc.rs", "} else if t > delegates.len() {", "} else if t > delegates.len() + 1 {")]},
    {"id": "m33c", "prop": "C19", "expect": r"dom:Delegates::new:len",
     "edits": [(R + "identity/doc.rs", "if dids.len() >= MAX_DELEGATES {", "if dids.len() > MAX_DELEGATES {")]},
    {"id": "m33d", "prop": "C19", "expect": r"dom:Version::new",
     "edits": [(R + "identity/doc.rs", "Some(n) if n > IDENTITY_VERSION.into() =>", "Some(n) if n > IDENTITY_VERSION.into() && n.get() % 2 == 7 =>")]},
    {"id": "m33f", "prop": "C19", "expect": r"who:Delegates",
     "edits": [(R + "identity/doc.rs", "    /// Get the first delegate in the set.\n", "    pub fn unchecked(d: Vec<Did>) -> Option<Self> { NonEmpty::from_vec(d).map(Delegates) }\n    /// Get the first delegate in the set.\n")]},
    # ---- C20
    {"id": "m34a", "prop": "C20", "expect": r"dom:verified|who:SignedRefs",
     "edits": [(R + "storage/refs.rs", "            Err(e) => Err(e),\n        }\n    }\n\n    pub fn verify<R: ReadRepository>", "            Err(_) => Ok(SignedRefs { refs: self.refs, signature: self.signature, id: self.id, _verified: PhantomData }),\n        }\n    }\n\n    pub fn verify<R: ReadRepository>")]},
    {"id": "m34b", "prop": "C20", "expect": r"flow:verify:message",
     "edits": [(R + "storage/refs.rs", "let canonical = self.refs.canonical();\n        let local = repo.id();", "let canonical = Refs::from(BTreeMap::new()).canonical();\n        let local = repo.id();")]},
    {"id": "m34c", "prop": "C20", "expect": r"excl:verify:identity-mismatch",
     "edits": [(R + "storage/refs.rs", "if remote != local {", "if remote != local && self.refs.len() > 100000 {")]},
]
