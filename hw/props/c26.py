"""C26 — terminal truncation stays within width and never panics (partial).

Decided: (PANIC) the truncation functions of radicle-term (Cell impls and
Line::truncate) contain no unreviewed panic source; (BOUNDARY) every `str` slice in
them uses only byte offsets of class B (0, len(), sums of grapheme/char lengths) as
range bounds — an offset of the form `B + constant` may fall inside a multi-byte
character and is reported.  Not decided: the display-width bound and loop
termination."""
import re

from .. import cfg, rules, flow, panic, boundary
from ..cfg import expr_operand, show, nshow, peel
from ..panic import Review

ENTRIES = [r"radicle_term::cell::Cell>::(truncate|width|pad)$", r"^radicle_term::element::Line::truncate$"]


def in_scope(fn):
    return fn["file"].startswith("crates/radicle-term/src/")


def guard_boundary(ctx, fn, bb):
    """A str range index is safe iff both bounds are boundary-class offsets."""
    cls = boundary.classify(fn)
    t = fn["blocks"][bb]["t"]
    r = peel(expr_operand(fn, t[2][1]))
    rng = fn["blocks"][bb]["t"][2][1]
    # the range aggregate's operands
    g = cfg.graph(fn)
    bad = []
    if rng[0] in ("c", "m"):
        ds = g.defs().get(rng[1][0], [])
        for d in ds:
            if d[0] == "stmt" and d[3][0] == "agg":
                for op in d[3][2]:
                    if op[0] == "k":
                        c = "B" if op[1].get("v") == "0" else "N"
                    else:
                        c = cls.get(op[1][0], "N")
                    if c != "B":
                        bad.append(cfg.fmt_op(fn, op))
    if bad:
        return False, "range bound %s is not a char-boundary-class offset (B + constant / arbitrary arithmetic): slicing may panic inside a multi-byte character" % bad
    return True, ""


SUM = ("`total` is the sum of the display widths of all items (Line::width), so it is at least the width of the last item; "
       "the outer subtraction sits in the else-branch of `total - last > width`")
TABLE = [
    (r"^<str as radicle_term::cell::Cell>::truncate$", r"index:index str\[", "SAFE", "decided per site by the BOUNDARY rule (keys boundary:*)", None),
    # exactly the three subtractions of today's Line::truncate; a further one gets ordinal #3 and is unreviewed
    (r"^radicle_term::element::Line::truncate$", r"^sub:SubWithOverflow#[0-2]$", "SAFE", SUM, None),
]


def run(ctx):
    ctx.explanation = (
        "Decides structurally: no unreviewed panic source in the truncation code of radicle-term reachable from "
        "Cell::{truncate,width,pad} and Line::truncate; str range bounds are char-boundary-class offsets (BOUNDARY). "
        "The width bound and termination of Line::truncate's loop are not decided.")
    ctx.not_decided = "output display width <= requested width; termination of the while loop in Line::truncate; arithmetic underflow in `total - ..` (overflow checks are off in release)"
    ctx.rule_text = "PANIC(entries, table) + BOUNDARY(str slice bounds)"
    review = Review(TABLE)
    panic.run_panic(ctx, ENTRIES, in_scope, review, "c26", floor_fns=15, floor_sources=2)
    # every str index in scope is classified, even if unreachable from the entries
    db = ctx.db
    n = 0
    for fn in db.all_fns():
        if fn["unit"] != "radicle_term.rlib" or not re.search(r"src/(cell|element)\.rs$", fn["file"]):
            continue
        for bb, rng in boundary.str_index_sinks(fn):
            n += 1
            ok, msg = guard_boundary(ctx, fn, bb)
            ctx.check("boundary:%s:bb-ord%d" % (fn["key"], sum(1 for b2, _ in boundary.str_index_sinks(fn) if b2 < bb)), ok,
                      "str slice uses boundary-class offsets%s" % ("" if ok else ": " + msg), rules.where(fn, bb), fn=fn)
    ctx.floor("boundary:sinks", n, 1, "str range-index sites in cell.rs/element.rs")
