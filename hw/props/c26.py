"""C26 — terminal truncation stays within width and never panics (partial).

Decided: (PANIC) the truncation functions of radicle-term (Cell impls and
Line::truncate) contain no unreviewed panic source; (BOUNDARY) every `str` slice in
them uses only byte offsets of class B (0, len(), sums of grapheme/char lengths) as
range bounds — an offset of the form `B + constant` may fall inside a multi-byte
character and is reported.  Not decided: the display-width bound and loop
termination."""
import re

from .. import cfg, rules, flow, panic, boundary
from ..cfg import expr_operand, show, nshow, peel, graph
from ..panic import Review

ENTRIES = [r"radicle_term::cell::Cell>::(truncate|width|pad)$", r"^radicle_term::element::Line::truncate$"]


def in_scope(fn):
    return fn["file"].startswith("crates/radicle-term/src/")


def guard_boundary(ctx, fn, bb):
    """A str range index is safe iff both bounds are boundary-class offsets."""
    cls = boundary.classify(fn)
    t = fn["blocks"][bb]["t"]
    r = peel(expr_operand(fn, t[2][1]))
    rng = fn["blocks"][bb]["t"][2][1]
    # the range aggregate's operands
    g = cfg.graph(fn)
    bad = []
    if rng[0] in ("c", "m"):
        ds = g.defs().get(rng[1][0], [])
        for d in ds:
            if d[0] == "stmt" and d[3][0] == "agg":
                for op in d[3][2]:
                    if op[0] == "k":
                        c = "B" if op[1].get("v") == "0" else "N"
                    else:
                        c = cls.get(op[1][0], "N")
                    if c != "B":
                        bad.append(cfg.fmt_op(fn, op))
    if bad:
        return False, "range bound %s is not a char-boundary-class offset (B + constant / arbitrary arithmetic): slicing may panic inside a multi-byte character" % bad
    return True, ""


SUM = ("`total` is the sum of the display widths of all items (Line::width), so it is at least the width of the last item; "
       "the outer subtraction sits in the else-branch of `total - last > width`")
TABLE = [
    (r"^<str as radicle_term::cell::Cell>::truncate$", r"index:index str\[", "SAFE", "decided per site by the BOUNDARY rule (keys boundary:*)", None),
    # exactly the three subtractions of today's Line::truncate; a further one gets ordinal #3 and is unreviewed
    (r"^radicle_term::element::Line::truncate$", r"^sub:SubWithOverflow#[0-2]$", "SAFE", SUM, None),
]


def run(ctx):
    _run(ctx)
    tabs_before_truncate(ctx)


def _run(ctx):
    ctx.explanation = (
        "Decides structurally: column budgets are measured with the display-width function only; no unreviewed panic source in the truncation code of radicle-term reachable from "
        "Cell::{truncate,width,pad} and Line::truncate; str range bounds are char-boundary-class offsets (BOUNDARY). "
        "The width bound and termination of Line::truncate's loop are not decided.")
    ctx.not_decided = "output display width <= requested width; termination of the while loop in Line::truncate; arithmetic underflow in `total - ..` (overflow checks are off in release)"
    ctx.rule_text = "PANIC(entries, table) + BOUNDARY(str slice bounds)"
    review = Review(TABLE)
    panic.run_panic(ctx, ENTRIES, in_scope, review, "c26", floor_fns=15, floor_sources=2)
    # every str index in scope is classified, even if unreachable from the entries
    db = ctx.db
    n = 0
    for fn in db.all_fns():
        if fn["unit"] != "radicle_term.rlib" or not re.search(r"src/(cell|element)\.rs$", fn["file"]):
            continue
        for bb, rng in boundary.str_index_sinks(fn):
            n += 1
            ok, msg = guard_boundary(ctx, fn, bb)
            ctx.check("boundary:%s:bb-ord%d" % (fn["key"], sum(1 for b2, _ in boundary.str_index_sinks(fn) if b2 < bb)), ok,
                      "str slice uses boundary-class offsets%s" % ("" if ok else ": " + msg), rules.where(fn, bb), fn=fn)
    ctx.floor("boundary:sinks", n, 1, "str range-index sites in cell.rs/element.rs")

    # MEASURE: whatever is compared with the requested width is measured with the display-width function
    # (the guard `width < Cell::width(self)`, the per-grapheme budget, the delimiter) — a second, different way of
    # measuring lets the budget disagree with the width that callers (Line::truncate's loop) re-check
    tr = db.one(r"^<str as radicle_term::cell::Cell>::truncate$")
    if tr is None:
        ctx.violated("anchor:str::truncate", "<str as Cell>::truncate not found")
    else:
        WIDTH = re.compile(r"cell::Cell>::width$|unicode::width$|unicode_width|UnicodeWidth")
        g = graph(tr)
        ncmp = 0
        problems = []

        def leaves(e, depth=0, seen=None):
            seen = seen if seen is not None else set()
            e = peel(e)
            if depth > 12:
                return [("deep", "")]
            if e[0] == "const":
                return [("const", e[1].get("v"))]
            if e[0] == "arg":
                return [("arg", e[1])]
            if e[0] == "call":
                n_ = e[1].get("n") or e[1].get("dn") or ""
                if WIDTH.search(n_):
                    return [("width", n_)]
                return [("call", cfg.short(n_))]
            if e[0] == "bin":
                return leaves(e[2], depth + 1, seen) + leaves(e[3], depth + 1, seen)
            if e[0] in ("field", "cast", "un"):
                return leaves(e[1] if e[0] == "field" else e[2], depth + 1, seen)
            if e[0] == "phi":
                if e[1] in seen:
                    return []
                seen.add(e[1])
                out = []
                for d in g.defs().get(e[1], []):
                    if d[0] == "stmt":
                        out += leaves(cfg.expr_rvalue(tr, d[3]), depth + 1, seen)
                    elif d[0] == "call":
                        t_ = d[2]
                        out += leaves(("call", t_[1], [], d[1]), depth + 1, seen)
                return out
            return [("other", cfg.show(e)[:40])]
        for b0, tb, lab, facts in cfg.all_edge_facts(db, tr):
            for f in facts:
                if f[0] != "cmp":
                    continue
                l, r = peel(f[2]), peel(f[3])
                other = None
                if l[0] == "arg" and l[1] == 2:
                    other = r
                elif r[0] == "arg" and r[1] == 2:
                    other = l
                if other is None:
                    continue
                ncmp += 1
                for kind, what in leaves(other):
                    if kind == "width" or (kind == "const" and what == "0"):
                        continue
                    problems.append("%s %s" % (kind, what))
        ctx.check("measure:str::truncate", ncmp >= 2 and not problems,
                  "every quantity compared with the requested width is a sum of display widths (Cell::width) — found %s"
                  % (sorted(set(problems)) or "only display widths"), rules.where(tr), fn=tr)


def tabs_before_truncate(ctx):
    """A tab has no computable display width (it is counted as one column), so `TextArea::lines` — the caller of the
    truncation — replaces tabs with the soft tab *before* it measures and truncates a line.  Replaced afterwards, every tab
    adds a column the width test never saw."""
    db = ctx.db
    fam = db.find(r"^radicle_term::textarea::TextArea::lines")
    if not fam:
        ctx.ob("flow:textarea:tabs-before-truncate", "inconclusive", "TextArea::lines not found", "")
        return
    root = [f for f in fam if "closure" not in f["key"]]
    trunc = [(f, bb, t) for f in fam for bb, t, c in db.calls(f) if re.search(r"Cell>?::truncate$", c.get("n") or "")]
    repl = [(f, bb, t) for f in fam for bb, t, c in db.calls(f) if (c.get("n") or "").endswith("str::replace") and nshow(cfg.peel(expr_operand(f, t[2][1]))) == "9"]
    if not trunc:
        ctx.ob("flow:textarea:tabs-before-truncate", "inconclusive", "no truncation in TextArea::lines any more", rules.where(root[0]) if root else "", fn=root[0] if root else None)
        return
    bad = []
    for f, bb, t in trunc:
        recv = nshow(expr_operand(f, t[2][0]))
        # the truncated string comes out of the tab-replacing map (closure) or of a replace() call
        from_map = "Map<" in recv or "str::replace(" in recv
        replaced_in_closure = any("closure" in rf["key"] for rf, _, _ in repl)
        if not (("str::replace(" in recv) or (from_map and replaced_in_closure)):
            bad.append("the line handed to truncate() has not had its tabs replaced")
    for f, bb, t in repl:
        arg = nshow(expr_operand(f, t[2][0]))
        if "truncate(" in arg:
            bad.append("tabs are replaced in the result of truncate()")
    ctx.check("flow:textarea:tabs-before-truncate", not bad and bool(repl),
              "tabs are replaced by the soft tab before a line is measured and truncated, never after%s" % ((": " + "; ".join(sorted(set(bad)))) if bad else ""),
              rules.where(trunc[0][0], trunc[0][1]), fn=trunc[0][0])
