"""C14 — frame decoding is memory-bounded and chunking-independent (partial).

Decided: (TAINT) no allocation size in the decode path derives from a wide
(u32/u64/usize/varint) length read from the wire unless a bound check dominates
the allocation; u8/u16-typed lengths are bounded by their type; (ERRFLOW) an error
produced while decoding from a local cursor over an already complete frame does
not flow unchanged (via `?`) to the caller, because the stream deserializer
classifies end-of-file errors as "incomplete"; (TABLE) deserialize_next returns
Ok(None) exactly when the decode error is end-of-file; input buffering is bounded; no wire decoder
reads with a primitive that accepts a short read (`read` returning Ok(0)) instead of an EOF error.
Not decided: equality of outputs across split points."""
import re

from .. import cfg, rules, flow
from ..cfg import expr_operand, show, nshow, walk, peel, peel_calls, base_value, graph

SCOPE = re.compile(r"radicle-node/src/(wire\.rs|wire/|deserializer\.rs|bounded\.rs|worker/upload_pack\.rs)")
SINK = re.compile(r"^alloc::vec::from_elem$|^alloc::vec::Vec::(with_capacity|reserve|reserve_exact|resize)$|"
                  r"^alloc::string::String::(with_capacity|reserve)$|^radicle_node::bounded::BoundedVec::with_capacity$|"
                  r"^alloc::collections::.*::(with_capacity|reserve)$")
WIDE_SRC = re.compile(r"ReadBytesExt::read_(u32|u64|u128|i32|i64|uint)$|^<(u32|u64|usize|u128) as radicle_node::wire::Decode>::decode$|"
                      r"varint::VarInt as radicle_node::wire::Decode>::decode$|from_str_radix$|^<radicle_node::wire::varint::VarInt")
NARROW_SRC = re.compile(r"ReadBytesExt::read_(u8|u16)$|^<(u8|u16) as radicle_node::wire::Decode>::decode$")


def size_arg(t):
    n = t[1].get("n") or ""
    if n.endswith("from_elem"):
        return t[2][1]
    if n.endswith("::with_capacity"):
        return t[2][0]
    return t[2][1] if len(t[2]) > 1 else t[2][0]


def run(ctx):
    _run(ctx)
    from . import c15
    c15.short_reads(ctx, "eof")


def _run(ctx):
    db = ctx.db
    ctx.explanation = (
        "Decides structurally: every allocation-size sink in the decode path is constant, type-bounded (u8/u16 length) or "
        "dominated by a bound check on the wire-declared length (TAINT); decoding from a local cursor over a complete frame "
        "does not propagate its error unchanged (ERRFLOW); the EOF-means-incomplete table of Deserializer::deserialize_next; "
        "Deserializer input is a BoundedVec. Split-point independence of outputs is not decided.")
    ctx.not_decided = "equality of decoded frames across arbitrary chunk boundaries"
    ctx.rule_text = "TAINT(wire-declared lengths -> allocation sizes) + ERRFLOW(inner cursor) + TABLE(deserialize_next)"
    fns = [f for f in db.all_fns() if f["unit"] == "radicle_node.rlib" and SCOPE.search(f["file"])]
    n = 0
    for fn in fns:
        for bb, t, c in db.calls(fn):
            nme = c.get("n") or ""
            if not SINK.search(nme):
                continue
            n += 1
            arg = size_arg(t)
            e = expr_operand(fn, arg)
            key = "taint:%s:%s" % (fn["key"], cfg.short(nme))
            srcs = [x for x in walk(e) if x[0] == "call" and WIDE_SRC.search(x[1].get("n") or "")]
            narrow = [x for x in walk(e) if x[0] == "call" and NARROW_SRC.search(x[1].get("n") or "")]
            pe = peel(e)
            if pe[0] == "const":
                ctx.held(key, "allocation size is a constant", rules.where(fn, bb), fn=fn)
                continue
            if not srcs and narrow:
                ctx.held(key, "allocation size derives from a u8/u16 length (bounded by its type): %s" % show(pe)[:100], rules.where(fn, bb), fn=fn)
                ctx.sample({"sink": rules.where(fn, bb), "size": show(pe)[:120], "verdict": "type-bounded"})
                continue
            if not srcs and pe[0] == "arg":
                # parameter: every caller must pass a bounded value
                ok = True
                why = []
                for cf, cb, ct in flow.call_sites_of(db, fn):
                    ae = peel(expr_operand(cf, ct[2][pe[1] - 1]))
                    s2 = [x for x in walk(ae) if x[0] == "call" and WIDE_SRC.search(x[1].get("n") or "")]
                    if s2 and not _sanitised(db, cf, cb, s2):
                        ok = False
                        why.append(rules.where(cf, cb))
                ctx.check(key, ok, "allocation size is a parameter; every caller passes a constant, type-bounded or checked value", rules.where(fn, bb),
                          detail=why, fn=fn)
                continue
            if srcs:
                ok = _sanitised(db, fn, bb, srcs)
                ctx.check(key, ok,
                          "allocation size derives from a wire-declared wide length (%s) and %s" % (
                              cfg.short(srcs[0][1].get("n")), "is bounded by a dominating check" if ok else "NO bound check dominates the allocation"),
                          rules.where(fn, bb), detail=show(pe)[:200], fn=fn)
                ctx.sample({"sink": rules.where(fn, bb), "size": show(pe)[:120], "verdict": "checked" if ok else "UNBOUNDED"})
                continue
            ctx.ob(key, "inconclusive", "allocation size of unmodelled provenance: %s" % show(pe)[:120], rules.where(fn, bb), fn=fn)
    ctx.floor("taint:sinks", n, 3, "allocation sinks in the decode path")

    # ERRFLOW
    m = 0
    for fn in fns:
        for bb, t, c in db.calls(fn):
            if (c.get("dn") or "") != "radicle_node::wire::Decode::decode" or not t[2]:
                continue
            rootfn = db.root_of(fn)
            if not ((rootfn.get("impl") or {}).get("trait") == "radicle_node::wire::Decode"):
                continue      # only Decode impls feed the stream deserializer's EOF classification
            root = flow.root_place(fn, t[2][0])
            if root is None or root[0] <= fn["nargs"]:
                continue      # decoding from the caller's reader
            # local reader: a cursor/slice constructed in this function
            m += 1
            dest = t[3][0]
            direct = False
            for b2, t2, c2 in db.calls(fn):
                if c2.get("dn") == "core::ops::try_trait::Try::branch" and t2[2] and t2[2][0][0] in ("c", "m") and t2[2][0][1][0] == dest:
                    direct = True
            ctx.check("errflow:%s" % fn["key"], not direct,
                      "an error from decoding out of a local cursor over already received bytes is %s" % (
                          "propagated unchanged with `?`: an inner end-of-file is reported as *incomplete* by the stream deserializer" if direct
                          else "mapped before it is returned"),
                      rules.where(fn, bb), fn=fn)
    ctx.floor("errflow:sites", m, 1, "decode calls on a local cursor (Frame::decode gossip arm)")

    # TABLE deserialize_next
    dn = db.one(r"^radicle_node::deserializer::Deserializer::deserialize_next$")
    if dn is None:
        ctx.violated("anchor:deserialize_next", "Deserializer::deserialize_next not found")
    else:
        nones = [bb for bb, j, k, ops in rules.agg_sites(dn, r"^core::option::Option$", "None")]
        ok, a, bad = rules.dom_check(db, dn, nones, rules.is_bool(r"wire::Error::is_eof$", True))
        ctx.check("table:deserialize_next:none", bool(ok and a and nones), "Ok(None) (incomplete) only if the decode error is end-of-file",
                  rules.where(dn, nones[0] if nones else None), fn=dn)
        errs = [bb for bb, j, k, ops in rules.agg_sites(dn, r"^core::result::Result$", "Err")]
        ok, d, bad = rules.excl_check(db, dn, errs, rules.is_bool(r"wire::Error::is_eof$", True))
        ctx.check("table:deserialize_next:err", bool(ok and d and errs), "an end-of-file decode error is never reported as a hard error",
                  rules.where(dn), fn=dn)
        somes = [bb for bb, j, k, ops in rules.agg_sites(dn, r"^core::option::Option$", "Some")]
        ok, a, bad = rules.dom_check(db, dn, somes, rules.is_variant(r"wire::Decode::decode$", "Ok"))
        ctx.check("table:deserialize_next:some", bool(ok and a and somes), "a message is returned only if decoding succeeded", rules.where(dn), fn=dn)
        dr = rules.call_blocks(dn, r"BoundedVec::drain$")
        ok, a, bad = rules.dom_check(db, dn, dr, rules.is_variant(r"wire::Decode::decode$", "Ok"))
        ctx.check("table:deserialize_next:drain", bool(ok and a and dr), "consumed bytes are dropped only after a successful decode", rules.where(dn), fn=dn)
    # bounded input
    adt = db.adts.get("radicle_node::deserializer::Deserializer")
    fty = [f["ty"] for f in adt["variants"][0]["fields"] if f["n"] == "unparsed"] if adt else []
    ctx.check("type:Deserializer.unparsed", bool(fty) and fty[0].startswith("radicle_node::bounded::BoundedVec<u8"),
              "the receive buffer is a BoundedVec (bounded by its const capacity): %s" % fty, "%s:%s" % (adt["file"], adt["line"]) if adt else "")
    es = db.one(r"^radicle_node::bounded::BoundedVec::extend_from_slice$")
    if es is None:
        ctx.violated("anchor:extend_from_slice", "BoundedVec::extend_from_slice not found")
    else:
        ext = rules.call_blocks(es, r"Vec::extend_from_slice$")

        def fits(f):
            return f[0] == "cmp" and f[1] in ("Le", "Lt") and ("len" in nshow(f[2]))
        ok, a, bad = rules.dom_check(db, es, ext, fits)
        ctx.check("dom:BoundedVec::extend_from_slice", bool(ok and a and ext), "BoundedVec grows only while the new length stays within N",
                  rules.where(es, ext[0] if ext else None), fn=es)


def _sanitised(db, fn, bb, srcs):
    """A bound check on the tainted value dominates block bb."""
    src_blocks = {x[3] for x in srcs}

    def bound(f):
        if f[0] == "cmp" and f[1] in ("Le", "Lt"):
            lhs = [x for x in walk(f[2]) if x[0] == "call" and x[3] in src_blocks]
            rhs_tainted = [x for x in walk(f[3]) if x[0] == "call" and x[3] in src_blocks]
            return bool(lhs) and not rhs_tainted
        if f[0] == "cmp" and f[1] in ("Ge", "Gt"):
            rhs = [x for x in walk(f[3]) if x[0] == "call" and x[3] in src_blocks]
            lhs_t = [x for x in walk(f[2]) if x[0] == "call" and x[3] in src_blocks]
            return bool(rhs) and not lhs_t
        if f[0] == "cmp" and f[1] == "Eq":
            return any(x[0] == "call" and x[3] in src_blocks for x in walk(f[2])) != \
                any(x[0] == "call" and x[3] in src_blocks for x in walk(f[3]))
        if f[0] == "bool" and f[2] is True:
            e = peel(f[1])
            if e[0] == "call" and re.search(r"::contains$", e[1].get("n") or "") and len(e[2]) > 1:
                return any(x[0] == "call" and x[3] in src_blocks for x in walk(e[2][1]))
        return False
    ok, a, bad = rules.dom_check(db, fn, [bb], bound)
    return bool(ok and a)
