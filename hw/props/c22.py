"""C22 — CRDT merges are associative, commutative and idempotent (decided on extracted merge tables).

Every `Semilattice::merge` of radicle-crdt is turned into its *merge table*: the feasible MIR paths of the function, each
with its conditions on (self, other) — variant tests, `==`/`<`/`>` between components — and its effects on `*self`
(assignments, nested `merge`/`set` calls), all read off the MIR by hw/pathsum (nothing is executed).  The values of
these types are touched only through variant tests and comparisons, so a table is a finite function once the type
parameters are given small abstract carriers: a 3-element total order for clocks and compared payloads, 2 elements for
payloads that are only tested for equality, and already-interpreted lattices (Max over a small order) for parameters
bound by `Semilattice`.  The three laws are then checked on every triple of abstract values of: bool, (), Max, Min,
Option<Max>, Redactable, LWWReg<Max, clock>, LWWReg<Option<Max>, clock>, and — for the keyed
collections, after checking structurally that GMap::merge inserts every entry of `other` and GMap::insert merges an
occupied entry and inserts a vacant one (a point-wise lift), and that LWWMap / LWWSet / GSet only delegate — GMap,
LWWMap and LWWSet over two keys.  A law that fails is reported with the abstract counterexample.  Also decided on the
same tables: an LWW register keeps the value written with the greatest clock, and at equal clocks an insertion
(`Some`) wins over a removal (`None`); LWWMap::insert / remove write `Some(v)` / `None` under the given clock.
Not decided: Immutable<T> (its merge panics on unequal values; not among the CRDTs the property lists); the laws for
payload types outside these carriers (e.g. a `T: PartialOrd` that is not a total order), and
anything about clocks beyond their comparison."""
import itertools
import re

from .. import cfg, rules, pathsum
from ..cfg import nshow, peel

CR = "radicle_crdt::"
PURE = re.compile(r"cmp::(PartialEq|PartialOrd|Ord)|::(eq|ne|gt|lt|ge|le|partial_cmp|cmp)$")


class Unknown(Exception):
    pass


def _with(env, cur):
    e = dict(env)
    e[1] = cur
    return e


# ----------------------------------------------------------------------------------------------- values
def A(adt, var, *fields):
    return ("A", adt, var, tuple(fields))


def vshow(v):
    if isinstance(v, tuple) and v and v[0] == "A":
        if not v[3]:
            return v[2]
        return "%s(%s)" % (v[2], ", ".join(vshow(x) for x in v[3]))
    if isinstance(v, tuple) and v and v[0] == "M":
        return "{%s}" % ", ".join("%s: %s" % (k, vshow(x)) for k, x in v[1])
    if isinstance(v, tuple) and v and v[0] == "T":
        return "(%s)" % ", ".join(vshow(x) for x in v[1])
    return str(v)


def order_key(v):
    """Derived ordering of values (variant index unknown -> name; good enough: only single-variant ADTs are compared)."""
    if isinstance(v, tuple) and v and v[0] == "A":
        return (v[2],) + tuple(order_key(x) for x in v[3])
    return (v,)


class Interp:
    def __init__(self, db):
        self.db = db
        self.tables = {}
        self.notes = []

    # ---- tables
    def table(self, key):
        if key in self.tables:
            return self.tables[key]
        fn = self.db.one("^" + re.escape(key) + "$")
        if fn is None:
            raise Unknown("function %s not found" % key)
        ss = pathsum.summaries(self.db, fn, 512)
        if ss is None:
            raise Unknown("%s: too many paths" % cfg.short(key))
        rows = []
        for p, facts, ret in ss:
            rows.append((facts, pathsum.effects(self.db, fn, p), ret))
        self.tables[key] = (fn, rows)
        return self.tables[key]

    # ---- expressions
    def ev(self, e, env):
        e0 = e
        k = e[0]
        if k == "arg":
            if e[1] not in env:
                raise Unknown("argument %d" % e[1])
            return env[e[1]]
        if k in ("ref", "deref"):
            return self.ev(e[1], env)
        if k == "upd":
            base = self.ev(e[1], env)
            return self.with_field(base, e[3], self.ev(e[4], env))
        if k == "field":
            v = self.ev(e[1], env)
            if isinstance(v, tuple) and v and v[0] in ("A",):
                if e[3] < len(v[3]):
                    return v[3][e[3]]
            if isinstance(v, tuple) and v and v[0] == "T":
                return v[1][e[3]]
            raise Unknown("field %s of %s" % (e[2] or e[3], vshow(v)))
        if k == "down":
            v = self.ev(e[1], env)
            if isinstance(v, tuple) and v[0] == "A" and v[2] == e[2]:
                return v
            raise Unknown("downcast of %s to %s" % (vshow(v), e[2]))
        if k == "const":
            c = e[1]
            if "v" in c:
                if c.get("t") == "bool":
                    return bool(int(c["v"]))
                try:
                    return int(c["v"])
                except (TypeError, ValueError):
                    raise Unknown("constant %s" % c)
            if c.get("t") == "()":
                return A("()", "()")
            raise Unknown("constant %s" % c)
        if k == "agg":
            kind = e[1]
            fields = [self.ev(x, env) for x in e[2]]
            if isinstance(kind, dict) and kind.get("adt"):
                return A(kind["adt"].rsplit("::", 1)[-1], kind.get("var") or kind["adt"].rsplit("::", 1)[-1], *fields)
            if kind == "tuple":
                if not fields:
                    return A("()", "()")
                return ("T", tuple(fields))
            raise Unknown("aggregate %s" % (kind,))
        if k == "cast":
            return self.ev(e[2], env)
        if k == "un" and e[1] == "Not":
            return not self.ev(e[2], env)
        if k == "bin" and e[1] in ("Eq", "Ne", "Lt", "Le", "Gt", "Ge"):
            return self.cmp(e[1], self.ev(e[2], env), self.ev(e[3], env))
        if k == "call":
            return self.call_value(e, env)
        raise Unknown("expression %s" % nshow(e0)[:80])

    def cmp(self, op, a, b):
        ka, kb = order_key(a), order_key(b)
        return {"Eq": ka == kb, "Ne": ka != kb, "Lt": ka < kb, "Le": ka <= kb, "Gt": ka > kb, "Ge": ka >= kb}[op]

    def call_value(self, e, env):
        nm = e[1].get("n") or e[1].get("dn") or ""
        dn = e[1].get("dn") or ""
        args = e[2]
        m = re.search(r"(PartialEq|PartialOrd)::(eq|ne|gt|lt|ge|le)$", nm) or re.search(r"(PartialEq|PartialOrd)::(eq|ne|gt|lt|ge|le)$", dn)
        if m and len(args) == 2:
            op = {"eq": "Eq", "ne": "Ne", "gt": "Gt", "lt": "Lt", "ge": "Ge", "le": "Le"}[m.group(2)]
            return self.cmp(op, self.ev(args[0], env), self.ev(args[1], env))
        if nm.startswith("<T as core::convert::Into<U>>::into") or dn == "core::convert::Into::into" and not nm.startswith("<" + CR):
            return self.ev(args[0], env)
        if nm.startswith(CR) or nm.startswith("<" + CR):
            # a small workspace function without effects: evaluate its returned expression
            fn, rows = self.table(nm)
            env2 = dict((i + 1, self.ev(a, env)) for i, a in enumerate(args))
            for facts, effs, ret in rows:
                if self.holds(facts, env2):
                    if any(x[0] == "assign" for x in effs):
                        raise Unknown("%s has effects" % cfg.short(nm))
                    if ret is None:
                        raise Unknown("%s returns nothing" % cfg.short(nm))
                    return self.ev(ret, env2)
            raise Unknown("no row of %s applies" % cfg.short(nm))
        raise Unknown("call of %s" % cfg.short(nm))

    # ---- conditions
    def holds(self, facts, env):
        for f in facts:
            if f[0] == "variant":
                v = self.ev(f[1], env)
                if not (isinstance(v, tuple) and v and v[0] == "A"):
                    raise Unknown("variant test on %s" % vshow(v))
                if (v[2] == f[3]) != bool(f[4]):
                    return False
            elif f[0] == "bool":
                v = self.ev(f[1], env)
                if bool(v) != bool(f[2]):
                    return False
            elif f[0] == "cmp":
                if not self.cmp(f[1], self.ev(f[2], env), self.ev(f[3], env)):
                    return False
        return True

    # ---- updates
    def with_field(self, v, idx, new):
        if isinstance(v, tuple) and v[0] == "A":
            fs = list(v[3])
            fs[idx] = new
            return ("A", v[1], v[2], tuple(fs))
        if isinstance(v, tuple) and v[0] == "T":
            fs = list(v[1])
            fs[idx] = new
            return ("T", tuple(fs))
        raise Unknown("field update of %s" % vshow(v))

    def assign(self, root, target, new, argn):
        """root value with the place `target` (rooted at argument argn) replaced by new."""
        t = target
        if t[0] in ("deref", "ref"):
            return self.assign(root, t[1], new, argn)
        if t[0] == "arg":
            if t[1] != argn:
                raise Unknown("write through argument %d" % t[1])
            return new
        if t[0] == "field":
            inner = self.get(root, t[1], argn)
            return self.assign(root, t[1], self.with_field(inner, t[3], new), argn)
        if t[0] == "down":
            return self.assign(root, t[1], new, argn)
        raise Unknown("assignment target %s" % nshow(target)[:60])

    def get(self, root, place, argn):
        return self.ev(place, {argn: root})

    # ---- running a table: returns the new value of *arg1
    def run(self, key, env):
        fn, rows = self.table(key)
        hit = [r for r in rows if self.holds(r[0], env)]
        if len(hit) != 1:
            # several MIR paths may differ only in drop flags; they must agree
            if not hit:
                raise Unknown("no row of %s applies to (%s)" % (cfg.short(key), ", ".join(vshow(env[k]) for k in sorted(env))))
        results = []
        for facts, effs, ret in hit:
            cur = env[1]
            for ef in effs:
                if ef[0] == "assign":
                    if pathsum._rooted_at_arg(ef[1]) != 1:
                        raise Unknown("write through argument other than self in %s" % cfg.short(key))
                    cur = self.assign(cur, ef[1], self.ev(ef[2], _with(env, cur)), 1)
                else:
                    nm = ef[1].get("n") or ef[1].get("dn") or ""
                    dn = ef[1].get("dn") or ""
                    if PURE.search(nm) or PURE.search(dn):
                        continue
                    tgt = ef[2][0]
                    if pathsum.peel_ref_mut(tgt) != 1 and pathsum._rooted_at_arg(tgt) != 1:
                        raise Unknown("call %s with a target not rooted at self" % cfg.short(nm))
                    sub = self.get(cur, tgt, 1)
                    rest = [self.ev(a, _with(env, cur)) for a in ef[2][1:]]
                    if nm.endswith("Semilattice::merge") or nm.endswith("Semilattice>::merge"):
                        new = self.merge(sub, rest[0])
                    elif nm in (CR + "lwwreg::LWWReg::set",):
                        new = self.run(nm, dict([(1, sub)] + [(i + 2, r) for i, r in enumerate(rest)]))
                    else:
                        raise Unknown("effectful call %s in %s" % (cfg.short(nm), cfg.short(key)))
                    cur = self.assign(cur, tgt, new, 1)
            results.append(cur)
        if any(r != results[0] for r in results):
            raise Unknown("rows of %s disagree" % cfg.short(key))
        return results[0]

    MERGE = {
        "bool": "<bool as radicle_crdt::Semilattice>::merge",
        "()": "<() as radicle_crdt::Semilattice>::merge",
        "Max": "<radicle_crdt::ord::Max<T> as radicle_crdt::Semilattice>::merge",
        "Min": "<radicle_crdt::ord::Min<T> as radicle_crdt::Semilattice>::merge",
        "Option": "<core::option::Option<T> as radicle_crdt::Semilattice>::merge",
        "Redactable": "<radicle_crdt::redactable::Redactable<T> as radicle_crdt::Semilattice>::merge",
        "LWWReg": "<radicle_crdt::lwwreg::LWWReg<T, C> as radicle_crdt::Semilattice>::merge",
    }

    def merge(self, a, b):
        if isinstance(a, bool):
            return self.run(self.MERGE["bool"], {1: a, 2: b})
        if isinstance(a, tuple) and a[0] == "M":
            # point-wise lift (structure checked separately): occupied -> merge, vacant -> insert
            d = dict(a[1])
            for k, v in b[1]:
                d[k] = self.merge(d[k], v) if k in d else v
            return ("M", tuple(sorted(d.items())))
        if isinstance(a, tuple) and a[0] == "A":
            key = self.MERGE.get(a[1])
            if key is None:
                raise Unknown("no merge known for %s" % a[1])
            return self.run(key, {1: a, 2: b})
        raise Unknown("merge of %s" % vshow(a))


# ----------------------------------------------------------------------------------------------- carriers
def Max(x):
    return A("Max", "Max", x)


def Min(x):
    return A("Min", "Min", x)


def Some(x):
    return A("Option", "Some", x)


NONE = A("Option", "None")
REDACTED = A("Redactable", "Redacted")


def Present(x):
    return A("Redactable", "Present", x)


def Reg(clock, value):
    return A("LWWReg", "LWWReg", Max(clock), value)


def carriers():
    o3 = [0, 1, 2]
    o2 = [0, 1]
    maxes = [Max(x) for x in o3]
    opt_max = [NONE] + [Some(Max(x)) for x in o2]
    regs = [Reg(c, Max(v)) for c in o3 for v in o2]
    regs_opt = [Reg(c, v) for c in o2 for v in opt_max]

    def maps(vals):
        out = []
        for a in [None] + vals:
            for b in [None] + vals:
                out.append(("M", tuple((k, v) for k, v in ((0, a), (1, b)) if v is not None)))
        return out
    return [
        ("bool", [False, True]),
        ("()", [A("()", "()")]),
        ("Max<order3>", maxes),
        ("Min<order3>", [Min(x) for x in o3]),
        ("Option<Max<order2>>", opt_max),
        ("Redactable<eq2>", [REDACTED] + [Present(x) for x in o2]),
        ("LWWReg<Max<order2>, clock3>", regs),
        ("LWWReg<Option<Max<order2>>, clock2>", regs_opt),
        ("GMap<key2, Max<order2>>", maps([Max(x) for x in o2])),
        ("LWWMap<key2, Max<order2>, clock2> (= GMap<key2, LWWReg<Option<..>>>)", maps([Reg(c, v) for c in o2 for v in [NONE, Some(Max(0)), Some(Max(1))]])),
        ("LWWSet<key2, clock2> (= GMap<key2, LWWReg<Option<()>>>)", maps([Reg(c, v) for c in o2 for v in [NONE, Some(A("()", "()"))]])),
    ]


def run(ctx):
    db = ctx.db
    ctx.explanation = (
        "Each Semilattice::merge of radicle-crdt is read off the MIR as a merge table (path conditions on self/other and the "
        "effects on *self, by hw/pathsum; nothing is executed).  The values are touched only through variant tests and "
        "comparisons, so over small abstract carriers (total orders of 2-3 elements, a 2-element equality domain, nested "
        "interpreted lattices, 2-key maps) the table is a finite function, and associativity, commutativity and idempotence are "
        "checked on all triples; a failing law is reported with its counterexample.  The keyed collections are reduced to the "
        "point-wise lift after a structural check of GMap::merge / GMap::insert and of the delegating wrappers.")
    ctx.not_decided = ("payload types outside the carriers (a T: PartialOrd that is not a total order, e.g. floats with NaN); clock arithmetic; "
                       "that the extracted tables are faithful beyond the constructs hw/pathsum models (reported as inconclusive when not)")
    ctx.rule_text = "MERGE-TABLE extraction (path summaries + effects through &mut self) + exhaustive law check over abstract carriers + structural delegation rules"
    it = Interp(db)
    impls = [f for f in db.all_fns() if f["crate"] == "radicle_crdt" and f["key"].endswith(" as radicle_crdt::Semilattice>::merge")]
    ctx.floor("impls", len(impls), 9, "Semilattice::merge implementations in radicle-crdt")
    known = set(Interp.MERGE.values()) | {
        "<radicle_crdt::gmap::GMap<K, V> as radicle_crdt::Semilattice>::merge",
        "<radicle_crdt::gset::GSet<K> as radicle_crdt::Semilattice>::merge",
        "<radicle_crdt::lwwmap::LWWMap<K, V, C> as radicle_crdt::Semilattice>::merge",
        "<radicle_crdt::lwwset::LWWSet<T, C> as radicle_crdt::Semilattice>::merge",
    }
    # Immutable<T>::merge panics on unequal values: it is not a total merge and is not one of the CRDTs the property lists
    known.add("<radicle_crdt::immutable::Immutable<T> as radicle_crdt::Semilattice>::merge")
    for f in impls:
        if f["key"] not in known:
            ctx.ob("impl:%s" % cfg.short(f["key"]), "inconclusive", "a Semilattice implementation this check has no carrier for", rules.where(f), fn=f)
    structure(ctx, it)
    for name, vals in carriers():
        laws(ctx, it, name, vals)
    lww(ctx, it)


def laws(ctx, it, name, vals):
    key = "laws:%s" % name.split(" ")[0]
    try:
        m = {}
        for a in vals:
            for b in vals:
                m[(a, b)] = it.merge(a, b)
        closed = set(vals)
        for a in vals:
            if m[(a, a)] != a:
                ctx.violated(key, "merge is not idempotent on %s: %s ⊔ %s = %s" % (name, vshow(a), vshow(a), vshow(m[(a, a)])), "")
                return
        for a, b in itertools.product(vals, repeat=2):
            if m[(a, b)] != m[(b, a)]:
                ctx.violated(key, "merge is not commutative on %s: %s ⊔ %s = %s but %s ⊔ %s = %s" % (
                    name, vshow(a), vshow(b), vshow(m[(a, b)]), vshow(b), vshow(a), vshow(m[(b, a)])), "")
                return
        for a, b, c in itertools.product(vals, repeat=3):
            ab, bc = m[(a, b)], m[(b, c)]
            l = m[(ab, c)] if (ab, c) in m else it.merge(ab, c)
            r = m[(a, bc)] if (a, bc) in m else it.merge(a, bc)
            if l != r:
                ctx.violated(key, "merge is not associative on %s: (%s ⊔ %s) ⊔ %s = %s but %s ⊔ (%s ⊔ %s) = %s" % (
                    name, vshow(a), vshow(b), vshow(c), vshow(l), vshow(a), vshow(b), vshow(c), vshow(r)), "")
                return
        ctx.ob(key, "held", "merge is idempotent, commutative and associative on %s (%d values, %d triples)" % (name, len(vals), len(vals) ** 3), "", sites=len(vals) ** 3)
    except Unknown as u:
        ctx.ob(key, "inconclusive", "the merge table of %s could not be interpreted: %s" % (name, u), "")


def lww(ctx, it):
    """greatest clock wins; at equal clocks Some beats None."""
    try:
        vals = [NONE, Some(Max(0)), Some(Max(1))]
        bad = None
        for c1, c2 in itertools.product([0, 1, 2], repeat=2):
            for v1, v2 in itertools.product(vals, repeat=2):
                r = it.merge(Reg(c1, v1), Reg(c2, v2))
                clock, value = r[3][0], r[3][1]
                if clock != Max(max(c1, c2)):
                    bad = "clock of %s ⊔ %s is %s" % (vshow(Reg(c1, v1)), vshow(Reg(c2, v2)), vshow(clock))
                if c1 > c2 and value != v1 or c2 > c1 and value != v2:
                    bad = "%s ⊔ %s keeps %s: not the value written with the greatest clock" % (vshow(Reg(c1, v1)), vshow(Reg(c2, v2)), vshow(value))
                if c1 == c2 and {v1[2], v2[2]} == {"Some", "None"} and value[2] != "Some":
                    bad = "at equal clocks %s ⊔ %s = %s: the removal wins over the insertion" % (vshow(Reg(c1, v1)), vshow(Reg(c2, v2)), vshow(value))
        if bad:
            ctx.violated("lww:greatest-clock", bad, "")
        else:
            ctx.ob("lww:greatest-clock", "held", "an LWW register keeps the value of the greatest clock; at equal clocks an insertion (Some) wins over a removal (None)", "", sites=81)
    except Unknown as u:
        ctx.ob("lww:greatest-clock", "inconclusive", "LWWReg table not interpreted: %s" % u, "")


def _calls(db, fn):
    return [(bb, t, (c.get("n") or c.get("dn") or "")) for bb, t, c in db.calls(fn)]


def structure(ctx, it):
    """GMap is the point-wise lift; LWWMap / LWWSet / GSet delegate; insert/remove write Some/None under the clock."""
    db = ctx.db

    def one(k):
        return db.one("^" + re.escape(k) + "$")
    # GMap::merge: a loop over `other` whose only effect is GMap::insert(self, k, v) on every iteration
    gm = one("<radicle_crdt::gmap::GMap<K, V> as radicle_crdt::Semilattice>::merge")
    gi = one("radicle_crdt::gmap::GMap::insert")
    if gm is None or gi is None:
        ctx.violated("anchor:gmap", "GMap::merge / GMap::insert not found (anchor missing)")
        return
    g = cfg.graph(gm)
    names = [n for _, _, n in _calls(db, gm)]
    ins = [bb for bb, t, n in _calls(db, gm) if n == "radicle_crdt::gmap::GMap::insert"]
    nxt = [bb for bb, t, n in _calls(db, gm) if re.search(r"Iterator>?::next$", n)]
    other_effects = [n for n in names if not re.search(r"IntoIterator>?::into_iter$|Iterator>?::next$|^radicle_crdt::gmap::GMap::insert$", n)]
    ok = len(ins) == 1 and len(nxt) == 1 and not other_effects
    if ok:
        t = gm["blocks"][ins[0]]["t"]
        recv = nshow(peel(cfg.expr_operand(gm, t[2][0])))
        item = nshow(cfg.expr_operand(gm, t[2][1])) + nshow(cfg.expr_operand(gm, t[2][2]))
        some = rules.edges_where(db, gm, lambda f: f[0] == "variant" and f[4] and f[3] == "Some" and "::next(" in nshow(f[1]))
        okp, nfeas, bad = rules.pass_check(db, gm, some, ins, nxt)
        src = ""
        for bb, t2, n in _calls(db, gm):
            if n.endswith("IntoIterator>::into_iter") and "GMap" in n:
                src = nshow(peel(cfg.expr_operand(gm, t2[2][0])))
        ok = recv == "arg1" and "next(" in item and okp and nfeas >= 1 and src == "arg2"
    ctx.check("struct:GMap::merge", ok, "GMap::merge inserts every entry of `other` into self (and does nothing else)", rules.where(gm), fn=gm)
    # GMap::insert: occupied -> merge(get_mut, value); vacant -> insert(value)
    rows = pathsum.summaries(db, gi) or []
    arms = {}
    for p, facts, ret in rows:
        var = [f[3] for f in facts if f[0] == "variant" and f[4] and "BTreeMap::entry(" in nshow(f[1])]
        if not var:
            continue
        calls = [(n, [nshow(peel(cfg.expr_operand(gi, a))) for a in gi["blocks"][bb]["t"][2]]) for bb, t, n in _calls(db, gi) if bb in p]
        arms[var[0]] = calls
    okk = False
    if set(arms) == {"Occupied", "Vacant"}:
        occ = [c for c in arms["Occupied"] if c[0].endswith("Semilattice::merge")]
        vac = [c for c in arms["Vacant"] if c[0].endswith("VacantEntry::insert")]
        ent = [c for c in arms["Occupied"] if c[0].endswith("BTreeMap::entry")]
        okk = (len(occ) == 1 and "get_mut" in occ[0][1][0] and occ[0][1][1] == "arg3" and len(vac) == 1 and vac[0][1][1] == "arg3"
               and not [c for c in arms["Vacant"] if c[0].endswith("Semilattice::merge")]
               and bool(ent) and ent[0][1][0] == "arg1.inner" and ent[0][1][1] == "arg2")
    ctx.check("struct:GMap::insert", okk, "GMap::insert merges the value into an occupied entry of that key and inserts it into a vacant one", rules.where(gi), fn=gi)
    # delegating wrappers
    for key, want, what in (
            ("<radicle_crdt::lwwmap::LWWMap<K, V, C> as radicle_crdt::Semilattice>::merge", r"GMap<K, V> as radicle_crdt::Semilattice>::merge$", "LWWMap::merge merges the inner GMap"),
            ("<radicle_crdt::lwwset::LWWSet<T, C> as radicle_crdt::Semilattice>::merge", r"LWWMap<K, V, C> as radicle_crdt::Semilattice>::merge$", "LWWSet::merge merges the inner LWWMap")):
        f = one(key)
        if f is None:
            ctx.violated("struct:%s" % cfg.short(key), "not found (anchor missing)")
            continue
        ok = False
        try:
            fn_, rows_ = it.table(key)
            ok = len(rows_) == 1 and not rows_[0][0]
            effs = [e for e in rows_[0][1] if e[0] == "call"] if ok else []
            ok = ok and len(effs) == 1 and re.search(want, effs[0][1].get("n") or "") is not None \
                and nshow(effs[0][2][0]) == "arg1.inner" and nshow(effs[0][2][1]) == "arg2.inner" and not [e for e in rows_[0][1] if e[0] == "assign"]
        except Unknown:
            ok = False
        ctx.check("struct:%s" % cfg.short(key), ok, what + " with the other side's inner value (and does nothing else)", rules.where(f), fn=f)
    # GSet::merge inserts every key
    gs = one("<radicle_crdt::gset::GSet<K> as radicle_crdt::Semilattice>::merge")
    if gs is not None:
        names = [n for _, _, n in _calls(db, gs)]
        ins = [bb for bb, t, n in _calls(db, gs) if n == "radicle_crdt::gset::GSet::insert"]
        nxt = [bb for bb, t, n in _calls(db, gs) if re.search(r"Iterator>?::next$", n)]
        other_effects = [n for n in names if not re.search(r"IntoIterator>?::into_iter$|Iterator>?::next$|^radicle_crdt::gset::GSet::insert$", n)]
        ok = len(ins) == 1 and len(nxt) == 1 and not other_effects
        if ok:
            some = rules.edges_where(db, gs, lambda f: f[0] == "variant" and f[4] and f[3] == "Some" and "::next(" in nshow(f[1]))
            okp, nfeas, bad = rules.pass_check(db, gs, some, ins, nxt)
            ok = okp and nfeas >= 1
        ctx.check("struct:GSet::merge", ok, "GSet::merge inserts every key of `other` (set union)", rules.where(gs), fn=gs)
    # LWWMap::insert / remove write Some(v) / None under the given clock
    for key, want in (("radicle_crdt::lwwmap::LWWMap::insert", r"^LWWReg::new\(Option::Some\{arg3\}, arg4\)$"),
                      ("radicle_crdt::lwwmap::LWWMap::remove", r"^LWWReg::new\(Option::None\{\}, arg3\)$")):
        f = one(key)
        if f is None:
            ctx.violated("struct:%s" % cfg.short(key), "not found (anchor missing)")
            continue
        ok = False
        try:
            fn_, rows_ = it.table(key)
            effs = [e for r in rows_ for e in r[1] if e[0] == "call"]
            ok = len(rows_) == 1 and len(effs) == 1 and (effs[0][1].get("n") or "") == "radicle_crdt::gmap::GMap::insert" \
                and nshow(effs[0][2][0]) == "arg1.inner" and nshow(effs[0][2][1]) == "arg2" and re.search(want, nshow(effs[0][2][2])) is not None
        except Unknown:
            ok = False
        ctx.check("struct:%s" % cfg.short(key), ok,
                  "%s stores %s under the given clock through GMap::insert" % (cfg.short(key), "Some(value)" if key.endswith("insert") else "None"), rules.where(f), fn=f)
    # LWWReg::new builds (Max(clock), value)
    try:
        v = it.ev(("call", {"n": "radicle_crdt::lwwreg::LWWReg::new"}, [("arg", 1), ("arg", 2)], 0), {1: Max(1), 2: 2})
        ctx.check("struct:LWWReg::new", v == Reg(2, Max(1)), "LWWReg::new(value, clock) builds the register (Max(clock), value)", "")
    except Unknown as u:
        ctx.ob("struct:LWWReg::new", "inconclusive", "LWWReg::new not interpreted: %s" % u, "")
