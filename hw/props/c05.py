"""C05 — collaborative object state is a function of the change set (partial).

Decided: (NONDET) no function reachable from COB loading/evaluation
(ChangeGraph::load/evaluate, every Evaluate::init/apply, the Dag traversal they
use) exposes hash-map/hash-set iteration order or reads ambient state (clocks,
environment, randomness), except iterators immediately consumed by an
order-insensitive reduction; (TYPE) the DAG and history containers are ordered
maps/sets; (REQ) the evaluation order comparator is total (timestamp, then the
unique entry id); (WORKLIST) the graph walks on the evaluation path (ChangeGraph::load,
Dag::ancestors_of/descendants_of) leave their loop only when the worklist is empty,
so no pending change is dropped.  Not decided: independence from tip enumeration order as a
behavioural fact."""
import re

from .. import cfg, rules, flow
from ..callgraph import callgraph
from ..cfg import expr_operand, show, nshow, peel, peel_calls, base_value, walk, graph

EV = "radicle_cob::object::collaboration::Evaluate"
ORDER_EXPOSING = re.compile(
    r"std::collections::hash::(map::HashMap|set::HashSet)::(iter|iter_mut|keys|values|values_mut|into_keys|into_values|drain|extract_if|into_iter)$|"
    r"^<&?(mut )?std::collections::hash::(map::HashMap|set::HashSet)<.*> as core::iter::traits::collect::IntoIterator>::into_iter$|"
    r"^<std::collections::hash::(map::HashMap|set::HashSet)<.*> as core::iter::traits::collect::IntoIterator>::into_iter$")
AMBIENT = re.compile(r"^std::time::(SystemTime|Instant)::now$|^localtime::LocalTime::now$|^std::env::(var|var_os|vars|args)$|^fastrand::|^rand::|"
                     r"^std::thread::current$|^std::process::id$|^chrono::.*::now$")
INSENSITIVE = re.compile(r"Iterator::(count|sum|product|all|any|max|min|max_by_key|min_by_key|max_by|min_by|for_each)$|::count$|::sum$|::all$|::any$")
ADAPTERS = re.compile(r"Iterator::(map|filter|filter_map|copied|cloned|flat_map|inspect|flatten|by_ref)$|IntoIterator::into_iter$")
SCOPE = re.compile(r"^crates/(radicle-cob|radicle-dag|radicle-crdt)/src/|^crates/radicle/src/cob/")


def consumer(db, fn, bb, depth=0):
    """Follow the value produced by the call at bb through iterator adapters to its consumer.
    -> ('ok', why) | ('bad', why)"""
    if depth > 8:
        return ("bad", "adapter chain too long")
    t = fn["blocks"][bb]["t"]
    dest = t[3][0]
    uses = []
    for b2, t2, c2 in db.calls(fn):
        if b2 == bb:
            continue
        for a in t2[2]:
            if a[0] in ("c", "m"):
                r = flow.root_place(fn, a)
                if r is not None and r[0] == dest:
                    uses.append((b2, t2, c2))
                    break
    if not uses:
        return ("bad", "iterator escapes (stored or returned)")
    res = None
    for b2, t2, c2 in uses:
        n = c2.get("n") or ""
        dn = c2.get("dn") or ""
        if INSENSITIVE.search(dn) or INSENSITIVE.search(n):
            r = ("ok", "consumed by %s" % cfg.short(dn or n))
        elif dn.endswith("Iterator::collect") or dn.endswith("FromIterator::from_iter") or dn.endswith("Iterator::unzip"):
            ga = " ".join(c2.get("ga", []))
            tgt = fn["locals"][t2[3][0]][0]
            if re.search(r"BTreeMap|BTreeSet|HashMap|HashSet", tgt) and not re.search(r"Vec<|VecDeque<", tgt.split("<", 1)[0]):
                r = ("ok", "collected into an order-insensitive container (%s)" % cfg.short(tgt.split("<")[0]))
            else:
                r = ("bad", "collected into %s" % tgt[:60])
        elif ADAPTERS.search(dn) or ADAPTERS.search(n):
            r = consumer(db, fn, b2, depth + 1)
        elif dn.endswith("Iterator::next") or dn.endswith("Iterator::find") or dn.endswith("Iterator::position") or dn.endswith("Iterator::last") \
                or dn.endswith("Iterator::fold") or dn.endswith("Iterator::nth"):
            r = ("bad", "order-sensitive consumption by %s" % cfg.short(dn))
        elif dn.endswith("Extend::extend"):
            tgt = fn["locals"][flow.root_place(fn, t2[2][0])[0]][0] if flow.root_place(fn, t2[2][0]) else ""
            r = ("ok", "extends an unordered/ordered set") if re.search(r"BTreeMap|BTreeSet|HashMap|HashSet", tgt) else ("bad", "extends %s" % tgt[:40])
        else:
            r = ("bad", "passed to %s" % cfg.short(n or dn))
        if r[0] == "bad":
            return r
        res = r
    return res


def run(ctx):
    db = ctx.db
    ctx.explanation = (
        "Decides structurally: graph walks on the evaluation path drain their worklists; the COB evaluation path (everything reachable from ChangeGraph::load/evaluate and every "
        "Evaluate::init/apply inside the cob/dag/crdt code) is free of hash-iteration-order exposure and ambient state; "
        "DAG/history containers are BTree-ordered; the chronological comparator falls back to the unique id. The behavioural "
        "independence from reference/tip enumeration order is not decided as such.")
    ctx.not_decided = "equality of evaluation results across permutations of tips (follows from these clauses plus graph reasoning not claimed here)"
    ctx.rule_text = "NONDET(roots) over the call graph + TYPE(ordered containers) + REQ(total comparator)"
    cg = callgraph(db)
    roots = db.find(r"^radicle_cob::change_graph::ChangeGraph::(load|evaluate)$")
    roots += [f for f in db.all_fns() if (f.get("impl") or {}).get("trait") == EV and f.get("assoc_name") in ("init", "apply")]
    ctx.floor("nondet:roots", len(roots), 10, "roots (load, evaluate, 6x init, 6x apply)")
    reach = cg.reachable_from(roots)
    fns = [cg.fn_by_uid[u] for u in reach if SCOPE.search(cg.fn_by_uid[u]["file"])]
    ctx.floor("nondet:scope", len(fns), 100, "functions of the cob/dag/crdt code reachable from the roots")
    n = 0
    for f in sorted(fns, key=lambda x: x["key"]):
        ords = {}
        for bb, t, c in db.calls(f):
            nme = c.get("n") or ""
            kind = None
            if ORDER_EXPOSING.search(nme) or ORDER_EXPOSING.search(c.get("r") or ""):
                kind = "hash-order"
            elif AMBIENT.search(nme):
                kind = "ambient"
            if not kind:
                continue
            if t[7] and ("log" in t[7] or "debug_assert" in t[7]):
                continue
            n += 1
            base = "%s:%s" % (kind, cfg.short(nme))
            o = ords.get(base, 0)
            ords[base] = o + 1
            key = "nondet:%s:%s#%d" % (f["key"], base, o)
            if kind == "ambient":
                ctx.violated(key, "ambient state read on the COB evaluation path (%s)" % cfg.short(nme), rules.where(f, bb), fn=f)
                continue
            verdict, why = consumer(db, f, bb)
            ctx.check(key, verdict == "ok", "hash iteration order %s: %s" % ("is not observable" if verdict == "ok" else "is exposed", why),
                      rules.where(f, bb), fn=f)
            ctx.sample({"site": rules.where(f, bb), "call": cfg.short(nme), "verdict": verdict, "why": why})
    ctx.sample({"functions_in_scope": len(fns), "order_or_ambient_sites": n})
    ctx.exhaustive = True

    # WORKLIST: graph walks on the evaluation path drain their worklist (leaving the loop with pending items drops part
    # of the change graph, and which part depends on the order the tips are enumerated in)
    nw = 0
    for f in sorted(fns, key=lambda x: x["key"]):
        for hb, w, body, bad in rules.worklists(db, f):
            nw += 1
            key = "worklist:%s:%s" % (f["key"], f["locals"][w][1] or ("_%d" % w))
            ctx.check(key, not bad, "the worklist `%s` is drained: the loop is left only when it is empty (or with an error); "
                      "an early exit drops the pending changes%s" % (f["locals"][w][1] or ("_%d" % w), "" if not bad else " — exit edge bb%d->bb%d" % bad[0]),
                      rules.where(f, bad[0][0] if bad else hb), fn=f)
    ctx.floor("worklist:loops", nw, 3, "worklist loops on the evaluation path (ChangeGraph::load, Dag::ancestors_of, Dag::descendants_of)")

    # TYPE
    def field_ty(adt, field):
        a = db.adts.get(adt)
        if not a:
            return None
        for v in a["variants"]:
            for f in v["fields"]:
                if f["n"] == field:
                    return f["ty"]
        return None
    for adt, field in (("radicle_dag::Dag", "graph"), ("radicle_dag::Dag", "tips"), ("radicle_dag::Dag", "roots"),
                       ("radicle_dag::Node", "dependencies"), ("radicle_dag::Node", "dependents")):
        ty = field_ty(adt, field)
        ctx.check("type:%s.%s" % (adt.rsplit("::", 1)[1], field), bool(ty) and ty.startswith("alloc::collections::btree::"),
                  "%s.%s is an ordered container (%s)" % (adt, field, ty))
    h = db.adts.get("radicle_cob::history::History")
    if h:
        for f in h["variants"][0]["fields"]:
            ctx.check("type:History.%s" % f["n"], "hash::" not in f["ty"], "History.%s has no hash-ordered container (%s)" % (f["n"], f["ty"][:80]))
    # REQ comparator
    ch = db.one(r"^radicle_cob::change_graph::ChangeGraph::chronological$")
    if ch is None:
        ctx.violated("anchor:chronological", "ChangeGraph::chronological not found")
    else:
        calls = [(c.get("n") or "", [nshow(peel_calls(expr_operand(ch, a))) for a in t[2]]) for bb, t, c in db.calls(ch)]
        ts = any(n_.endswith("::cmp") and all("timestamp" in a for a in args) for n_, args in calls)
        idc = any(n_.endswith("::cmp") and all(re.search(r"arg[12]\.0$", a) for a in args) for n_, args in calls)
        then = any(n_.endswith("Ordering::then") or n_.endswith("Ordering::then_with") for n_, _ in calls)
        ctx.check("req:chronological", ts and idc and then, "evaluation order compares timestamps and breaks ties by the (unique) entry id: total order",
                  rules.where(ch), detail=str(calls)[:300], fn=ch)
        ev = db.one(r"^radicle_cob::change_graph::ChangeGraph::evaluate$")
        used = ev is not None and any(o[0] == "k" and "chronological" in (o[1].get("fn") or "") for b in ev["blocks"] if b["t"][0] == "call" for o in b["t"][2])
        ctx.check("req:evaluate:order", used, "ChangeGraph::evaluate traverses with the chronological comparator", rules.where(ev) if ev else "", fn=ev)
