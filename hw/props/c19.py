"""C19 — identity documents are always valid and bound to the repository id
(validity clause, structural).

Decided: Doc / Delegates / Threshold / Version values can only be built by their
validating constructors (typestate: private fields + who-may-construct over every
aggregate and constructor-as-function use in the workspace, derive-generated
bodies and constants included); the validators reach their Ok exits only behind
the range checks; the repository id is derived from the canonical encoding,
so the canonical encoder's rules (C18) are obligations here too; `RawDoc::verified` passes every field
through unchanged (validation does not rewrite the document).
Not decided: decode(encode(d)) == d."""
import re

from .. import cfg, rules, flow
from ..cfg import graph, expr_operand, show, nshow, peel, peel_calls

DOC = "radicle::identity::doc::"

ALLOWED = {
    "Doc": [r"^radicle::identity::doc::RawDoc::verified$", r"^radicle::identity::doc::Doc::initial$",
            r"^<radicle::identity::doc::Doc as core::clone::Clone>::clone$"],
    "Delegates": [r"^radicle::identity::doc::Delegates::new$", r"^radicle::identity::doc::Doc::initial$",
                  r"^<radicle::identity::doc::Delegates as core::clone::Clone>::clone$"],
    "Threshold": [r"^radicle::identity::doc::Threshold::new$", r"^radicle::identity::doc::Threshold::MIN$",
                  r"^radicle::identity::doc::Doc::initial$",
                  r"^<radicle::identity::doc::Threshold as core::clone::Clone>::clone$"],
    "Version": [r"^radicle::identity::doc::Version::new$", r"^radicle::identity::doc::IDENTITY_VERSION$",
                r"^radicle::identity::doc::missing_version$",
                r"^<radicle::identity::doc::Version as core::clone::Clone>::clone$"],
}
FLOORS = {"Doc": 2, "Delegates": 2, "Threshold": 2, "Version": 2}


def const_is(e, values):
    e = peel(e)
    return e[0] == "const" and e[1].get("v") in values


def run(ctx):
    _run(ctx)
    # "a repository's id is the git blob hash of the canonical encoding of its initial document": the id depends on the
    # canonical encoder, so its rules (C18) are obligations of this property as well
    from . import c18
    saved = (ctx.explanation, ctx.not_decided, ctx.rule_text)
    c18.run(ctx)
    ctx.explanation, ctx.not_decided, ctx.rule_text = saved
    verified_passthrough(ctx)


def _run(ctx):
    db = ctx.db
    ctx.explanation = (
        "Decides the validity clause structurally: every construction site of Doc/Delegates/Threshold/Version "
        "in the whole workspace is one of the validating constructors (fields are module-private); "
        "RawDoc::verified builds a Doc only behind Delegates::new=Ok and Threshold::new=Ok; Threshold::new, "
        "Delegates::new and Version::new reach Ok only behind their range checks; RepoId derives from the "
        "canonical encoding's blob hash. Does not decide the encode/decode round trip.")
    ctx.not_decided = "decode(encode(d)) == d; serde attribute semantics beyond the generated bodies"
    ctx.rule_text = "TYPESTATE(private fields) + WHO(aggregate/ctor) + DOM(range checks) + FLOW(repo id)"

    # 1. typestate: private fields
    for name in ("Doc", "Delegates", "Threshold", "Version"):
        adt = db.adts.get(DOC + name)
        if not adt:
            ctx.violated("type:%s" % name, "ADT %s%s not found (anchor missing)" % (DOC, name))
            continue
        for v in adt["variants"]:
            for f in v["fields"]:
                ok = f["vis"] == "in:radicle::identity::doc"
                ctx.check("type:%s.%s" % (name, f["n"]), ok,
                          "field %s.%s is private to radicle::identity::doc (vis=%s)" % (name, f["n"], f["vis"]),
                          "%s:%s" % (adt["file"], adt["line"]))

    # 2. WHO may construct
    for name, allowed in ALLOWED.items():
        sites = []
        for fn in db.all_fns():
            for bb, j, k, ops in rules.agg_sites(fn, "^" + re.escape(DOC + name) + "$"):
                sites.append((fn, bb, j))
            for bb, kind, of in rules.ctor_fn_uses(fn, "^" + re.escape(DOC + name) + "$"):
                sites.append((fn, bb, None))
        rules.who(ctx, "who:%s" % name, "construction of %s" % name, sites, allowed)
        ctx.floor("who:%s" % name, len(sites), FLOORS[name], "construction sites of %s" % name)

    # 3. RawDoc::verified: Doc aggregate behind both validators
    ver = db.one(r"^radicle::identity::doc::RawDoc::verified$")
    if ver is None:
        ctx.violated("anchor:verified", "RawDoc::verified not found (anchor missing)")
    else:
        sites = [bb for bb, j, k, ops in rules.agg_sites(ver, "^" + re.escape(DOC) + "Doc$")]
        for label, pat in (("Delegates::new", r"^radicle::identity::doc::Delegates::new$"),
                           ("Threshold::new", r"^radicle::identity::doc::Threshold::new$")):
            ok, allow, bad = rules.dom_check(db, ver, sites, rules.is_variant(pat, "Ok"))
            ctx.check("dom:verified:%s" % label, ok and allow and sites,
                      "Doc is built in RawDoc::verified only after %s returned Ok" % label,
                      rules.where(ver, sites[0] if sites else None), detail={"path": list(bad.values())[:1]}, fn=ver)
        # the aggregate uses the validated values
        for bb, j, k, ops in rules.agg_sites(ver, "^" + re.escape(DOC) + "Doc$"):
            for fname, pat in (("delegates", r"Delegates::new$"), ("threshold", r"Threshold::new$")):
                e = expr_operand(ver, ops[k["fields"].index(fname)])
                ok = _from_ok_of(e, pat)
                ctx.check("flow:verified:%s" % fname, ok, "Doc.%s is the validated value returned by %s" % (fname, pat),
                          rules.where(ver, bb, j), detail=show(e), fn=ver)
        # Threshold::new is called with the *validated* delegates
        for bb in rules.call_blocks(ver, r"^radicle::identity::doc::Threshold::new$"):
            e = expr_operand(ver, ver["blocks"][bb]["t"][2][1])
            ctx.check("flow:verified:threshold-arg", _from_ok_of(e, r"Delegates::new$"),
                      "Threshold::new is checked against the validated delegate set", rules.where(ver, bb),
                      detail=show(e), fn=ver)

    # 3b. Threshold::new
    th = db.one(r"^radicle::identity::doc::Threshold::new$")
    if th is None:
        ctx.violated("anchor:Threshold::new", "Threshold::new not found (anchor missing)")
    else:
        sites = [bb for bb, kind, of in rules.ctor_fn_uses(th, r"doc::Threshold$")] + \
                [bb for bb, j, k, ops in rules.agg_sites(th, r"doc::Threshold$")]

        def le255(f):
            return f[0] == "cmp" and ((f[1] == "Le" and peel(f[2]) == ("arg", 1) and const_is(f[3], ("255",)))
                                      or (f[1] == "Lt" and peel(f[2]) == ("arg", 1) and const_is(f[3], ("256",))))

        def lelen(f):
            if f[0] != "cmp" or f[1] != "Le" or peel(f[2]) != ("arg", 1):
                return False
            e = peel(f[3])
            return cfg.callee_is(e, re.compile(r"doc::Delegates::len$")) and peel_calls(e[2][0]) == ("arg", 2)
        for label, pred in (("t<=255", le255), ("t<=delegates.len()", lelen)):
            ok, allow, bad = rules.dom_check(db, th, sites, pred)
            ctx.check("dom:Threshold::new:%s" % label, bool(ok and allow and sites),
                      "Threshold is constructed only on paths where %s" % label,
                      rules.where(th, sites[0] if sites else None), detail={"path": list(bad.values())[:1]}, fn=th)
        # non-zero: the constructor is applied to NonZero::new(t)
        okz = False
        for bb, kind, of in rules.ctor_fn_uses(th, r"doc::Threshold$"):
            t = th["blocks"][bb]["t"]
            if t[0] == "call" and t[1].get("dn") == "core::option::Option::map":
                e = peel(expr_operand(th, t[2][0]))
                okz = cfg.callee_is(e, re.compile(r"core::num::nonzero::NonZero::new$")) and peel(e[2][0]) == ("arg", 1)
        ctx.check("flow:Threshold::new:nonzero", okz, "Threshold wraps NonZero::new(t) (t >= 1)", rules.where(th), fn=th)
        # no other Ok exit
        oks = rules.agg_sites(th, r"^core::result::Result$", "Ok")
        ctx.check("excl:Threshold::new:other-ok", not oks, "Threshold::new has no other Ok construction", rules.where(th), fn=th)

    # 3c. Delegates::new: distinct, at most 255, non-empty — recognised by mechanism, not by shape
    dn = db.one(r"^radicle::identity::doc::Delegates::new$")
    if dn is None:
        ctx.violated("anchor:Delegates::new", "Delegates::new not found (anchor missing)")
    else:
        fam = [dn] + db.find(r"^radicle::identity::doc::Delegates::new::\{closure#\d+\}")

        def ltmax(f):
            if f[0] != "cmp":
                return False
            lenl = cfg.callee_is(peel(f[2]), re.compile(r"::len$"))
            lenr = cfg.callee_is(peel(f[3]), re.compile(r"::len$"))
            # len < 255 before the push (so at most 255 after it): `len < 255`, `len <= 254`, `255 > len`, `254 >= len`
            return (f[1] == "Lt" and lenl and const_is(f[3], ("255",))) or (f[1] == "Le" and lenl and const_is(f[3], ("254",))) or \
                (f[1] == "Gt" and lenr and const_is(f[2], ("255",))) or (f[1] == "Ge" and lenr and const_is(f[2], ("254",)))

        def lemax(f):
            if f[0] != "cmp":
                return False
            lenl = cfg.callee_is(peel(f[2]), re.compile(r"::len$"))
            lenr = cfg.callee_is(peel(f[3]), re.compile(r"::len$"))
            return (f[1] == "Le" and lenl and const_is(f[3], ("255",))) or (f[1] == "Lt" and lenl and const_is(f[3], ("256",))) or \
                (f[1] == "Ge" and lenr and const_is(f[2], ("255",))) or (f[1] == "Gt" and lenr and const_is(f[2], ("256",)))
        distinct = None      # (True/False, how)
        bounded = None
        npush = 0
        for c in fam:
            pushes = rules.call_blocks(c, r"^alloc::vec::Vec::push$")
            npush += len(pushes)
            if pushes:
                ok, allow, bad = rules.dom_check(db, c, pushes, rules.is_bool(r"^core::slice::contains$|::contains$", False))
                distinct = (bool(ok and allow), "a delegate is pushed only if not already contained")
                ok, allow, bad = rules.dom_check(db, c, pushes, ltmax)
                bounded = (bool(ok and allow), "a delegate is pushed only while len < MAX_DELEGATES (255)")
            for bb, t, c_ in db.calls(c):
                n_ = c_.get("n") or ""
                dn_ = c_.get("dn") or ""
                if dn_.endswith("Iterator::collect") or dn_.endswith("FromIterator::from_iter"):
                    tgt = c["locals"][t[3][0]][0]
                    if re.search(r"BTreeSet<|HashSet<|IndexSet<", tgt) and distinct is None:
                        distinct = (True, "delegates are collected into a set (%s)" % cfg.short(tgt.split("<")[0]))
                if re.search(r"Vec::dedup(_by|_by_key)?$", n_):
                    sorts = [b2 for b2, t2, c2 in db.calls(c) if re.search(r"::sort(_unstable)?(_by|_by_key)?$", c2.get("n") or "")]
                    gd = graph(c)
                    if sorts and any(gd.dominates(s_, bb) for s_ in sorts):
                        if distinct is None:
                            distinct = (True, "sorted, then adjacent duplicates removed")
                    else:
                        distinct = (False, "Vec::dedup only removes *adjacent* duplicates and the list is not sorted first: [A, B, A] keeps A twice")
        ctor = [bb for bb, kind, of in rules.ctor_fn_uses(dn, r"doc::Delegates$")] + [bb for bb, j, k, ops in rules.agg_sites(dn, r"doc::Delegates$")]
        if bounded is None or not bounded[0]:
            ok, allow, bad = rules.dom_check(db, dn, ctor, lemax)
            if ok and allow and ctor:
                bounded = (True, "Delegates is built only when len <= MAX_DELEGATES (255)")
        if distinct is None:
            ctx.ob("dom:Delegates::new:distinct", "inconclusive", "no recognised mechanism makes the delegates distinct (push behind !contains, set, sort+dedup)",
                   rules.where(dn), fn=dn)
        else:
            ctx.check("dom:Delegates::new:distinct", distinct[0], "delegates are distinct: %s" % distinct[1], rules.where(dn), fn=dn)
        if bounded is None:
            ctx.ob("dom:Delegates::new:len<255", "inconclusive", "no recognised bound on the number of delegates", rules.where(dn), fn=dn)
        else:
            ctx.check("dom:Delegates::new:len<255", bounded[0], bounded[1], rules.where(dn), fn=dn)
        okn = False
        for bb, kind, of in rules.ctor_fn_uses(dn, r"doc::Delegates$"):
            t = dn["blocks"][bb]["t"]
            if t[0] == "call" and t[1].get("dn") == "core::option::Option::map":
                e = peel(expr_operand(dn, t[2][0]))
                okn = cfg.callee_is(e, re.compile(r"^nonempty::NonEmpty::from_vec$"))
        ctx.check("flow:Delegates::new:nonempty", okn, "Delegates wraps NonEmpty::from_vec(..) (at least one delegate)",
                  rules.where(dn), fn=dn)

    # 3d. Version::new
    vn = db.one(r"^radicle::identity::doc::Version::new$")
    if vn is None:
        ctx.violated("anchor:Version::new", "Version::new not found (anchor missing)")
    else:
        sites = [bb for bb, j, k, ops in rules.agg_sites(vn, r"doc::Version$")]
        ok, allow, bad = rules.dom_check(db, vn, sites, rules.is_variant(r"^core::num::nonzero::NonZero::new$", "Some"))
        ctx.check("dom:Version::new:nonzero", bool(ok and allow and sites), "Version is built only from a non-zero number",
                  rules.where(vn, sites[0] if sites else None), fn=vn)

        def le_latest(f):
            if f[0] != "cmp" or f[1] not in ("Le", "Lt"):
                return False
            r = peel_calls(f[3])
            return r[0] == "const" and r[1].get("cn", "").endswith("IDENTITY_VERSION")
        ok, allow, bad = rules.dom_check(db, vn, sites, le_latest)
        ctx.check("dom:Version::new:<=latest", bool(ok and allow and sites), "Version is built only if n <= IDENTITY_VERSION",
                  rules.where(vn, sites[0] if sites else None), detail={"path": list(bad.values())[:1]}, fn=vn)
    # Deserialize / TryFrom for Version go through Version::new
    for pat, label in ((r"^<radicle::identity::doc::Version as serde::de::Deserialize<'de>>::deserialize", "Deserialize"),
                       (r"^<radicle::identity::doc::Version as core::convert::TryFrom<u32>>::try_from$", "TryFrom<u32>")):
        fs = db.find(pat)
        n = sum(len(rules.call_blocks(f, r"^radicle::identity::doc::Version::new$")) for f in fs)
        ctx.check("req:Version:%s" % label, n >= 1, "%s for Version validates through Version::new" % label,
                  rules.where(fs[0]) if fs else "", fn=fs[0] if fs else None)

    # 4. repository id = blob hash of the canonical encoding
    enc = db.one(r"^radicle::identity::doc::Doc::encode$")
    if enc is None:
        ctx.violated("anchor:Doc::encode", "Doc::encode not found (anchor missing)")
    else:
        wf = rules.call_blocks(enc, r"^serde_json::ser::Serializer::with_formatter$")
        ho = rules.call_blocks(enc, r"^git2::oid::Oid::hash_object$")
        ok = False
        detail = ""
        if len(wf) == 1 and len(ho) == 1:
            t1 = enc["blocks"][wf[0]]["t"]
            t2 = enc["blocks"][ho[0]]["t"]
            buf1 = flow.root_place(enc, t1[2][0])
            buf2 = flow.root_place(enc, t2[2][1])
            fm = peel(expr_operand(enc, t1[2][1]))
            canon = cfg.callee_is(fm, re.compile(r"^radicle::canonical::formatter::CanonicalFormatter::new$"))
            kind = peel(expr_operand(enc, t2[2][0]))
            blob = kind[0] == "agg" and isinstance(kind[1], dict) and kind[1].get("var") == "Blob"
            ok = buf1 is not None and buf1 == buf2 and canon and blob
            detail = "serializer buffer %s, hashed buffer %s, canonical formatter %s, blob %s" % (buf1, buf2, canon, blob)
            # serialize(self, serializer) sits between
            ser = [bb for bb, t, c in db.calls(enc) if (c.get("dn") or "").endswith("Serialize::serialize") or (c.get("n") or "").endswith("::serialize")]
            ok = ok and bool(ser)
            # returned oid derives from hash_object
            for bb, j, k, ops in rules.agg_sites(enc, r"^core::result::Result$", "Ok"):
                e = expr_operand(enc, ops[0])
                tup = peel(e)
                if tup[0] == "agg" and tup[1] == "tuple":
                    o = peel_calls(tup[2][0])
                    while o[0] in ("field", "down"):
                        o = peel_calls(o[1])
                    if o[0] == "call" and o[1].get("dn") == "core::ops::try_trait::Try::branch":
                        o = peel_calls(o[2][0])
                    ok = ok and cfg.callee_is(o, re.compile(r"hash_object$"))
        ctx.check("flow:Doc::encode", ok, "Doc::encode hashes (as a blob) exactly the buffer written by the canonical serializer",
                  rules.where(enc), detail=detail, fn=enc)
    init = db.one(r"^radicle::storage::git::Repository::init$")
    if init is None:
        ctx.violated("anchor:Repository::init", "Repository::init not found (anchor missing)")
    else:
        encs = rules.call_blocks(init, r"^radicle::identity::doc::Doc::encode$")
        okid = False
        for bb, t, c in db.calls(init):
            if c.get("dn") in ("core::convert::From::from", "core::convert::Into::into") and \
                    any("RepoId" in g for g in c.get("ga", [])):
                e = peel_calls(expr_operand(init, t[2][0]))
                s = show(e)
                if "Doc::encode" in s:
                    okid = True
        ctx.check("flow:Repository::init:id", bool(encs) and okid,
                  "Repository::init derives the RepoId from the oid returned by Doc::encode", rules.where(init), fn=init)


def _from_ok_of(e, pat):
    """e is the Ok payload (through `?`) of a call matching pat."""
    r = re.compile(pat)
    e = peel_calls(e)
    for _ in range(6):
        if e[0] in ("field", "down"):
            e = peel_calls(e[1])
            continue
        if e[0] == "call" and e[1].get("dn") == "core::ops::try_trait::Try::branch":
            e = peel_calls(e[2][0])
            continue
        break
    return cfg.callee_is(e, r)


def verified_passthrough(ctx, prefix="doc"):
    """`RawDoc::verified` validates, it does not rewrite: every field of the resulting `Doc` is the corresponding field of
    the raw document, moved as is, or the validated wrapper built from exactly that field (`Delegates::new(delegates)`,
    `Threshold::new(threshold, ..)`).  A field that is recomputed (a filtered allow list, a clamped threshold) makes the
    decoded document differ from the encoded one, and its canonical encoding — hence ids and signatures over it — changes."""
    from .. import pathsum
    db = ctx.db
    fn = db.one(r"^radicle::identity::doc::RawDoc::verified$")
    if fn is None:
        ctx.violated("%s:anchor:verified" % prefix, "RawDoc::verified not found (anchor missing)")
        return
    ss = pathsum.summaries(db, fn, 256)
    if not ss:
        ctx.ob("%s:flow:verified:passthrough" % prefix, "inconclusive", "RawDoc::verified is not a small loop-free function any more", rules.where(fn))
        return
    oks = 0
    bad = []
    for p, facts, ret in ss:
        e = peel(ret) if ret is not None else None
        if not (e is not None and e[0] == "agg" and isinstance(e[1], dict) and e[1].get("var") == "Ok" and e[2]):
            continue
        d = peel(e[2][0])
        if not (d[0] == "agg" and isinstance(d[1], dict) and d[1].get("adt", "").endswith("identity::doc::Doc")):
            bad.append("Ok value is not a Doc aggregate")
            continue
        oks += 1
        names = d[1].get("fields") or []
        for i, x in enumerate(d[2]):
            nm = names[i] if i < len(names) else str(i)
            s = nshow(x)
            if s == "arg1.%s" % nm:
                continue
            if nm == "delegates" and re.search(r"Delegates::new\(arg1\.delegates\)\) as Continue\.0$", s):
                continue
            if nm == "threshold" and re.search(r"Threshold::new\(arg1\.threshold, .*Delegates::new\(arg1\.delegates\)", s):
                continue
            bad.append("field `%s` is %s" % (nm, s[:120]))
    ctx.check("%s:flow:verified:passthrough" % prefix, oks >= 1 and not bad,
              "RawDoc::verified passes every field of the document through unchanged (or wraps exactly that field in its validated type)%s" % (
                  (": " + "; ".join(bad[:2])) if bad else ""), rules.where(fn), fn=fn)
