"""C10 — gossip is authenticated, fresh and never echoed back (partial).

Decided: in Service::handle_announcement the gossip store write (`announced`) is
dominated by a successful signature check, excluded for far-future timestamps, for
our own announcements and — for inventory/refs announcements — for unknown
announcers; Announcement::verify checks self.signature by self.node over the wire
encoding of self.message; relaying happens only behind handle_announcement=Ok(Some)
and relay() filters out recorded relayers and the announcer; the store upsert is
strictly-newer-only.  The relayer is recorded on every path that accepts or
recognises an announcement (needed for the never-echo clause). 
The relayer bookkeeping (`relayed_by`) only grows, at the named sites."""
import re

from .. import cfg, rules, flow, sql
from ..cfg import expr_operand, show, nshow, walk, peel, peel_calls, base_value, graph

HA = r"^radicle_node::service::Service::handle_announcement$"
ANN = r"gossip::store::Store::announced$"


def run(ctx):
    db = ctx.db
    ctx.explanation = (
        "Decides structurally: DOM/EXCL of the gossip store write in handle_announcement by signature, future-time, "
        "self and known-announcer checks; the argument provenance of Announcement::verify; relay only behind "
        "handle_announcement=Ok(Some); presence and wiring of the relayer/announcer filters on the peer iterator handed to "
        "Outbox::relay; strict `<` in the SQL upsert; the relayer is recorded for every stored-or-duplicate announcement. "
        "Does not decide the behaviour over arbitrary announcement sequences as a whole.")
    ctx.not_decided = "cross-event bookkeeping of relayed_by over many relayers and restarts; timing of gossip ticks"
    ctx.rule_text = "DOM + EXCL + FLOW + REQ(filter wiring) + SQL B1 + PAIR(relayer recorded)"
    ha = db.one(HA)
    if ha is None:
        ctx.violated("anchor:handle_announcement", "Service::handle_announcement not found (anchor missing)")
        return
    eff = rules.call_blocks(ha, ANN)
    ctx.floor("announced", len(eff), 1, "gossip store write in handle_announcement")
    # 1a signature
    ok, a, bad = rules.dom_check(db, ha, eff, rules.is_bool(r"^radicle_node::service::message::Announcement::verify$", True))
    ctx.check("dom:announced:verify", bool(ok and a and eff), "announcement stored only after Announcement::verify() == true",
              rules.where(ha, eff[0] if eff else None), detail={"path": list(bad.values())[:1]}, fn=ha)
    for bb in rules.call_blocks(ha, r"^radicle_node::service::message::Announcement::verify$"):
        e = peel(expr_operand(ha, ha["blocks"][bb]["t"][2][0]))
        ctx.check("flow:verify:self", e == ("arg", 4), "verify() is called on the received announcement", rules.where(ha, bb), detail=show(e), fn=ha)
    for bb in eff:
        t = ha["blocks"][bb]["t"]
        e = peel(expr_operand(ha, t[2][2]))
        ctx.check("flow:announced:ann", e == ("arg", 4), "the announcement stored is the verified one", rules.where(ha, bb), detail=show(e), fn=ha)
        n = nshow(peel_calls(expr_operand(ha, t[2][1])))
        ctx.check("flow:announced:node", n == "arg4.node", "it is stored under its announcer's id (%s)" % n, rules.where(ha, bb), fn=ha)

    # 1b future timestamps
    def future(f, op):
        if f[0] != "cmp" or f[1] != op:
            return False
        l, r = show(peel_calls(f[2])), show(f[3])
        return "saturating_sub" in l and "timestamp" in l and "clock" in l and "as_millis" in r
    ok, a, bad = rules.dom_check(db, ha, eff, lambda f: future(f, "Le"))
    ctx.check("dom:announced:not-future", bool(ok and a), "stored only if timestamp - now <= MAX_TIME_DELTA",
              rules.where(ha, eff[0] if eff else None), detail={"path": list(bad.values())[:1]}, fn=ha)
    mtd = db.consts.get("radicle_node::service::MAX_TIME_DELTA")
    okc = False
    for e_ in rules.edges_where(db, ha, lambda f: future(f, "Le")):
        for f in cfg.edge_facts(db, ha, *e_):
            if f[0] == "cmp":
                okc = okc or any(x[0] == "const" and x[1].get("cn", "").endswith("MAX_TIME_DELTA") for x in walk(f[3]))
    ctx.check("flow:announced:delta", okc, "the bound compared against is MAX_TIME_DELTA", rules.where(ha), fn=ha)
    md = db.by_key.get("radicle_node::service::MAX_TIME_DELTA", [])
    if md:
        # MAX_TIME_DELTA = LocalDuration::from_mins(60)
        vals = [peel(expr_operand(md[0], t[2][0])) for bb, t, c in db.calls(md[0]) if (c.get("n") or "").endswith("from_mins")]
        ctx.check("const:MAX_TIME_DELTA", any(v[0] == "const" and v[1].get("v") == "60" for v in vals),
                  "MAX_TIME_DELTA is 60 minutes", rules.where(md[0]), fn=md[0])
    else:
        ctx.violated("const:MAX_TIME_DELTA", "MAX_TIME_DELTA constant not found")

    # 1c own announcements
    def own(f, op):
        if f[0] != "cmp" or f[1] != op:
            return False
        s = show(peel_calls(f[2])) + "|" + show(peel_calls(f[3]))
        return "arg4.node" in s and "nid(" in s
    ok, d, bad = rules.excl_check(db, ha, eff, lambda f: own(f, "Eq"))
    ctx.check("excl:announced:own", bool(ok and d), "our own announcements are never stored from the network",
              rules.where(ha), detail={"path": list(bad.values())[:1]}, fn=ha)

    # 1d unknown announcers (inventory / refs)
    get = r"address::store::Store::get$|^radicle::node::address::Store::get$|::addresses"
    getb = [bb for bb, t, c in db.calls(ha) if re.search(r"::Store::get$", c.get("n") or "") and "addresses" in show(expr_operand(ha, t[2][0]))]
    ctx.floor("announced:known-node-lookup", len(getb), 1, "address-book lookup of the announcer")

    def unknown(f):
        if f[0] != "variant" or not f[4]:
            return False
        b = base_value(f[1])
        if not (b[0] == "call" and re.search(r"::Store::get$", b[1].get("n") or "") and "addresses" in show(b)):
            return False
        return f[3] in ("Err", "None")
    ok, d, bad = rules.excl_check(db, ha, eff, unknown)
    ctx.check("excl:announced:unknown-node", bool(ok and len(d) >= 2), "inventory/refs announcements of unknown nodes are not stored",
              rules.where(ha), detail={"path": list(bad.values())[:1]}, fn=ha)
    for bb in getb:
        e = nshow(peel_calls(expr_operand(ha, ha["blocks"][bb]["t"][2][1])))
        ctx.check("flow:known-node:key", e == "arg4.node", "the node looked up is the announcer (%s)" % e, rules.where(ha, bb), fn=ha)
    # the lookup is passed for Inventory and Refs kinds
    g = graph(ha)
    for kind in ("Inventory", "Refs"):
        edges = rules.edges_where(db, ha, lambda f, k=kind: f[0] == "variant" and f[4] and f[3] == k and nshow(peel_calls(f[1])) == "arg4.message")
        first = [e_ for e_ in edges if g.dominates(e_[0], eff[0])] if eff else []
        okk = bool(first)
        for (b0, tb, lab) in first:
            blocks = g.reach_k([(tb, frozenset())], avoid_blocks=getb)
            if any(e_ in blocks for e_ in eff):
                okk = False
        ctx.check("pass:announced:lookup:%s" % kind, okk, "%s announcements always pass the known-announcer lookup" % kind,
                  rules.where(ha), fn=ha)

    # 2. Announcement::verify
    vf = db.one(r"^radicle_node::service::message::Announcement::verify$")
    if vf is None:
        ctx.violated("anchor:Announcement::verify", "Announcement::verify not found")
    else:
        rd = rules.ret_defs(vf)
        okv = len(rd) == 1 and rd[0][1] == "call" and (rd[0][2][1].get("dn") == "core::result::Result::is_ok")
        sigok = False
        if okv:
            inner = peel(rd[0][2][2][0])
            if cfg.callee_is(inner, re.compile(r"PublicKey::verify$")):
                key, msg, sg = [peel_calls(x) for x in inner[2]]
                sigok = (nshow(key) == "arg1.node" and nshow(sg) == "arg1.signature" and
                         cfg.callee_is(msg, re.compile(r"^radicle_node::wire::serialize$")) and
                         nshow(peel_calls(msg[2][0])) == "arg1.message")
        ctx.check("table:Announcement::verify", okv and sigok,
                  "verify() == self.node.verify(wire::serialize(&self.message), &self.signature).is_ok()", rules.where(vf), fn=vf)

    # 3. relay
    hm = db.one(r"^radicle_node::service::Service::handle_message$")
    rl = db.one(r"^radicle_node::service::Service::relay$")
    if hm is None or rl is None:
        ctx.violated("anchor:relay", "handle_message / relay not found")
        return
    rsites = rules.call_blocks(hm, r"^radicle_node::service::Service::relay$") + \
        [bb for bb in rules.call_blocks(hm, r"gossip::store::Store::set_relay$")]
    ctx.floor("relay:sites", len(rsites), 2, "relay / set_relay sites in handle_message")
    ok, a, bad = rules.dom_check(db, hm, rsites, lambda f: f[0] == "variant" and f[4] and f[3] == "Some" and
                                 cfg.callee_is(base_value(f[1]), re.compile(HA)))
    ctx.check("dom:relay:accepted", bool(ok and a), "a received announcement is relayed only if handle_announcement returned Ok(Some(id))",
              rules.where(hm, rsites[0] if rsites else None), detail={"path": list(bad.values())[:1]}, fn=hm)
    who = [(fn, bb, None) for fn, bb in db.call_sites(r"^radicle_node::service::Service::relay$")]
    rules.who(ctx, "who:relay", "call of Service::relay", who,
              [r"^radicle_node::service::Service::handle_message$", r"^radicle_node::service::Service::relay_announcements$"])
    # filters
    ob = rules.call_blocks(rl, r"^radicle_node::service::io::Outbox::relay$")
    ctx.floor("relay:outbox", len(ob), 1, "Outbox::relay call in Service::relay")
    for bb in ob:
        t = rl["blocks"][bb]["t"]
        src, steps = flow.iter_chain(rl, expr_operand(rl, t[2][2]))
        okc = cfg.callee_is(peel(src), re.compile(r"Sessions::connected$"))
        ctx.check("flow:relay:source", okc, "peers relayed to are drawn from the connected sessions", rules.where(rl, bb), detail=show(src), fn=rl)
        have_relayers = have_announcer = False
        for name, clo in steps:
            if name != "filter" or not clo:
                continue
            fam = flow.closure_family(db, rl, clo[0])
            caps = [show(peel_calls(o)) for o in [cfg.expr_operand(rl, x) if isinstance(x, list) else x for x in []]]
            capexprs = [show(peel_calls(c)) for c in clo[1]]
            callees = set()
            negated = False
            for f in fam:
                for b2, t2, c2 in db.calls(f):
                    callees.add(c2.get("n") or "")
                for blk in f["blocks"]:
                    for s in blk["s"]:
                        if s[0] == "=" and s[2][0] == "un" and s[2][1] == "Not":
                            negated = True
            if any(re.search(r"contains$", c) for c in callees) and negated and any("relayed_by" in c for c in capexprs):
                have_relayers = True
                # the default for "no relayers recorded" may be true, but a recorded relayer must be excluded
            if any(c.endswith("PartialEq::ne") or c.endswith("::ne") for c in callees) and any(".node" in c for c in capexprs):
                have_announcer = True
        ctx.check("req:relay:not-relayers", have_relayers, "peer iterator is filtered by `!relayers.contains(peer)` over relayed_by[id]",
                  rules.where(rl, bb), fn=rl)
        ctx.check("req:relay:not-announcer", have_announcer, "peer iterator is filtered by `peer != ann.node`", rules.where(rl, bb), fn=rl)
    # relayed_by lookup uses the announcement id
    for bb, t, c in db.calls(rl):
        if (c.get("n") or "").endswith("HashMap::get") and "relayed_by" in show(expr_operand(rl, t[2][0])):
            ctx.check("flow:relay:id", show(peel_calls(expr_operand(rl, t[2][1]))) == "arg2", "relayers are looked up by the announcement id",
                      rules.where(rl, bb), fn=rl)
    ra = db.one(r"^radicle_node::service::Service::relay_announcements$")
    if ra is None:
        ctx.violated("anchor:relay_announcements", "relay_announcements not found")
    else:
        rb = rules.call_blocks(ra, r"^radicle_node::service::Service::relay$")

        def own2(f):
            if f[0] != "cmp" or f[1] != "Eq":
                return False
            s = show(peel_calls(f[2])) + "|" + show(peel_calls(f[3]))
            return ".node" in s and "node_id" in s
        eqb = [bb for bb, t, c in db.calls(ra) if (c.get("dn") or "").endswith("PartialEq::eq")]
        ok, d, bad = rules.excl_check(db, ra, rb, own2, reeval_blocks=eqb)
        ctx.check("excl:relay_announcements:own", bool(ok and d), "stored announcements of the local node are not relayed",
                  rules.where(ra), detail={"path": list(bad.values())[:1]}, fn=ra)

    # 4. SQL
    n = 0
    for fn in db.find(r"gossip::store::Store>::announced$"):
        for bb, t, c in db.calls(fn):
            if (c.get("n") or "").endswith("::prepare") and "sqlite" in (c.get("n") or ""):
                for s in sql.const_strs(fn, t[2][1]):
                    okq, msg = sql.lint_monotone_upsert(s)
                    n += 1
                    ctx.check("sql:B1:announcements", okq is True, "stored announcement replaced only by a strictly newer one: %s" % msg,
                              rules.where(fn, bb), detail=" ".join(s.split()), fn=fn)
                    info = sql.upsert_info(s)
                    ctx.sample({"sql": " ".join(s.split()), "lint": msg})
    ctx.floor("sql:announcements", n, 1, "gossip upsert statement")

    # 5a. who may mutate the relayer bookkeeping: it is only ever added to (by handle_announcement); forgetting relayers
    #     while an announcement may still be waiting for the gossip tick sends it back to a peer that delivered it
    muts = []
    for f_ in db.all_fns():
        if f_["unit"] != "radicle_node.rlib":
            continue
        for bb_, callee in rules.field_mut_calls(f_, "relayed_by", r"service::Service<"):
            muts.append((f_, bb_, callee))
        for bb_, idx_, s_ in rules.field_writes(f_, "relayed_by", r"service::Service<"):
            muts.append((f_, bb_, "assignment"))
    ctx.floor("who:relayed_by", len(muts), 1, "mutating uses of Service.relayed_by")
    for f_, bb_, callee in muts:
        rk = rules.root_key(db, f_)
        grow = re.search(r"HashMap::entry$|Entry::or_default$|Vec::push$|HashMap::insert$|or_insert", callee or "") is not None
        keyk = "who:relayed_by:%s:%s" % (rk, cfg.short(callee or "write"))
        if re.search(r"Service::(handle_announcement|new)$", rk) and grow:
            ctx.held(keyk, "relayers are recorded by handle_announcement", rules.where(f_, bb_), fn=f_)
        elif grow:
            ctx.check(keyk, bool(re.search(r"Service::handle_announcement$", rk)), "relayers are recorded only where announcements are received", rules.where(f_, bb_), fn=f_)
        else:
            ctx.violated(keyk, "the relayer bookkeeping is shrunk (%s in %s): relayers of announcements that still wait for the gossip tick are forgotten, "
                         "so the announcement is relayed back to a peer that delivered it" % (cfg.short(callee or "write"), cfg.short(rk)),
                         rules.where(f_, bb_), fn=f_)

    # 5. the relayer is recorded whenever the announcement is stored, or found to be a duplicate of the stored one
    push = [bb for bb, callee in rules.field_mut_calls(ha, "relayed_by")]
    ctx.floor("relayed_by:record", len(push), 1, "relayed_by recording site")
    rets = rules.ret_blocks(ha)

    def id_known(f):
        """a gossip-store call for this announcement produced Some(id)"""
        if f[0] != "variant" or not f[4] or f[3] != "Some":
            return False
        b = base_value(f[1])
        return b[0] == "call" and re.search(r"gossip::store::Store::\w+$", b[1].get("n") or "") is not None and "gossip" in nshow(b)
    okp = True
    nk = 0
    for (b0, tb, lab) in rules.edges_where(db, ha, id_known):
        nk += 1
        blocks = g.reach_k([(tb, g.edge_know(b0, tb, lab, frozenset()) or frozenset())], avoid_blocks=push)
        bad = [r for r in rets if r in blocks]
        if bad:
            okp = False
            ctx.violated("pair:relayer-recorded", "a path on which the gossip store identified the announcement (id known) returns without recording the relayer",
                         rules.where(ha, b0), detail={"path": g.path_k(blocks, bad[0])}, fn=ha)
    if okp:
        ctx.check("pair:relayer-recorded", nk >= 1, "whenever the gossip store yields the announcement's id (new or duplicate), the relayer is recorded in relayed_by (%d edges)" % nk,
                  rules.where(ha), fn=ha)
    # a duplicate (announced() == Ok(None)) must be looked up so that its relayer can be recorded
    def dup(f):
        return f[0] == "variant" and f[4] and f[3] == "None" and cfg.callee_is(base_value(f[1]), re.compile(ANN))
    lookups = [bb for bb, t, c in db.calls(ha) if re.search(r"gossip::store::Store::\w+$", c.get("n") or "") and not re.search(ANN, c.get("n") or "")
               and "Option<u64>" in ha["locals"][t[3][0]][0]]
    okd = True
    nd = 0
    for (b0, tb, lab) in rules.edges_where(db, ha, dup):
        nd += 1
        blocks = g.reach_k([(tb, g.edge_know(b0, tb, lab, frozenset()) or frozenset())], avoid_blocks=lookups)
        if any(r in blocks for r in rets):
            okd = False
    ctx.check("pass:duplicate-lookup", okd and nd >= 1 and bool(lookups),
              "an announcement the store did not accept is looked up in the store (so that a duplicate delivery records its relayer) before returning",
              rules.where(ha), fn=ha)
