"""C11 — private repositories never leak through gossip (structural).

SEND rule: every call of Outbox::{write, write_all, broadcast, relay, announce} in
radicle-node (outside Outbox itself) is enumerated and the message operand is
classified by provenance.  Benign kinds (subscribe/ping/pong/info, node and
inventory announcements) need nothing.  Sends whose message is or may be a refs
announcement must be restricted to peers for which `Doc::is_visible_to(peer)` of
that repository holds: either the peer iterator is filtered by a closure that calls
it, or the send is dominated by a branch that established it (or established that
the announcement is not a refs announcement).
Inventory: the local inventory is populated only from public repositories. 
A filter closure may return true only because the document said so or because the
announcement is not a refs announcement (never because a lookup failed); the
inventory announcement built at start-up uses the routing table only after the
private repositories were removed from it.  The document the fetch worker hands back
(used for the visibility of the post-fetch refs announcement) is loaded after the
identity head was recomputed, which happens after every successful fetch."""
import re

from .. import cfg, rules, flow
from ..cfg import expr_operand, show, nshow, walk, peel, peel_calls, base_value, graph

SEND = r"^radicle_node::service::io::Outbox::(write|write_all|broadcast|relay|announce)$"
VIS = re.compile(r"^radicle::identity::doc::Doc::is_visible_to$")
BENIGN_CALLS = re.compile(r"^radicle_node::service::message::Message::(node|inventory|subscribe|ping|pong|info)$")
BENIGN_VARIANTS = {"Subscribe", "Ping", "Pong", "Info"}


def classify(db, fn, e, depth=0):
    """-> ('benign', why) | ('refs', why) | ('unknown', why)"""
    if depth > 12:
        return ("unknown", "depth")
    e = peel(e)
    if e[0] == "agg" and isinstance(e[1], dict):
        adt = e[1].get("adt", "")
        if adt.endswith("service::message::Message"):
            v = e[1].get("var")
            if v in BENIGN_VARIANTS:
                return ("benign", "Message::%s" % v)
            if v == "Announcement":
                return classify(db, fn, e[2][0], depth + 1)
        if adt.endswith("message::Announcement"):
            i = e[1]["fields"].index("message")
            return classify(db, fn, e[2][i], depth + 1)
        if adt.endswith("message::AnnouncementMessage"):
            v = e[1].get("var")
            return ("refs", "AnnouncementMessage::Refs") if v == "Refs" else ("benign", "AnnouncementMessage::%s" % v)
        if adt.endswith("RefsAnnouncement"):
            return ("refs", "RefsAnnouncement{..}")
        if adt.endswith("InventoryAnnouncement") or adt.endswith("NodeAnnouncement"):
            return ("benign", adt.rsplit("::", 1)[1])
    if e[0] == "call":
        n = e[1].get("n") or ""
        dn = e[1].get("dn") or ""
        ga = e[1].get("ga", [])
        if BENIGN_CALLS.search(n):
            return ("benign", cfg.short(n))
        if dn in ("core::convert::Into::into", "core::convert::From::from") and e[2]:
            src = ga[1] if dn.endswith("From::from") and len(ga) > 1 else (ga[0] if ga else "")
            if "RefsAnnouncement" in src:
                return ("refs", "from RefsAnnouncement")
            if "InventoryAnnouncement" in src or "NodeAnnouncement" in src:
                return ("benign", "from " + src.rsplit("::", 1)[1])
            return classify(db, fn, e[2][0], depth + 1)
        if n.endswith("AnnouncementMessage::signed") and e[2]:
            return classify(db, fn, e[2][0], depth + 1)
        if dn == "core::clone::Clone::clone" and e[2]:
            return classify(db, fn, e[2][0], depth + 1)
        if re.search(r"Service::refs_announcement_for$", n):
            return ("refs", "refs_announcement_for(..)")
        if re.search(r"^radicle_node::service::Service::initial$", n):
            return classify_fn_result(db, fn, n)
        if dn == "core::ops::try_trait::Try::branch" and e[2]:
            return classify(db, fn, e[2][0], depth + 1)
        return ("unknown", "result of %s" % cfg.short(n))
    if e[0] in ("field", "down"):
        return classify(db, fn, e[1], depth + 1)
    if e[0] == "arg":
        return ("unknown", "parameter %d" % e[1])
    if e[0] == "phi":
        ds = flow.def_exprs(fn, e[1])
        rs = [classify(db, fn, d, depth + 1) for d in ds] or [("unknown", "no def")]
        for k in ("unknown", "refs"):
            for r in rs:
                if r[0] == k:
                    return r
        return rs[0]
    return ("unknown", show(e))


def classify_fn_result(db, fn, name):
    """`Service::initial`: every message it builds is benign."""
    fs = [f for f in db.by_key.get(name, []) if f["unit"] == fn["unit"]]
    if len(fs) != 1:
        return ("unknown", "cannot resolve %s" % name)
    f = fs[0]
    made = []
    for bb, t, c in db.calls(f):
        n = c.get("n") or ""
        if "service::message::" in n and ("Message" in n or "Announcement" in n) and not n.endswith("::clone"):
            if not BENIGN_CALLS.search(n):
                return ("unknown", "%s builds %s" % (cfg.short(name), cfg.short(n)))
            made.append(cfg.short(n))
    for blk in f["blocks"]:
        for s in blk["s"]:
            if s[0] == "=" and s[2][0] == "agg" and isinstance(s[2][1], dict) and \
                    s[2][1].get("adt", "").endswith("service::message::Message") and s[2][1].get("var") not in BENIGN_VARIANTS:
                return ("unknown", "%s builds Message::%s" % (cfg.short(name), s[2][1].get("var")))
    return ("benign", "%s builds only %s" % (cfg.short(name), sorted(set(made))))


# ---------------------------------------------------------------- why may a visibility filter say `true`?
OPT_PASS = ("core::option::Option::map", "core::option::Option::as_ref", "core::option::Option::as_deref", "core::option::Option::cloned",
            "core::option::Option::copied", "core::option::Option::as_mut", "core::option::Option::inspect", "core::option::Option::filter",
            "core::option::Option::and_then", "core::clone::Clone::clone")
NOT_REFS = lambda f: f[0] == "variant" and "AnnouncementMessage" in (f[2] or "") and ((f[4] and f[3] in ("Node", "Inventory")) or (not f[4] and f[3] == "Refs"))


def _upvar(db, fn, e):
    """If e reads environment field i of closure fn: (parent, expression in the parent)."""
    x = peel(e)
    if x[0] == "field" and "root" in fn:
        b = peel(x[1])
        if b[0] == "arg" and b[1] == 1 and isinstance(x[3], int):
            return flow.upvar_source(db, fn, x[3])
    return None


def none_reasons(db, fn, e, depth=0):
    """Why may the Option-valued expression e be None?  Reasons: 'not-refs' (the announcement is not a refs
    announcement), 'lookup:<callee>' (a lookup yielded nothing), 'const-none', 'unknown:<expr>'."""
    if depth > 10:
        return {"unknown:depth"}
    uv = _upvar(db, fn, e)
    if uv:
        return none_reasons(db, uv[0], uv[1], depth + 1)
    x = peel(e)
    if x[0] == "agg" and isinstance(x[1], dict) and x[1].get("adt") == "core::option::Option":
        return {"const-none"} if x[1].get("var") == "None" else set()
    if x[0] == "const" and isinstance(x[1], dict) and any(a.endswith("Option::None") for a in (x[1].get("pagg") or [])):
        return {"const-none"}
    if x[0] == "call":
        dn = x[1].get("dn") or ""
        if dn in OPT_PASS and x[2]:
            return none_reasons(db, fn, x[2][0], depth + 1)
        return {"lookup:%s" % cfg.short(x[1].get("n") or dn)}
    if x[0] == "phi":
        out = set()
        g = graph(fn)
        for d in g.defs().get(x[1], []):
            if d[0] == "stmt" and d[4]:
                r = none_reasons(db, fn, cfg.expr_rvalue(fn, d[3]), depth + 1)
                bd = d[1]
            elif d[0] == "call" and d[4]:
                t = d[2]
                r = none_reasons(db, fn, ("call", t[1], [expr_operand(fn, a) for a in t[2]], d[1]), depth + 1)
                bd = d[1]
            else:
                continue
            if "const-none" in r:
                ok, al, _ = rules.dom_check(db, fn, [bd], NOT_REFS)
                if ok and al:
                    r = (r - {"const-none"}) | {"not-refs"}
            out |= r
        return out or {"unknown:%s" % show(x)}
    return {"unknown:%s" % show(x)[:60]}


def some_true_reasons(db, fn, e, depth=0):
    """Reasons the payload of Some(..) in Option<bool> expression e may be true."""
    if depth > 10:
        return {"unknown:depth"}
    x = peel(e)
    if x[0] == "call":
        dn = x[1].get("dn") or ""
        if dn in ("core::option::Option::map", "core::option::Option::and_then") and len(x[2]) > 1:
            c = peel(x[2][1])
            if c[0] == "agg" and isinstance(c[1], dict) and c[1].get("closure"):
                out = set()
                for f in db.by_key.get(cfg.strip_generics(c[1]["closure"]), []):
                    if f["unit"] == fn["unit"]:
                        out |= true_reasons(db, f, depth + 1)
                return out or {"unknown:closure"}
        if dn in OPT_PASS and x[2]:
            return some_true_reasons(db, fn, x[2][0], depth + 1)
    return {"unknown:%s" % show(x)[:60]}


def expr_true_reasons(db, fn, e, depth=0):
    if depth > 10:
        return {"unknown:depth"}
    x = peel(e)
    if x[0] == "const" and isinstance(x[1], dict) and "v" in x[1]:
        return {"const"} if x[1]["v"] != "0" else set()
    if x[0] == "call":
        dn = x[1].get("dn") or ""
        n = x[1].get("n") or ""
        if VIS.search(n):
            return {"vis"}
        if dn == "core::option::Option::unwrap_or" and len(x[2]) == 2:
            r = some_true_reasons(db, fn, x[2][0], depth + 1)
            d = expr_true_reasons(db, fn, x[2][1], depth + 1)
            if d:
                nr = none_reasons(db, fn, x[2][0], depth + 1)
                r |= (nr if d == {"const"} else (nr | d))
            return r
        if dn in ("core::option::Option::unwrap_or_default",) and x[2]:
            return some_true_reasons(db, fn, x[2][0], depth + 1)
        if dn in ("core::option::Option::is_some_and", "core::option::Option::is_none_or") and len(x[2]) == 2:
            fake = ("call", {"dn": "core::option::Option::map", "n": "core::option::Option::map"}, x[2], x[3] if len(x) > 3 else None)
            r = some_true_reasons(db, fn, fake, depth + 1)
            if dn.endswith("is_none_or"):
                r |= none_reasons(db, fn, x[2][0], depth + 1)
            return r
        if dn == "core::option::Option::map_or" and len(x[2]) == 3:
            fake = ("call", {"dn": "core::option::Option::map", "n": "core::option::Option::map"}, [x[2][0], x[2][2]], None)
            r = some_true_reasons(db, fn, fake, depth + 1)
            d = expr_true_reasons(db, fn, x[2][1], depth + 1)
            if d:
                r |= none_reasons(db, fn, x[2][0], depth + 1)
            return r
    if x[0] == "bin" and x[1] in ("BitAnd", "BitOr"):
        return expr_true_reasons(db, fn, x[2], depth + 1) | expr_true_reasons(db, fn, x[3], depth + 1)
    return {"unknown:%s" % show(x)[:60]}


def true_reasons(db, clo, depth=0):
    """Reasons a bool-returning (closure) function may return true."""
    out = set()
    none_facts = {}
    for bb, tb, lab, facts in cfg.all_edge_facts(db, clo):
        for f in facts:
            if f[0] == "variant" and f[4] and f[3] == "None":
                none_facts[nshow(f[1])] = f[1]
    for bb, kind, val in rules.ret_defs(clo):
        if kind == "const":
            if val == 0:
                continue
            got = False
            for txt, ex in none_facts.items():
                ok, al, _ = rules.dom_check(db, clo, [bb], lambda f, txt=txt: f[0] == "variant" and f[4] and f[3] == "None" and nshow(f[1]) == txt)
                if ok and al:
                    out |= none_reasons(db, clo, ex, depth + 1)
                    got = True
            if not got:
                okv, alv, _ = rules.dom_check(db, clo, [bb], lambda f: f[0] == "bool" and f[2] is True and mentions_visibility(db, clo, f[1]))
                out |= {"vis"} if (okv and alv) else {"const"}
        else:
            out |= expr_true_reasons(db, clo, val, depth + 1)
    return out


def mentions_visibility(db, fn, e):
    """The expression (including closures constructed in it) calls Doc::is_visible_to."""
    for x in walk(e):
        if x[0] == "call" and cfg.callee_is(x, VIS):
            return True
        if x[0] == "agg" and isinstance(x[1], dict) and x[1].get("closure"):
            for f in flow.closure_family(db, fn, x[1]["closure"]):
                if any(VIS.search(c.get("n") or "") for _, _, c in db.calls(f)):
                    return True
    return False


def run(ctx):
    _run(ctx)
    from . import _worker
    _worker.identity_refresh(ctx, "doc")


def _run(ctx):
    db = ctx.db
    ctx.explanation = (
        "Decides structurally (SEND rule): every Outbox send site in radicle-node is enumerated; sends whose message is or "
        "may be a refs announcement are restricted by Doc::is_visible_to of the peer (filter closure on the peer iterator, or "
        "a dominating branch), the own-refs announcement uses the document of the announced repository; the local inventory "
        "(routing entries under the local node id, cached inventory announcement) is fed only from public repositories.")
    ctx.not_decided = "that stored documents are current w.r.t. later visibility changes (history property)"
    ctx.rule_text = "SEND = WHO(all send sites) + message-kind provenance + filter-closure containment / DOM(is_visible_to)"
    node = [f for f in db.all_fns() if f["unit"] == "radicle_node.rlib"]
    sites = []
    for fn in node:
        if re.search(r"^radicle_node::service::io::Outbox::", fn["key"]):
            continue
        for bb in rules.call_blocks(fn, SEND):
            sites.append((fn, bb))
    ctx.floor("send:sites", len(sites), 6, "Outbox send sites outside Outbox")
    n_refs = 0
    for fn, bb in sites:
        t = fn["blocks"][bb]["t"]
        meth = t[1]["n"].rsplit("::", 1)[1]
        root = db.root_of(fn)
        # message operand position: write(self, peer, msg) write_all(self, peer, msgs) broadcast(self, msg, peers)
        # relay(self, ann, peers) announce(self, ann, peers, gossip)
        mi = {"write": 2, "write_all": 2, "broadcast": 1, "relay": 1, "announce": 1}[meth]
        pi = {"write": None, "write_all": None, "broadcast": 2, "relay": 2, "announce": 2}[meth]
        kind, why = classify(db, fn, expr_operand(fn, t[2][mi]))
        key = "send:%s:%s" % (root["key"], meth)
        ordn = sum(1 for f2, b2 in sites if f2 is fn and b2 < bb and fn["blocks"][b2]["t"][1]["n"] == t[1]["n"])
        if ordn:
            key += "#%d" % ordn
        if kind == "benign":
            ctx.held(key, "send of a benign message kind (%s)" % why, rules.where(fn, bb), fn=fn)
            ctx.sample({"site": rules.where(fn, bb), "kind": kind, "why": why})
            continue
        n_refs += 1
        ok = False
        how = ""
        al = []
        if pi is not None:
            src, steps = flow.iter_chain(fn, expr_operand(fn, t[2][pi]))
            for name, clo in steps:
                if name == "filter" and clo:
                    fam = flow.closure_family(db, fn, clo[0])
                    if any(VIS.search(c.get("n") or "") for f in fam for _, _, c in db.calls(f)):
                        ok = True
                        how = "peer iterator filtered by a closure calling Doc::is_visible_to"
                        ok2, what = check_filter_doc(db, fn, clo, kind)
                        if ok2 is None:
                            ctx.ob(key + ":filter-shape", "inconclusive", what, rules.where(fn, bb), fn=fn)
                        elif not ok2:
                            ok = False
                            how = what
        if not ok:
            def allow(f):
                if f[0] == "bool" and f[2] is True and mentions_visibility(db, fn, f[1]):
                    return True
                if f[0] == "bool" and f[2] is True and peel(f[1])[0] == "phi":
                    # a visibility flag computed in several arms: one of them must consult the document
                    leaves = [peel(x) for x in flow.def_exprs(fn, peel(f[1])[1])]
                    if any(mentions_visibility(db, fn, x) for x in leaves):
                        return True
                if f[0] == "variant" and "AnnouncementMessage" in (f[2] or ""):
                    if (f[4] and f[3] in ("Node", "Inventory")) or (not f[4] and f[3] == "Refs"):
                        return True
                return False
            okd, al, bad = rules.dom_check(db, fn, [bb], allow)
            if okd and al:
                ok = True
                how = "dominated by a branch establishing visibility (or a non-refs announcement)"
            elif not how:
                how = "no visibility filter on the peers and no dominating visibility branch"
        if ok and pi is None:
            # residual: arms of the visibility flag that are constant `true` let a peer through without a decision
            for (b0, tb, lab, facts) in cfg.all_edge_facts(db, fn):
                for f in facts:
                    if f[0] == "bool" and f[2] is True and peel(f[1])[0] == "phi" and (b0, tb, lab) in set(map(tuple, al)) and \
                            any(mentions_visibility(db, fn, peel(x)) for x in flow.def_exprs(fn, peel(f[1])[1])):
                        consts = []
                        for d in graph(fn).defs().get(peel(f[1])[1], []):
                            if d[0] == "stmt" and d[3][0] == "use" and d[3][1][0] == "k" and d[3][1][1].get("v") == "1":
                                consts.append(d[1])
                        for cb in consts:
                            okc, al2, _ = rules.dom_check(db, fn, [cb], lambda ft: ft[0] == "variant" and ft[4] and ft[3] in ("Public",))
                            ctx.check(key + ":undecided", bool(okc and al2),
                                      "every arm of the visibility decision consults the repository's document; an arm that lets the peer through "
                                      "unconditionally (repository not in local storage) sends a possibly private refs announcement",
                                      rules.where(fn, cb), fn=fn)
        ctx.check(key, ok, "send of a refs/unknown-kind announcement (%s) is restricted to peers allowed to see the repository: %s" % (why, how),
                  rules.where(fn, bb), fn=fn)
        ctx.sample({"site": rules.where(fn, bb), "kind": kind, "why": why, "restricted": ok, "how": how})
    ctx.floor("send:refs-or-unknown", n_refs, 2, "send sites of refs/unknown kind (announce_refs, relay, subscribe replay)")

    # announce_refs: the document consulted is the one of the announced repository at every caller
    ar = db.one(r"^radicle_node::service::Service::announce_refs$")
    if ar is None:
        ctx.violated("anchor:announce_refs", "Service::announce_refs not found")
    else:
        for cf, cb, t in flow.call_sites_of(db, ar):
            rid = peel_calls(expr_operand(cf, t[2][1]))
            doc = base_value(expr_operand(cf, t[2][2]))
            s = nshow(doc)
            okd = nshow(rid) in s or (rid[0] == "arg" and ("arg%d" % rid[1]) in s)
            if not okd and doc[0] == "arg":
                # passed through: check one level up
                okd = all(nshow(peel_calls(expr_operand(c2, t2[2][1]))) in nshow(base_value(expr_operand(c2, t2[2][doc[1] - 1])))
                          for c2, b2, t2 in flow.call_sites_of(db, cf)) and bool(flow.call_sites_of(db, cf))
            if not okd and rules.root_key(db, cf).endswith("Service::fetched") and "arg4" in s:
                ctx.ob("flow:announce_refs:doc:%s" % rules.root_key(db, cf), "assumed",
                       "the document comes with the worker's fetch result for this rid (pairing of rid and result is established "
                       "by the worker thread; cross-thread, not decided)", rules.where(cf, cb), fn=cf)
                continue
            ctx.check("flow:announce_refs:doc:%s" % rules.root_key(db, cf), okd,
                      "announce_refs(rid, doc, ..) is given the identity document of that rid (%s / %s)" % (nshow(rid), s[:120]),
                      rules.where(cf, cb), fn=cf)

    # inventory
    init = db.one(r"^radicle_node::service::Service::initialize$")
    if init is None:
        ctx.violated("anchor:initialize", "Service::initialize not found")
    else:
        # what is handed to gossip::inventory(..) (and to the routing table) in initialize: either a set built here from the
        # repositories found public, or the routing table itself — the latter only after the private repositories were
        # removed from it (a repository that turned private while the node was down is still in the persisted table)
        gi = [(bb, t) for bb, t, c in db.calls(init) if re.search(r"gossip::inventory$", c.get("n") or "") and len(t[2]) > 1]
        rt = [(bb, t) for bb, t, c in db.calls(init) if re.search(r"routing::Store::add_inventory$", c.get("n") or "") and len(t[2]) > 1]
        ctx.floor("inventory:initialize:set", len(gi), 1, "gossip::inventory call in initialize")
        g_init = graph(init)
        cleanup = rules.call_blocks(init, r"Service::remove_inventories$|routing::Store::remove_inventories$|Service::remove_inventory$")
        built_sets = set()
        for bb, t in gi:
            e = peel_calls(expr_operand(init, t[2][1]))
            se = nshow(e)
            key_ = "flow:initialize:inventory-source"
            if re.search(r"Service::inventory\(", se) or "routing::Store" in se:
                okc = bool(cleanup) and any(g_init.dominates(cb_, bb) for cb_ in cleanup)
                ctx.check(key_, okc, "the cached inventory announcement is built from the routing table only after private repositories were removed "
                          "from it (otherwise a repository that became private while the node was down is announced)", rules.where(init, bb), fn=init)
            else:
                r = flow.root_place(init, t[2][1])
                if r is not None:
                    built_sets.add(r[0])
                ctx.held(key_, "the cached inventory announcement is built from a set assembled in initialize", rules.where(init, bb), fn=init)
        for bb, t in rt:
            e = peel_calls(expr_operand(init, t[2][1]))
            while e[0] == "call" and re.search(r"::(iter|into_iter|keys|cloned|copied)$", e[1].get("n") or e[1].get("dn") or "") and e[2]:
                e = peel_calls(e[2][0])
            if e[0] == "phi" and "Service::inventory(" not in nshow(e):
                built_sets.add(e[1])
        ins = []
        for bb, t, c in db.calls(init):
            if re.search(r"BTreeSet::insert$|HashSet::insert$|::extend$|Vec::push$", c.get("n") or ""):
                r = flow.root_place(init, t[2][0])
                if r is not None and r[0] in built_sets:
                    ins.append(bb)
        if built_sets:
            ctx.floor("inventory:initialize:insert", len(ins), 1, "insertions into the inventory set in initialize")
            ok, a, bad = rules.dom_check(db, init, ins, rules.is_bool(r"^radicle::identity::doc::Doc::is_public$", True))
            ctx.check("dom:initialize:inventory-public", bool(ok and a and ins), "initialize adds a repository to the inventory only if its document is public",
                      rules.where(init, ins[0] if ins else None), detail={"path": list(bad.values())[:1]}, fn=init)
        for bb in rules.call_blocks(init, r"^radicle::identity::doc::Doc::is_public$"):
            s = nshow(peel_calls(expr_operand(init, init["blocks"][bb]["t"][2][0])))
            ctx.check("flow:initialize:doc", s.endswith(".doc") and "repo" in s or "doc" in s, "visibility read from the repository's own document (%s)" % s,
                      rules.where(init, bb), fn=init)
    addi = db.one(r"^radicle_node::service::Service::add_inventory$")
    if addi is None:
        ctx.violated("anchor:add_inventory", "Service::add_inventory not found")
    else:
        for cf, cb, t in flow.call_sites_of(db, addi):
            rk = rules.root_key(db, cf)
            if rk.endswith("Service::command"):
                ctx.ob("dom:add_inventory:%s" % rk, "assumed",
                       "Command::AddInventory comes from the local operator over the control socket (not peer input); the CLI only issues it for public repositories",
                       rules.where(cf, cb), fn=cf)
                continue
            ok, a, bad = rules.dom_check(db, cf, [cb], rules.is_bool(r"^radicle::identity::doc::Doc::is_public$", True))
            ctx.check("dom:add_inventory:%s" % rk, bool(ok and a), "add_inventory is called only for public repositories",
                      rules.where(cf, cb), detail={"path": list(bad.values())[:1]}, fn=cf)
    # who writes routing entries under the local node id
    for fn in node:
        for bb in rules.call_blocks(fn, r"routing::Store::add_inventory$"):
            t = fn["blocks"][bb]["t"]
            who = nshow(peel_calls(expr_operand(fn, t[2][2])))
            if "node_id" in who or "nid(" in who:
                rk = rules.root_key(db, fn)
                ctx.check("who:routing-local:%s" % rk, bool(re.search(r"Service::(initialize|add_inventory)$", rk)),
                          "routing entries for the local node are written only by initialize / add_inventory", rules.where(fn, bb), fn=fn)


def check_filter_doc(db, fn, clo, kind):
    """For a visibility filter closure: the document consulted must belong to the
    repository of the announcement (announce_refs: the `doc` parameter; relay: storage.get(rid)
    with rid taken from the relayed announcement)."""
    fam = flow.closure_family(db, fn, clo[0])
    caps = [peel_calls(c) for c in clo[1]]
    capn = [nshow(c) for c in caps]
    for f in fam:
        for bb, t, c in db.calls(f):
            if VIS.search(c.get("n") or ""):
                d = base_value(expr_operand(f, t[2][0]))
                who = nshow(peel_calls(expr_operand(f, t[2][1])))
                # the peer tested is the closure's item
                if "arg2" not in who and "arg1" not in who:
                    return False, "is_visible_to is asked about %s, not about the peer being filtered" % who
    # relay: rid captured must come from the announcement's Refs payload
    if re.search(r"Service::relay$", fn["key"]):
        ok = False
        for c in caps:
            for d in ([c] if c[0] != "phi" else flow.def_exprs(fn, c[1])):
                for x in walk(d):
                    if x[0] == "down" and x[2] == "Refs":
                        ok = True
        if not ok:
            return False, "the repository id used for the visibility lookup does not come from the relayed refs announcement"
        # the filter may say `true` only because the document said so, or because the announcement is not a refs announcement
        for f in fam[:1]:
            rs = true_reasons(db, f)
            bad = sorted(r for r in rs if r not in ("vis", "not-refs") and not r.startswith("unknown"))
            unk = sorted(r for r in rs if r.startswith("unknown"))
            if bad:
                return False, ("the visibility filter lets a peer through without the document saying so (%s): a refs announcement of a "
                               "repository that is not in local storage would be relayed to everyone" % ", ".join(bad))
            if unk:
                return None, "visibility filter has a shape that is not modelled (%s)" % ", ".join(unk)
            if "vis" not in rs:
                return False, "the visibility filter never consults the document"
        return True, ""
    # announce_refs-like: doc must be a parameter/local of the sending function
    return True, ""
