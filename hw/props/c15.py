"""C15 — wire messages round-trip and have a unique encoding (partial).

Decided (structural, from the success-path traces of every wire::Encode /
wire::Decode implementation that a gossip Message can contain): (CODEC) encoder and
decoder of each type perform the same sequence of wire-level reads/writes — same
wire types in the same order, per enum arm, with length-prefixed loops on both
sides using the same prefix type; the fields written in position i are the fields
the decoder fills from read i; (TAGS) the integer tag tables (MessageType,
AddressType, InfoType, control codes) are bijections and `TryFrom<int>` inverts the
`as int` discriminants, the tag an encoder arm writes selects the decoder arm that
rebuilds the same variant, and Message::type_id maps every variant to its own tag;
(INJ) a decoder does not discard bytes it read (a read whose value does not reach
the result makes several byte strings decode to one value, so re-encoding cannot
be the identity); (SIZE) the maximum encoded size of every Message variant,
computed from the type structure and the compile-time limits (INVENTORY_LIMIT,
REF_REMOTE_LIMIT, ADDRESS_LIMIT, filter sizes, ping/pong limits, u8-prefixed
strings), is within wire::Size::MAX, and ping/pong paddings are built only within
their limits.  Not decided: equality decode(encode(m)) == m as a value fact, and
uniqueness of encodings over arbitrary decodable bytes beyond the INJ rules.
(INJ, second half) between a read and the value returned, decoded data passes only through
plumbing, conversion traits, constructors and a reviewed list of dependency constructors:
no unreviewed (possibly normalising) transformation; conversions implemented in the workspace
must themselves be plain constructors; decoders read with read_exact (no silent short reads)."""
import json
import re

from .. import cfg, rules, codec, flow
from ..cfg import expr_operand, nshow, peel, graph, walk

MSG = "radicle_node::service::message::Message"
PRIM = {"u8": 1, "u16": 2, "u32": 4, "u64": 8}
SIZE_MAX = 65535


# ------------------------------------------------------------------ type strings
def split_type(t):
    """'a::B<X, Y<Z>>' -> ('a::B', ['X', 'Y<Z>']); '[T; N]' -> ('[;]', ['T','N']); '[T]' -> ('[]',['T']); '(A, B)' -> ('()', [..])"""
    t = t.strip()
    if t.startswith("[") and t.endswith("]"):
        inner = t[1:-1]
        parts = _split_top(inner, ";")
        if len(parts) == 2:
            return "[;]", [parts[0].strip(), parts[1].strip()]
        return "[]", [inner.strip()]
    if t.startswith("(") and t.endswith(")"):
        return "()", [x.strip() for x in _split_top(t[1:-1], ",")]
    i = t.find("<")
    if i == -1 or not t.endswith(">"):
        return t, []
    return t[:i], [x.strip() for x in _split_top(t[i + 1:-1], ",")]


def _split_top(s, sep):
    out, depth, cur = [], 0, ""
    for i, ch in enumerate(s):
        if ch in "<([":
            depth += 1
        elif ch in ">)]" and not (ch == ">" and i > 0 and s[i - 1] == "-"):
            depth -= 1
        if ch == sep and depth == 0:
            out.append(cur)
            cur = ""
        else:
            cur += ch
    if cur.strip():
        out.append(cur)
    return out


class Codecs:
    def __init__(self, db):
        self.db = db
        self.impls = codec.impls(db)
        self._tr = {}

    def lookup(self, ty, side):
        """(impl key, substitution) for a concrete wire type on one side, or (None, None)."""
        ty = codec.norm_type(ty)
        if ty in self.impls and side in self.impls[ty]:
            return ty, {}
        head, args = split_type(ty)
        for k, m in self.impls.items():
            if side not in m:
                continue
            kh, ka = split_type(k)
            if kh == head and len(ka) == len(args) and ka:
                sub = {}
                ok = True
                for a, b in zip(ka, args):
                    if re.match(r"^[A-Z]\w?$", a):      # a generic parameter name
                        sub[a] = b
                    elif a != b:
                        ok = False
                if ok:
                    return k, sub
        if ty == "str" and side in self.impls.get("str", {}):
            return "str", {}
        return None, None

    def traces(self, key, side):
        k = (key, side)
        if k not in self._tr:
            fn = self.impls[key][side]
            self._tr[k] = codec.traces(self.db, fn)
        return self._tr[k]

    def fn(self, key, side):
        return self.impls[key][side]


def subst(ty, sub):
    if not sub or ty is None:
        return ty
    if ty in sub:
        return sub[ty]
    head, args = split_type(ty)
    if not args:
        return ty
    args = [subst(a, sub) for a in args]
    if head == "[;]":
        return "[%s; %s]" % (args[0], args[1])
    if head == "[]":
        return "[%s]" % args[0]
    if head == "()":
        return "(%s)" % ", ".join(args)
    return "%s<%s>" % (head, ", ".join(args))


# ------------------------------------------------------------------ flat byte shapes
def flat(cs, ty, side, depth=0, seen=()):
    """Byte-level shape of a wire type on one side: list of 'u8'|'u16'|'u32'|'u64'|'raw'|'raw:N'|('loop', [...])|('?', ty).
    Arms (several success traces) are summarised as ('arms', n)."""
    ty = codec.norm_type(ty)
    if ty in PRIM:
        return [ty]
    if ty == "raw":
        return ["raw"]
    if depth > 8 or (ty, side) in seen:
        return [("?", ty)]
    head, args = split_type(ty)
    if head == "[;]" and args[0] == "u8":
        return ["raw:%s" % args[1]]
    key, sub = cs.lookup(ty, side)
    if key is None:
        return [("?", ty)]
    trs = cs.traces(key, side)
    if trs is None:
        return [("?", ty)]
    straight, loops = codec.split_loops(trs)
    kinds = set(tuple(t.types()) for t in straight)
    if len(kinds) > 1:
        return [("arms", ty)]
    if not straight:
        return [("?", ty)]
    tr = straight[0]
    out = []
    seen2 = seen + ((ty, side),)
    if loops:
        hdr = sorted(loops)[0]
        lt = loops[hdr][0]
        pre = codec.pre_events(lt, hdr)
        body = codec.body_events(lt)
        post = [e for e in tr.events if e.bb not in set(x.bb for x in pre)]
        for e in pre:
            out += flat(cs, subst(e.ty, sub), side, depth + 1, seen2)
        b = []
        for e in body:
            b += flat(cs, subst(e.ty, sub), side, depth + 1, seen2)
        out.append("raw" if b == ["u8"] else ("loop", tuple(b)))
        for e in post:
            out += flat(cs, subst(e.ty, sub), side, depth + 1, seen2)
        return out
    for e in tr.events:
        out += flat(cs, subst(e.ty, sub), side, depth + 1, seen2)
    return out


def flat_eq(a, b):
    """Byte shapes agree; a raw run of unknown length matches a raw run of any length, two known lengths must be equal."""
    if len(a) != len(b):
        return False
    for x, y in zip(a, b):
        xr = isinstance(x, str) and x.startswith("raw")
        yr = isinstance(y, str) and y.startswith("raw")
        if xr and yr:
            if ":" in x and ":" in y and x != y:
                return False
            continue
        if isinstance(x, tuple) and isinstance(y, tuple) and x[0] == y[0] == "loop":
            if not flat_eq(list(x[1]), list(y[1])):
                return False
            continue
        if x != y:
            return False
    return True


def equiv(cs, a, b):
    """encoder event type a ~ decoder event type b"""
    a, b = codec.norm_type(a), codec.norm_type(b)
    if a == b:
        return True
    fa, fb = flat(cs, a, "enc"), flat(cs, b, "dec")
    if any(isinstance(x, tuple) and x[0] in ("?", "arms") for x in fa + fb):
        return None
    return flat_eq(fa, fb)


def cmp_seq(cs, enc_events, dec_events, sub_e=None, sub_d=None):
    """Compare two event sequences.  Returns (status, message): status True | False | None (inconclusive)."""
    et = [subst(e.ty, sub_e) for e in enc_events]
    dt = [subst(e.ty, sub_d) for e in dec_events]
    if len(et) != len(dt):
        # allow a difference that vanishes at byte level (e.g. `[u8]` written at once vs. length + bytes read separately)
        fa = [x for t in et for x in flat(cs, t, "enc")]
        fb = [x for t in dt for x in flat(cs, t, "dec")]
        if any(isinstance(x, tuple) and x[0] in ("?", "arms") for x in fa + fb):
            return None, "encoder writes %s, decoder reads %s (not comparable at byte level)" % (short_l(et), short_l(dt))
        if flat_eq(fa, fb):
            return True, ""
        return False, "encoder writes %s but decoder reads %s" % (short_l(et), short_l(dt))
    inconcl = None
    for i, (a, b) in enumerate(zip(et, dt)):
        r = equiv(cs, a, b)
        if r is False:
            return False, "position %d: encoder writes %s but decoder reads %s" % (i, short_t(a), short_t(b))
        if r is None:
            inconcl = "position %d: %s vs %s not comparable" % (i, short_t(a), short_t(b))
    if inconcl:
        return None, inconcl
    return True, ""


def short_t(t):
    return re.sub(r"(\w+::)+", "", t or "?")


def short_l(ts):
    return "[" + ", ".join(short_t(t) for t in ts) + "]"


# ------------------------------------------------------------------ field binding
def enc_field(e):
    """Field of self an encoder event writes ('since'), or None."""
    t = e.text
    m = re.search(r"arg1(?: as \w+)?((?:\.\w+)+)\)*$", t)
    if not m:
        return None
    parts = [p for p in m.group(1).split(".") if p]
    parts = [p for p in parts if not p.isdigit()]
    return parts[-1] if parts else None


def dec_fields(fn, tr):
    """For each decode event of trace tr: the set of aggregate field names (of workspace ADTs built on the path)
    whose operand derives from that read."""
    blocks = set(tr.path)
    out = {}
    aggs = []
    for bb in tr.path:
        b = fn["blocks"][bb]
        for j, s in enumerate(b["s"]):
            if s[0] == "=" and s[2][0] == "agg" and isinstance(s[2][1], dict) and s[2][1].get("adt", "").startswith("radicle"):
                aggs.append((bb, j, s[2][1], s[2][2]))
    evbb = {e.bb: i for i, e in enumerate(tr.events)}
    for bb, j, k, ops in aggs:
        names = k.get("fields") or []
        for idx, op in enumerate(ops):
            e = expr_operand(fn, op)
            for sub in walk(e):
                if sub[0] == "call" and len(sub) > 3 and sub[3] in evbb:
                    nm = names[idx] if idx < len(names) else str(idx)
                    if not nm.isdigit():
                        out.setdefault(evbb[sub[3]], set()).add(nm)
    return out


# ------------------------------------------------------------------ tag tables
def as_int_table(db, enum_path):
    adt = db.adt(enum_path)
    if not adt:
        return None
    return {v["n"]: int(v["discr"]) for v in adt.get("variants", [])}


def int_switch_table(db, fn, enum_pat):
    """TryFrom<int>: {int value: variant built in the target block}, plus whether the default arm is an Err."""
    b0 = fn["blocks"][0]
    t = b0["t"]
    if t[0] != "switch":
        return None
    tab = {}
    r = re.compile(enum_pat)
    for v, tb in t[2]:
        got = None
        for bb in graph(fn).reach([tb], avoid_blocks=[x[1] for x in t[2] if x[1] != tb] + [t[3]]):
            for s in fn["blocks"][bb]["s"]:
                if s[0] == "=" and s[2][0] == "agg" and isinstance(s[2][1], dict) and r.search(s[2][1].get("adt", "")):
                    got = s[2][1].get("var")
        tab[int(v)] = got
    return tab


def run(ctx):
    db = ctx.db
    ctx.explanation = (
        "Decides, from success-path traces read off the MIR of every wire codec reachable from Message: encoder/decoder "
        "agreement of wire-type sequences per arm (loops included), field binding by position, tag tables as inverse "
        "bijections, that no decoder discards bytes it read, and the maximum encoded size of each Message variant against "
        "the frame limit.  Value-level round trip and uniqueness over arbitrary bytes are not decided.")
    ctx.not_decided = "decode(encode(m)) == m as a value equality; canonical form of every accepted byte string (beyond the no-discard rule)"
    ctx.rule_text = "CODEC + TAGS + INJ + SIZE"
    cs = Codecs(db)
    ctx.floor("codec:impls", len(cs.impls), 20, "wire codec implementations found")
    if MSG not in cs.impls:
        ctx.violated("anchor:Message", "Message codec not found")
        return

    # closure of wire types reachable from Message (either side)
    todo = [MSG]
    closure = []
    keys_seen = set()
    while todo:
        ty = todo.pop()
        for side in ("enc", "dec"):
            key, sub = cs.lookup(ty, side)
            sk = (key, side, tuple(sorted((sub or {}).items())))
            if key is None or sk in keys_seen:
                continue
            keys_seen.add(sk)
            if key not in closure:
                closure.append(key)
            trs = cs.traces(key, side) or []
            for tr in trs:
                for e in tr.events:
                    t = subst(e.ty, sub)
                    if t and t not in PRIM and t != "raw":
                        todo.append(t)
    ctx.floor("codec:closure", len(closure), 15, "wire types reachable from Message")

    ARMS = {MSG: arms_message, "radicle::node::Address": arms_address}
    for key in sorted(closure):
        m = cs.impls[key]
        tag = short_t(key)
        if "enc" not in m or "dec" not in m:
            # one-sided impls (`str`, `[T]`, `[u8; T]`) are compared through the types that use them
            continue
        fe, fd = m["enc"], m["dec"]
        te, td = cs.traces(key, "enc"), cs.traces(key, "dec")
        if te is None or td is None:
            ctx.ob("codec:%s" % tag, "inconclusive", "too many paths to enumerate", rules.where(fe), fn=fe)
            continue
        se, le = codec.split_loops(te)
        sd, ld = codec.split_loops(td)
        if key in ARMS:
            ARMS[key](ctx, cs, key, se, sd)
            continue
        if key == "radicle_node::wire::varint::VarInt":
            continue
        ke = set(tuple(t.types()) for t in se)
        kd = set(tuple(t.types()) for t in sd)
        if len(ke) != 1 or len(kd) != 1:
            if key == "radicle_node::service::message::NodeAnnouncement" and len(ke) == 1 and len(kd) == 1:
                pass
            else:
                ctx.ob("codec:%s" % tag, "inconclusive", "several distinct success shapes and no arm rule for this type (enc %d, dec %d)" % (len(ke), len(kd)),
                       rules.where(fe), fn=fe)
                continue
        tre, trd = se[0], sd[0]
        if le or ld:
            if not (le and ld):
                # one side delegates (e.g. BoundedVec::encode -> <[T]>::encode): compare at byte level
                fa, fb = flat(cs, key, "enc"), flat(cs, key, "dec")
                if any(isinstance(x, tuple) and x[0] in ("?", "arms") for x in fa + fb):
                    ctx.ob("codec:%s:loop" % tag, "inconclusive", "one side loops, the other delegates to a shape that is not modelled", rules.where(fd), fn=fd)
                else:
                    ctx.check("codec:%s:loop" % tag, flat_eq(fa, fb), "%s: encoder and decoder agree at byte level (%s / %s)" % (tag, fa, fb), rules.where(fd), fn=fd)
                continue
            he, hd = sorted(le)[0], sorted(ld)[0]
            lte, ltd = le[he][0], ld[hd][0]
            parts = (("prefix", codec.pre_events(lte, he), codec.pre_events(ltd, hd)),
                     ("item", codec.body_events(lte), codec.body_events(ltd)))
            for nm, ee, dd in parts:
                if nm == "item":
                    # a run of single bytes may be read/written one by one or in chunks: both are a raw byte run
                    fe_ = [x for e_ in ee for x in flat(cs, e_.ty, "enc")]
                    fd_ = [x for e_ in dd for x in flat(cs, e_.ty, "dec")]
                    def _bytes(x):
                        return len(x) == 1 and isinstance(x[0], str) and (x[0] == "u8" or x[0].startswith("raw"))
                    if _bytes(fe_) and _bytes(fd_):
                        ctx.held("codec:%s:%s" % (tag, nm), "%s: both sides treat the sequence as a run of bytes" % tag, rules.where(fd), fn=fd)
                        continue
                st, msg = cmp_seq(cs, ee, dd)
                _rep(ctx, "codec:%s:%s" % (tag, nm), st, "%s: encoder and decoder agree on the %s of the length-prefixed sequence" % (tag, nm), msg, fd)
            continue
        st, msg = cmp_seq(cs, tre.events, trd.events)
        _rep(ctx, "codec:%s:sequence" % tag, st, "%s: encoder writes and decoder reads the same wire types in the same order %s" % (tag, short_l(tre.types())), msg, fd)
        # field binding by position
        df = dec_fields(fd, trd)
        nb = 0
        okb = True
        why = ""
        for i, e in enumerate(tre.events):
            f = enc_field(e)
            if f is None or i not in df:
                continue
            nb += 1
            if f not in df[i]:
                okb = False
                why = "value read at position %d fills %s but the encoder writes field `%s` there" % (i, sorted(df[i]), f)
        if nb:
            ctx.check("codec:%s:fields" % tag, okb, "%s: the field written at each position is the field the decoder fills from that position (%d bound)" % (tag, nb),
                      rules.where(fd), detail=why, fn=fd)

    # ---------------------------------------------------------------- optional trailing user agent (documented exception)
    na = cs.impls.get("radicle_node::service::message::NodeAnnouncement")
    if na and "dec" in na:
        trs = cs.traces("radicle_node::service::message::NodeAnnouncement", "dec") or []
        extra = [t for t in trs if any(v == "Err" for _, v, _ in t.conds)]
        okx = all(any("is_eof" in e_ and v == "true" for e_, v, _ in t.conds) and any("UserAgent" in e_ for e_, v, _ in t.conds) for t in extra)
        ctx.check("codec:NodeAnnouncement:optional-agent", okx and len(extra) <= 1,
                  "the only decode error that is tolerated is end-of-input while reading the trailing user agent (documented exception)",
                  rules.where(na["dec"]), fn=na["dec"])

    tag_tables(ctx, cs)
    no_discard(ctx, cs, closure)
    transforms(ctx, cs, closure)
    short_reads(ctx)
    sizes(ctx, cs)


def _rep(ctx, key, st, what, msg, fn):
    if st is True:
        ctx.held(key, what, rules.where(fn), fn=fn)
    elif st is False:
        ctx.violated(key, what + " — " + msg, rules.where(fn), fn=fn)
    else:
        ctx.ob(key, "inconclusive", what + " — " + msg, rules.where(fn), fn=fn)


# ------------------------------------------------------------------ arms
def _cond_variant(tr, needle):
    for e, v, p in tr.conds:
        if needle in e and p and v not in ("Ok", "Err", "Some", "None", "true", "false", "cmp"):
            return v
    return None


def arms_address(ctx, cs, key, se, sd):
    fe, fd = cs.fn(key, "enc"), cs.fn(key, "dec")
    enc = {}
    for t in se:
        m = re.search(r"AddressType::(\w+)\{\}", t.events[0].text) if t.events else None
        if m:
            enc[m.group(1)] = t
    dec = {}
    for t in sd:
        v = _cond_variant(t, "TryFrom<u8>>::try_from")
        if v:
            dec[v] = t
    ctx.floor("codec:Address:arms", min(len(enc), len(dec)), 4, "Address encoder/decoder arms keyed by address type")
    ctx.check("codec:Address:arms:same", set(enc) == set(dec), "encoder and decoder handle the same address types (%s / %s)" % (sorted(enc), sorted(dec)), rules.where(fd), fn=fd)
    HOST = {"Ipv4": ("Ip", "V4"), "Ipv6": ("Ip", "V6"), "Dns": ("Dns",), "Onion": ("Tor",)}
    for v in sorted(set(enc) & set(dec)):
        st, msg = cmp_seq(cs, enc[v].events, dec[v].events)
        _rep(ctx, "codec:Address:%s:sequence" % v, st, "Address/%s: same wire types in the same order %s" % (v, short_l(enc[v].types())), msg, fd)
        # the host kind written under this tag is the host kind rebuilt from it
        ev = tuple(x for _, x, p in enc[v].conds if p and x in ("Ip", "V4", "V6", "Dns", "Tor"))
        built = set()
        for bb in dec[v].path:
            for s in fd["blocks"][bb]["s"]:
                if s[0] == "=" and s[2][0] == "agg" and isinstance(s[2][1], dict) and s[2][1].get("var") in ("Ip", "V4", "V6", "Dns", "Tor"):
                    built.add(s[2][1]["var"])
        ctx.check("codec:Address:%s:variant" % v, set(ev) == built == set(HOST.get(v, ())),
                  "Address/%s: the tag is written for %s and the decoder rebuilds %s under it" % (v, ev, sorted(built)), rules.where(fd), fn=fd)


def arms_message(ctx, cs, key, se, sd):
    db = ctx.db
    fe, fd = cs.fn(key, "enc"), cs.fn(key, "dec")
    # type_id: (self variant[, announcement kind]) -> MessageType
    tid = db.one(r"^radicle_node::wire::message::type_id$") or next(iter(db.find(r"Message>::type_id$|Message::type_id$")), None)
    table = {}
    if tid is None:
        ctx.violated("anchor:type_id", "Message::type_id not found")
        return
    for t in codec.traces(db, tid) or []:
        vs = tuple(v for e, v, p in t.conds if p and v not in ("Ok", "Err", "true", "false", "cmp"))
        built = None
        for bb in t.path:
            for s in tid["blocks"][bb]["s"]:
                if s[0] == "=" and s[2][0] == "agg" and isinstance(s[2][1], dict) and s[2][1].get("adt", "").endswith("MessageType"):
                    built = s[2][1]["var"]
        table[vs] = built
    ctx.floor("tags:type_id", len(table), 7, "Message::type_id arms")
    EXPECT = {("Subscribe",): "Subscribe", ("Announcement", "Node"): "NodeAnnouncement", ("Announcement", "Inventory"): "InventoryAnnouncement",
              ("Announcement", "Refs"): "RefsAnnouncement", ("Info",): "Info", ("Ping",): "Ping", ("Pong",): "Pong"}
    for k, v in sorted(EXPECT.items()):
        ctx.check("tags:type_id:%s" % "/".join(k), table.get(k) == v, "Message::type_id maps %s to MessageType::%s (found %s)" % ("/".join(k), v, table.get(k)),
                  rules.where(tid), fn=tid)
    ctx.check("tags:type_id:injective", len(set(table.values())) == len(table), "Message::type_id gives distinct tags to distinct variants", rules.where(tid), fn=tid)
    # the encoder writes type_id first, as u16
    okf = all(t.events and t.events[0].ty == "u16" and "type_id(arg1)" in t.events[0].text for t in se)
    ctx.check("codec:Message:tag-first", okf and len(se) >= 5, "every Message encoding starts with its u16 type id", rules.where(fe), fn=fe)
    enc = {}
    for t in se:
        v = next((x for e, x, p in t.conds if e == "arg1" and p), None)
        if v:
            enc[v] = t
    dec = {}
    for t in sd:
        v = _cond_variant(t, "TryFrom<u16>>::try_from")
        if v:
            dec[v] = t
    ctx.floor("codec:Message:arms", min(len(enc) + 2, len(dec)), 7, "Message arms")
    ann = cs.traces("radicle_node::service::message::AnnouncementMessage", "enc") or []
    ann_ty = {}
    for t in ann:
        v = next((x for e, x, p in t.conds if p), None)
        if v and t.events:
            ann_ty[v] = t.events[0].ty
    BUILT = {"Subscribe": "Subscribe", "Info": "Info", "Ping": "Ping", "Pong": "Pong"}
    for k, mt in sorted(EXPECT.items()):
        et = enc.get(k[0])
        dt = dec.get(mt)
        nm = "/".join(k)
        if et is None or dt is None:
            ctx.violated("codec:Message:%s:arm" % nm, "no encoder or decoder arm for %s" % nm, rules.where(fd), fn=fd)
            continue
        ee = list(et.events)
        if len(k) == 2:
            inner = ann_ty.get(k[1])
            ee = [codec.Event((e.kind, inner if e.ty.endswith("AnnouncementMessage") else e.ty, e.text, e.bb)) for e in ee]
        st, msg = cmp_seq(cs, ee, dt.events)
        _rep(ctx, "codec:Message:%s:sequence" % nm, st, "Message/%s: encoder writes and decoder (tag %s) reads the same wire types in the same order %s" % (nm, mt, short_l([e.ty for e in ee])), msg, fd)
        # what the decoder builds under this tag
        built = set()
        for bb in dt.path:
            b = fd["blocks"][bb]
            for s in b["s"]:
                if s[0] == "=" and s[2][0] == "agg" and isinstance(s[2][1], dict) and s[2][1].get("adt", "").endswith("message::Message"):
                    built.add(s[2][1]["var"])
            tt = b["t"]
            if tt[0] == "call":
                n = tt[1].get("da") or tt[1].get("n") or ""
                m = re.search(r"<radicle_node::service::message::(\w+) as core::convert::Into<radicle_node::service::message::AnnouncementMessage>>::into", n) or \
                    re.search(r"AnnouncementMessage as core::convert::From<radicle_node::service::message::(\w+)>>::from", n)
                if m:
                    # which variant does From<X> for AnnouncementMessage build?
                    ff = db.one(r"^<radicle_node::service::message::AnnouncementMessage as core::convert::From<radicle_node::service::message::%s>>::from$" % m.group(1))
                    if ff is not None:
                        for bb2, j2, k2, ops2 in rules.agg_sites(ff, r"message::AnnouncementMessage$"):
                            built.add("ann:" + k2["var"])
                if re.search(r"Message as core::convert::From<radicle_node::service::message::Announcement>>::from", n) or \
                        re.search(r"Announcement as core::convert::Into<radicle_node::service::message::Message>>::into", n):
                    built.add("Announcement")
        if len(k) == 1:
            okb = built == {k[0]}
        else:
            okb = built == {"Announcement", "ann:" + k[1]}
        ctx.check("codec:Message:%s:variant" % nm, okb, "Message/%s: the decoder arm for tag %s rebuilds that variant (%s)" % (nm, mt, sorted(built)), rules.where(fd), fn=fd)
        # field binding
        df = dec_fields(fd, dt)
        nb, okf2, why = 0, True, ""
        for i, e in enumerate(ee):
            f = enc_field(e)
            if f is None or i not in df:
                continue
            nb += 1
            if f not in df[i]:
                okf2 = False
                why = "value read at position %d fills %s but the encoder writes `%s` there" % (i, sorted(df[i]), f)
        if nb:
            ctx.check("codec:Message:%s:fields" % nm, okf2, "Message/%s: fields are read back in the order they are written (%d bound)" % (nm, nb), rules.where(fd), detail=why, fn=fd)


# ------------------------------------------------------------------ tags
def tag_tables(ctx, cs):
    db = ctx.db
    T = [("radicle_node::wire::message::MessageType", "u16", 7), ("radicle_node::wire::message::AddressType", "u8", 4),
         ("radicle_node::wire::message::InfoType", "u16", 1)]
    for path, ity, floor in T:
        nm = path.split("::")[-1]
        to_int = as_int_table(db, path)
        tf = db.one(r"^<%s as core::convert::TryFrom<%s>>::try_from$" % (re.escape(path), ity))
        fr = db.one(r"^<%s as core::convert::From<%s>>::from$" % (ity, re.escape(path)))
        if not to_int or tf is None or fr is None:
            ctx.violated("tags:%s:anchor" % nm, "tag enum %s or its conversions not found" % nm)
            continue
        ctx.floor("tags:%s" % nm, len(to_int), floor, "variants of %s" % nm)
        # From<E> for int is the discriminant cast
        is_cast = any(s[0] == "=" and s[2][0] == "cast" for b in fr["blocks"] for s in b["s"]) and \
            any(s[0] == "=" and s[2][0] == "discr" for b in fr["blocks"] for s in b["s"]) and len([1 for _ in db.calls(fr)]) == 0
        ctx.check("tags:%s:as" % nm, is_cast, "%s -> %s is the discriminant cast" % (nm, ity), rules.where(fr), fn=fr)
        from_int = int_switch_table(db, tf, re.escape(path) + "$")
        if from_int is None:
            ctx.ob("tags:%s:try_from" % nm, "inconclusive", "TryFrom<%s> for %s is not a plain integer match" % (ity, nm), rules.where(tf), fn=tf)
            continue
        inv = {v: k for k, v in from_int.items()}
        ok = len(inv) == len(from_int) and inv == to_int
        ctx.check("tags:%s:inverse" % nm, ok, "TryFrom<%s> for %s inverts the discriminant values exactly (%s vs %s)" % (ity, nm, sorted(from_int.items()), sorted(to_int.items())),
                  rules.where(tf), fn=tf)
    # control codes
    ckey = "radicle_node::wire::frame::Control"
    if ckey in cs.impls and "enc" in cs.impls[ckey] and "dec" in cs.impls[ckey]:
        fe, fd = cs.fn(ckey, "enc"), cs.fn(ckey, "dec")
        enc = {}
        for t in cs.traces(ckey, "enc") or []:
            v = next((x for e, x, p in t.conds if e == "arg1" and p), None)
            val = None
            if t.events:
                tt = fe["blocks"][t.events[0].bb]["t"]
                e0 = peel(expr_operand(fe, tt[2][0]))
                while e0[0] in ("ref", "deref"):
                    e0 = peel(e0[1])
                if e0[0] == "const":
                    c = e0[1]
                    if "v" in c:
                        val = int(c["v"])
                    elif c.get("cn") in db.consts and db.consts[c["cn"]].get("v") is not None:
                        val = int(db.consts[c["cn"]]["v"])
            if v:
                enc[v] = (val, t)
        dec = {}
        t0 = None
        for bb, b in enumerate(fd["blocks"]):
            tt = b["t"]
            if tt[0] == "switch" and not b.get("c"):
                e = peel(expr_operand(fd, tt[1]))
                if "u8 as radicle_node::wire::Decode>::decode" in nshow(e) and len(tt[2]) >= 2:
                    t0 = (bb, tt)
        if t0:
            bb, tt = t0
            others = [x[1] for x in tt[2]] + [tt[3]]
            for v, tb in tt[2]:
                built = None
                for b2 in graph(fd).reach([tb], avoid_blocks=[o for o in others if o != tb]):
                    for s in fd["blocks"][b2]["s"]:
                        if s[0] == "=" and s[2][0] == "agg" and isinstance(s[2][1], dict) and s[2][1].get("adt", "").endswith("frame::Control"):
                            built = s[2][1]["var"]
                dec[int(v)] = built
        ok = bool(enc) and bool(dec) and all(val is not None and dec.get(val) == v for v, (val, _) in enc.items()) and len(dec) == len(enc)
        ctx.check("tags:Control:inverse", ok, "control codes written per variant select the decoder arm that rebuilds the same variant (%s / %s)" % (
            sorted((v, x[0]) for v, x in enc.items()), sorted(dec.items())), rules.where(fd), fn=fd)
        for v, (val, t) in sorted(enc.items()):
            dt = None
            for t2 in cs.traces(ckey, "dec") or []:
                if any(s[0] == "=" and s[2][0] == "agg" and isinstance(s[2][1], dict) and s[2][1].get("adt", "").endswith("frame::Control") and s[2][1].get("var") == v
                       for b2 in t2.path for s in fd["blocks"][b2]["s"]):
                    dt = t2
            if dt is not None:
                st, msg = cmp_seq(cs, t.events, dt.events)
                _rep(ctx, "codec:Control:%s:sequence" % v, st, "Control/%s: same wire types in the same order" % v, msg, fd)
    # Info: single variant, tag written from InfoType::from(self)
    ik = "radicle_node::service::message::Info"
    if ik in cs.impls:
        fe = cs.fn(ik, "enc")
        te = cs.traces(ik, "enc") or []
        ok = bool(te) and all(t.events and "InfoType" in t.events[0].text and t.events[0].ty == "u16" for t in te)
        ctx.check("tags:Info:tag-first", ok, "Info encodings start with the u16 info type derived from the value", rules.where(fe), fn=fe)


# ------------------------------------------------------------------ INJ: a decoder must use what it reads
def no_discard(ctx, cs, closure):
    db = ctx.db
    n = 0
    for key in sorted(closure):
        m = cs.impls[key]
        if "dec" not in m:
            continue
        fd = m["dec"]
        g = graph(fd)
        for bb, t, c in db.calls(fd):
            ev = codec.call_event(fd, bb, t)
            if ev is None or ev.kind != "dec" or ev.ty == "raw":
                continue
            n += 1
            dest = t[3][0]
            used = _value_used(fd, dest, set())
            k = "inj:%s:%s:%d" % (short_t(key), short_t(ev.ty), _ordinal(db, fd, bb))
            if used:
                ctx.held(k, "the %s read by %s::decode is used" % (short_t(ev.ty), short_t(key)), rules.where(fd, bb), fn=fd)
            else:
                ctx.violated(k, "%s::decode reads a %s from the wire and discards it: different byte strings decode to the same value, "
                                "so re-encoding a decoded message need not reproduce the received bytes" % (short_t(key), short_t(ev.ty)),
                             rules.where(fd, bb), fn=fd)
    ctx.floor("inj:reads", n, 25, "decoder reads checked for use")
    # bytes read into a buffer must be looked at (or returned) before the buffer is refilled or dropped
    nr = 0
    for key in sorted(closure):
        m = cs.impls[key]
        if "dec" not in m:
            continue
        fd = m["dec"]
        for bb, t, c in db.calls(fd):
            ev = codec.call_event(fd, bb, t)
            if ev is None or ev.kind != "dec" or ev.ty != "raw" or len(t[2]) < 2:
                continue
            nr += 1
            k = "inj:%s:raw:%d" % (short_t(key), _ordinal(db, fd, bb))
            r = _raw_read_used(db, fd, bb, t)
            if r is None:
                ctx.held(k, "the bytes %s::decode reads into its buffer are used before the buffer is refilled or dropped" % short_t(key), rules.where(fd, bb), fn=fd)
            else:
                ctx.violated(k, "%s::decode reads bytes into a buffer and %s without looking at them: different byte strings decode to the same value"
                             % (short_t(key), r), rules.where(fd, bb), fn=fd)
    ctx.floor("inj:raw-reads", nr, 2, "raw reads checked for use")


REFILL = re.compile(r"io::Read::(read_exact|read|read_to_end|read_to_string)$|ops::index::(Index|IndexMut)::(index|index_mut)$|"
                    r"ops::deref::(Deref|DerefMut)::(deref|deref_mut)$|::as_mut_slice$|::as_mut$|slice::.*::len$|::len$|Ord::min$|Ord::max$")


def _raw_read_used(db, fn, rb, t):
    """None if the buffer filled at block rb is genuinely used on every path before it is refilled / the function returns;
    otherwise a short description of what happens to the bytes."""
    from .. import flow as _flow
    root = _flow.root_place(fn, t[2][1])
    for _ in range(6):
        if root is None:
            return None
        ds = graph(fn).defs().get(root[0], [])
        if len(ds) == 1 and ds[0][0] == "call" and ds[0][2][2] and \
                re.search(r"(IndexMut|Index)::(index_mut|index)$|DerefMut::deref_mut$|::as_mut_slice$|::as_mut$", ds[0][2][1].get("dn") or ds[0][2][1].get("n") or ""):
            root = _flow.root_place(fn, ds[0][2][2][0])
            continue
        break
    if root is None:
        return None
    L = root[0]
    # locals derived from L (borrows, slices of it)
    der = {L}
    changed = True
    while changed:
        changed = False
        for b in fn["blocks"]:
            if b.get("c"):
                continue
            for s in b["s"]:
                if s[0] == "=" and not s[1][1] and s[1][0] not in der:
                    for pl in _rv_reads(s[2]):
                        if pl[0] in der and (s[2][0] in ("ref", "raw", "use") or (s[2][0] == "cast" and "&" in fn["locals"][s[1][0]][0])):
                            der.add(s[1][0])
                            changed = True
            tt = b["t"]
            if tt[0] == "call" and tt[3][0] not in der and not tt[3][1] and (REFILL.search(tt[1].get("n") or "") or REFILL.search(tt[1].get("dn") or "")) and \
                    any(a[0] in ("c", "m") and a[1][0] in der for a in tt[2]) and "&" in fn["locals"][tt[3][0]][0]:
                der.add(tt[3][0])
                changed = True
    uses = set()
    refills = set()
    for i, b in enumerate(fn["blocks"]):
        if b.get("c"):
            continue
        for s in b["s"]:
            if s[0] != "=":
                continue
            reads = [pl for pl in _rv_reads(s[2]) if pl[0] in der]
            if not reads:
                continue
            if s[2][0] in ("ref", "raw") or (s[2][0] in ("use", "cast") and s[1][0] in der and not s[1][1]):
                continue        # just another borrow / alias
            if s[2][0] == "discr" or s[2][0] in ("len", "ptrmeta"):
                continue
            uses.add(i)
        tt = b["t"]
        if tt[0] == "call" and any(a[0] in ("c", "m") and a[1][0] in der for a in tt[2]):
            n = tt[1].get("n") or ""
            dn = tt[1].get("dn") or ""
            if re.search(r"io::Read::(read_exact|read|read_to_end|read_to_string)$", dn) or re.search(r"io::Read::(read_exact|read|read_to_end|read_to_string)$", n):
                refills.add(i)
            elif not REFILL.search(n) and not REFILL.search(dn) and not n.endswith("drop_in_place") and not n.endswith("mem::drop"):
                uses.add(i)
    g = graph(fn)
    nxt = [tb for tb, lab in g.succ[rb]]
    # error exits discard everything anyway: stop at `?` residual conversions and explicit `Err(..)` returns
    errs = set(i for i, b in enumerate(fn["blocks"]) if not b.get("c") and b["t"][0] == "call" and
               (b["t"][1].get("dn") or "").endswith("FromResidual::from_residual"))
    errs |= set(bb for bb, j, k, ops in rules.agg_sites(fn, r"^core::result::Result$", "Err") if fn["blocks"][bb]["s"][j][1][0] == 0)
    seen = g.reach(nxt, avoid_blocks=uses | errs)
    if any(r in seen for r in refills):
        return "refills the buffer"
    if any(r in seen for r in rules.ret_blocks(fn)):
        # a return is fine if the buffer itself is what is returned (moved into _0): that is a use and was excluded above
        return "returns"
    return None


def _ordinal(db, fn, bb):
    return sorted(b for b, t, c in db.calls(fn)).index(bb)


def _value_used(fn, local, seen, depth=0):
    """Does the value in `local` (a Result/Try wrapper chain of a decode call) reach anything other than
    drops / discriminant tests / error propagation?"""
    if local in seen or depth > 12:
        return False
    seen.add(local)
    for b in fn["blocks"]:
        if b.get("c"):
            continue
        for s in b["s"]:
            if s[0] != "=":
                continue
            rv = s[2]
            srcs = _rv_reads(rv)
            for pl in srcs:
                if pl[0] != local:
                    continue
                if rv[0] == "discr":
                    continue
                proj = pl[1]
                if any(p.startswith("@") and ("Break" in p or "Err" in p) for p in proj):
                    continue
                # moved/copied/borrowed into another local: follow; anything else (cast, binop, aggregate) is a use
                if rv[0] in ("use", "ref", "raw") and not s[1][1] and s[1][0] != 0:
                    if _value_used(fn, s[1][0], seen, depth + 1):
                        return True
                    continue
                return True
        t = b["t"]
        if t[0] == "call":
            for a in t[2]:
                if a[0] in ("c", "m") and a[1][0] == local:
                    dn = t[1].get("dn") or ""
                    if dn.endswith("Try::branch") or dn.endswith("Result::map_err") or dn.endswith("Result::ok") or dn.endswith("Into::into") or dn.endswith("From::from"):
                        if _value_used(fn, t[3][0], seen, depth + 1):
                            return True
                        continue
                    if dn.endswith("FromResidual::from_residual") or dn.endswith("mem::drop") or dn.endswith("drop_in_place"):
                        continue
                    return True
        elif t[0] == "switch":
            op = t[1]
            if op[0] in ("c", "m") and op[1][0] == local:
                return True
    return False


def _rv_reads(rv):
    k = rv[0]
    out = []
    ops = []
    if k == "use":
        ops = [rv[1]]
    elif k in ("ref", "raw"):
        return [rv[2]]
    elif k == "discr":
        return [rv[1]]
    elif k == "cast":
        ops = [rv[2]]
    elif k == "bin":
        ops = [rv[2], rv[3]]
    elif k == "un":
        ops = [rv[2]]
    elif k == "agg":
        ops = list(rv[2])
    elif k == "repeat":
        ops = [rv[1]]
    elif k in ("len", "ptrmeta"):
        return [rv[1]] if isinstance(rv[1], list) else []
    for o in ops:
        if o[0] in ("c", "m"):
            out.append(o[1])
    return out


# ------------------------------------------------------------------ SIZE
def const_val(db, name):
    c = db.consts.get(name)
    if c and c.get("v") is not None:
        return int(c["v"])
    return None


def sizes(ctx, cs):
    db = ctx.db
    C = {}
    for nm in ("radicle_node::service::message::INVENTORY_LIMIT", "radicle_node::service::message::REF_REMOTE_LIMIT",
               "radicle_node::service::message::ADDRESS_LIMIT", "radicle_node::service::filter::FILTER_SIZE_L",
               "radicle_node::service::message::Ping::MAX_PING_ZEROES", "radicle_node::service::message::Ping::MAX_PONG_ZEROES"):
        v = const_val(db, nm)
        if v is None:
            alt = [k for k in db.consts if k.endswith("::" + nm.split("::")[-1])]
            v = const_val(db, alt[0]) if len(alt) == 1 else None
        C[nm.split("::")[-1]] = v
    missing = [k for k, v in C.items() if v is None]
    if missing:
        ctx.violated("size:constants", "limits not found in the fact base: %s" % missing)
        return
    memo = {}

    def bound(ty, depth=0):
        """Upper bound of the encoded size of a wire type (encoder side), or None."""
        ty = codec.norm_type(ty)
        if ty in memo:
            return memo[ty]
        if ty in PRIM:
            return PRIM[ty]
        if depth > 10:
            return None
        head, args = split_type(ty)
        r = None
        if head == "[;]" and args[0] == "u8" and args[1].isdigit():
            r = int(args[1])
        elif ty in ("str", "alloc::string::String", "radicle::node::Alias", "radicle::node::UserAgent", "git_ref_format_core::name::RefString"):
            r = 1 + 255          # u8 length prefix: the encoder asserts len <= 255
        elif ty == "radicle_git_ext::oid::Oid":
            r = 2 + 20
        elif ty == "radicle_node::service::filter::Filter":
            r = 2 + C["FILTER_SIZE_L"]
        elif head == "radicle_node::bounded::BoundedVec" and len(args) == 2 and args[1].isdigit():
            b = bound(args[0], depth + 1)
            r = None if b is None else 2 + int(args[1]) * b
        elif ty == "radicle_node::service::message::ZeroBytes":
            r = None
        else:
            key, sub = cs.lookup(ty, "enc")
            if key is not None:
                trs = cs.traces(key, "enc") or []
                straight, loops = codec.split_loops(trs)
                if straight and not loops:
                    best = 0
                    for t in straight:
                        tot = 0
                        for e in t.events:
                            b = bound(subst(e.ty, sub), depth + 1)
                            if b is None:
                                tot = None
                                break
                            tot += b
                        if tot is None:
                            best = None
                            break
                        best = max(best, tot)
                    r = best
        memo[ty] = r
        return r

    fe = cs.fn(MSG, "enc")
    ann = {}
    for t in cs.traces("radicle_node::service::message::AnnouncementMessage", "enc") or []:
        v = next((x for e, x, p in t.conds if p), None)
        if v and t.events:
            ann[v] = t.events[0].ty
    n = 0
    for t in cs.traces(MSG, "enc") or []:
        v = next((x for e, x, p in t.conds if e == "arg1" and p), None)
        if v is None:
            continue
        variants = [(v, None)]
        if v == "Announcement":
            variants = [(v + "/" + k, ty) for k, ty in sorted(ann.items())]
        for nm, inner in variants:
            tot = 0
            unknown = None
            for e in t.events:
                ty = inner if (inner and e.ty.endswith("AnnouncementMessage")) else e.ty
                if ty.endswith("ZeroBytes"):
                    b = 2 + (C["MAX_PING_ZEROES"] if v == "Ping" else C["MAX_PONG_ZEROES"])
                else:
                    b = bound(ty)
                if b is None:
                    unknown = ty
                    break
                tot += b
            n += 1
            if unknown:
                ctx.ob("size:Message:%s" % nm, "inconclusive", "no size bound for %s" % short_t(unknown), rules.where(fe), fn=fe)
            else:
                ctx.check("size:Message:%s" % nm, tot <= SIZE_MAX, "Message/%s encodes in at most %d bytes (limit %d)" % (nm, tot, SIZE_MAX), rules.where(fe), fn=fe)
    ctx.floor("size:variants", n, 7, "Message variants sized")
    # ping/pong paddings are only built within their limits
    zsites = [(f, bb) for f, bb in db.call_sites(r"^radicle_node::service::message::ZeroBytes::new$")]
    ctx.floor("size:ZeroBytes::new", len(zsites), 2, "ZeroBytes::new call sites")
    for f, bb in zsites:
        rk = db.root_of(f)["key"]
        t = f["blocks"][bb]["t"]
        a = nshow(expr_operand(f, t[2][0]))
        key = "size:zeroes:%s:%d" % (cfg.short(rk), _ordinal(db, f, bb))
        if rk.endswith("ZeroBytes as radicle_node::wire::Decode>::decode"):
            ctx.held(key, "decoded padding is bounded by the frame it arrived in", rules.where(f, bb), fn=f)
            continue
        lim_max = max(C["MAX_PING_ZEROES"], C["MAX_PONG_ZEROES"])
        m = re.search(r"Rng::u16\(.*Range\{(\d+), (\d+)\}\)", a)
        if m:
            # Ping::new draws both lengths; the padding sent is bounded by the ping limit (exclusive range)
            ctx.check(key, int(m.group(2)) - 1 <= C["MAX_PING_ZEROES"], "padding length is drawn below the ping limit (%s)" % a[:100], rules.where(f, bb), fn=f)
            continue
        if re.match(r"^\d+$", a):
            ctx.check(key, int(a) <= lim_max, "constant padding length %s within the limit" % a, rules.where(f, bb), fn=f)
            continue
        # otherwise: a branch must have established value <= MAX_PONG_ZEROES

        def bounded(x):
            if x[0] != "cmp":
                return False
            l, r = nshow(x[2]), nshow(x[3])
            if x[1] in ("Le", "Lt") and l == a and re.match(r"^\d+$", r):
                return int(r) - (1 if x[1] == "Lt" else 0) <= C["MAX_PONG_ZEROES"]
            if x[1] in ("Ge", "Gt") and r == a and re.match(r"^\d+$", l):
                return int(l) - (1 if x[1] == "Gt" else 0) <= C["MAX_PONG_ZEROES"]
            return False
        ok, allow, bad = rules.dom_check(db, f, [bb], bounded)
        ctx.check(key, bool(ok and allow), "padding length taken from a peer is checked against the pong limit before use (%s)" % a[:80], rules.where(f, bb),
                  detail={"path": list(bad.values())[:1]}, fn=f)


# ------------------------------------------------------------------ transformations of decoded data
# What a decoder may do to a value it has read, between the read and the value it returns.  Anything else is an
# unreviewed transformation: if it maps two wire values to one in-memory value (normalisation, canonicalisation, case
# folding, trimming, clamping), re-encoding no longer reproduces the received bytes and signatures over them break.
CONVERSION_REVIEWED = {}
PLUMBING = re.compile(
    r"ops::try_trait::(Try|FromResidual)|^core::result::Result::(map_err|and_then|ok|expect|unwrap|map|ok_or|ok_or_else|is_ok|is_err)$|"
    r"^core::option::Option::(ok_or|ok_or_else|map|expect|unwrap|is_some|is_none|as_ref)$|"
    r"IntoIterator>?::into_iter$|Iterator>?::(next|collect|map|enumerate|zip|rev|by_ref|copied|cloned|sum|count|all|any)$|"
    r"ops::index::(Index|IndexMut)|ops::deref::(Deref|DerefMut)|^std::io::Read::(read_exact|read)$|^alloc::vec::from_elem$|"
    r"clone::Clone::clone$|borrow::(ToOwned::to_owned|Borrow::borrow)$|convert::AsRef::as_ref$|^core::mem::(take|replace|swap)$|"
    r"^alloc::(vec::Vec|collections::btree::(map::BTreeMap|set::BTreeSet)|collections::vec_deque::VecDeque|string::String)::"
    r"(new|with_capacity|push|push_str|insert|extend|extend_from_slice|len|is_empty|capacity|as_slice|as_mut_slice|as_str|as_bytes|into_bytes|into_boxed_slice|iter)$|"
    r"^core::slice::(len|is_empty|contains|iter|to_vec|starts_with)$|^core::str::(len|is_empty|as_bytes)$|"
    r"^core::panicking::|^core::fmt::|^alloc::fmt::|^log::|::is_eof$|^core::cmp::|^core::hint::|"
    r"^std::io::Read::(take|by_ref)$|^std::io::(error::)?Error::kind$|^<std::io::(error::)?ErrorKind as |^<std::io::Take<.*> as std::io::Read>::")
CONVERSION = re.compile(
    r" as core::convert::(From|TryFrom|Into|TryInto)<|^<T as core::convert::(Into|TryInto)<U>>::|"
    r"^core::num::(from_be_bytes|from_le_bytes|from_ne_bytes)$|^alloc::string::String::(from_utf8|from_utf8_lossy_NOT)$|^core::str::converts::from_utf8$|"
    r"^core::char::(from_u32|from_digit)$")
# external constructors that keep every input bit (reviewed by reading the dependency)
EXTERNAL_OK = {
    "cypheraddr::tor::OnionAddrV3::from_raw_bytes": "parses the 35 raw bytes (key, checksum, version) and keeps them",
    "git2::oid::Oid::from_bytes": "wraps the 20 bytes",
    "bloomy::bloom::BloomFilter::hashes": "reads a parameter of the filter (used in a size check), not a transformation of the returned value",
    "core::net::ip_addr::IpAddr::V4": "enum constructor", "core::net::ip_addr::IpAddr::V6": "enum constructor",
    "ec25519::ed25519::Signature::new": "wraps the 64 bytes", "ec25519::ed25519::PublicKey::new": "wraps the 32 bytes",
    "radicle_node::bounded::BoundedVec::push": "appends the element unchanged (fails when the bound is exceeded)",
    "radicle_node::bounded::BoundedVec::with_capacity": "allocation", "radicle_node::bounded::BoundedVec::capacity": "the bound",
}


def _is_constructor(db, callee, depth=0):
    """A workspace function that only builds a value out of its arguments (struct/enum constructor, accessor of a
    field, or a chain of those): every returned expression consists of aggregates, arguments, projections and constants."""
    from .. import pathsum
    if depth > 2:
        return False
    ss = pathsum.summaries(db, callee, 64)
    if not ss:
        return False

    def simple(e, d=0):
        if e is None or d > 12:
            return False
        e = peel(e)
        k = e[0]
        if k in ("arg", "const"):
            return True
        if k in ("field", "down", "cast"):
            return simple(e[1] if k != "cast" else e[2], d + 1)
        if k == "agg":
            if isinstance(e[1], dict) and e[1].get("closure"):
                return False
            return all(simple(x, d + 1) for x in e[2])
        if k == "call":
            nm = e[1].get("n") or e[1].get("dn") or ""
            if PLUMBING.search(nm) or CONVERSION.search(nm) or nm in EXTERNAL_OK:
                return all(simple(x, d + 1) for x in e[2])
            c2 = db.one("^" + re.escape(nm) + "$") if nm else None
            if c2 is not None and c2 is not callee and _is_constructor(db, c2, depth + 1):
                return all(simple(x, d + 1) for x in e[2])
            return False
        if k in ("bin", "un", "discr"):
            # arithmetic / comparisons on decoded data are computations, not constructors
            return k == "discr" or (k == "bin" and e[1] in ("Eq", "Ne", "Lt", "Le", "Gt", "Ge"))
        return False
    return all(simple(ret) for p, facts, ret in ss)


def transforms(ctx, cs, closure):
    db = ctx.db

    def operand_locals(x, acc):
        if isinstance(x, (list, tuple)):
            if len(x) == 2 and x[0] in ("c", "m") and isinstance(x[1], (list, tuple)) and len(x[1]) == 2 and isinstance(x[1][0], int):
                acc.add(x[1][0])
                return
            for y in x:
                operand_locals(y, acc)
    n = 0
    seen_keys = set()
    for key in sorted(closure):
        m = cs.impls[key]
        if "dec" not in m:
            continue
        fd = m["dec"]
        tainted = set()
        for bb, t, c in db.calls(fd):
            ev = codec.call_event(fd, bb, t)
            if ev is not None and ev.kind == "dec":
                tainted.add(t[3][0])
                if ev.ty == "raw" and len(t[2]) >= 2:
                    acc = set()
                    operand_locals(t[2][1], acc)
                    tainted |= acc
        changed = True
        while changed:
            changed = False
            for b in fd["blocks"]:
                if b.get("c"):
                    continue
                for s_ in b["s"]:
                    if s_[0] == "=":
                        acc = set()
                        operand_locals(s_[2], acc)
                        if s_[2][0] in ("ref", "raw"):
                            acc.add(s_[2][2][0])
                        elif s_[2][0] == "discr":
                            acc.add(s_[2][1][0])
                        if acc & tainted and s_[1][0] not in tainted and s_[1][0] != 0:
                            tainted.add(s_[1][0])
                            changed = True
                t = b["t"]
                if t[0] == "call":
                    acc = set()
                    operand_locals(t[2], acc)
                    if acc & tainted and t[3][0] not in tainted and t[3][0] != 0:
                        tainted.add(t[3][0])
                        changed = True
        for bb, t, c in db.calls(fd):
            acc = set()
            operand_locals(t[2], acc)
            if not (acc & tainted):
                continue
            ev = codec.call_event(fd, bb, t)
            if ev is not None:
                continue
            nm = c.get("n") or c.get("dn") or "?"
            dn = c.get("dn") or ""
            k = "inj:transform:%s:%s" % (short_t(key), cfg.short(nm))
            if k in seen_keys:
                continue
            seen_keys.add(k)
            n += 1
            if PLUMBING.search(nm) or PLUMBING.search(dn):
                ctx.held(k, "%s::decode passes decoded data through %s (plumbing)" % (short_t(key), cfg.short(nm)), rules.where(fd, bb), fn=fd)
                continue
            if CONVERSION.search(nm) or CONVERSION.search(dn):
                # a conversion implemented in the workspace must itself be a plain constructor: a hand-written `From` can normalise
                conv = db.one("^" + re.escape(c.get("rn") or nm) + "$") if (c.get("rn") or nm).startswith("<radicle") else None
                if conv is None or _is_constructor(db, conv) or (c.get("rn") or nm) in CONVERSION_REVIEWED:
                    ctx.held(k, "%s::decode passes decoded data through the conversion %s" % (short_t(key), cfg.short(nm)), rules.where(fd, bb), fn=fd)
                else:
                    ctx.violated(k, "%s::decode converts decoded data with %s, which is not a plain constructor (it computes on the value): if it "
                                    "normalises, two wire encodings decode to one value and the message does not re-encode to the bytes received"
                                 % (short_t(key), cfg.short(c.get("rn") or nm)), rules.where(conv), fn=conv)
                continue
            if nm in EXTERNAL_OK:
                ctx.held(k, "%s::decode passes decoded data through %s: %s" % (short_t(key), cfg.short(nm), EXTERNAL_OK[nm]), rules.where(fd, bb), fn=fd)
                continue
            callee = db.one("^" + re.escape(nm) + "$")
            if callee is not None and _is_constructor(db, callee):
                ctx.held(k, "%s::decode passes decoded data through the constructor/accessor %s" % (short_t(key), cfg.short(nm)), rules.where(fd, bb), fn=fd)
                continue
            if callee is not None:
                ctx.ob(k, "inconclusive", "%s::decode applies %s to decoded data; the function is not a plain constructor and is not in the reviewed list "
                       "(it must not map different wire values to the same value)" % (short_t(key), cfg.short(nm)), rules.where(fd, bb), fn=fd)
                continue
            ctx.violated(k, "%s::decode applies %s to decoded data before returning it: an unreviewed transformation — if it normalises the value "
                            "(two wire encodings, one in-memory value) the message no longer re-encodes to the bytes received and signatures over them fail"
                         % (short_t(key), cfg.short(nm)), rules.where(fd, bb), fn=fd)
    ctx.floor("inj:transforms", n, 20, "calls applied to decoded data in decoders")


def short_reads(ctx, prefix="inj"):
    """Shared with C14: a decoder that runs out of input must fail with an EOF error — that is how `Frame::decode` and
    `Deserializer::deserialize_next` tell a truncated message from a complete one.  `read_exact` guarantees it; a plain
    `Read::read` (directly or through `Take`) returns `Ok(0)` at end of input, so a loop that stops on `Ok(0)` accepts a
    short message as if it were complete."""
    db = ctx.db
    n = 0
    for fd in db.all_fns():
        if fd["crate"] != "radicle_node" or not re.search(r" as radicle_node::wire::Decode>::decode", db.root_of(fd)["key"]):
            continue
        for bb, t, c in db.calls(fd):
            nm = c.get("n") or c.get("dn") or ""
            if not re.search(r"^std::io::Read::(read|read_to_end|read_to_string|read_buf)$|as std::io::Read>::(read|read_to_end|read_to_string)$", nm):
                continue
            n += 1
            k = "%s:short-read:%s" % (prefix, short_t(re.sub(r"^<(.*) as radicle_node::wire::Decode>::decode.*$", r"\1", db.root_of(fd)["key"])))
            eof = any("UnexpectedEof" in json.dumps(b["s"]) + json.dumps(b["t"]) for b in fd["blocks"] if not b.get("c"))
            if eof:
                ctx.ob(k, "inconclusive", "the decoder reads with %s and mentions UnexpectedEof: whether every short read becomes that error is not decided" % cfg.short(nm),
                       rules.where(fd, bb), fn=fd)
            else:
                ctx.violated(k, "the decoder reads with %s, which returns Ok(0) at the end of the input instead of failing: a message that is shorter than it "
                                "declares is decoded as if it were complete (the framing layer relies on an EOF error to tell incomplete from complete)"
                             % cfg.short(nm), rules.where(fd, bb), fn=fd)
    ctx.ob("%s:short-read" % prefix, "held", "no wire decoder reads with a primitive that accepts a short read (%d flagged)" % n, "", sites=1) if n == 0 else None
