"""C12 — repository data is served only to peers allowed to see it (structural).

Decided: upload_pack is started only from Worker::_process, only after
Worker::is_authorized returned Ok for the same requester and the repository id
parsed from the request header; is_authorized returns Ok only if the seeding
policy is not `block` and the identity document is visible to the requester;
Doc::is_visible_to is true only for public repos, allow-listed peers or delegates. 
`Config::is_seeding` is accepted in place of the block test only while it is itself
the policy-row lookup.  The canonical identity head that `identity_doc()` reads is
recomputed by the fetch worker after every successful fetch."""
import re

from .. import cfg, rules, flow
from ..cfg import expr_operand, show, nshow, peel, peel_calls

UP = r"^radicle_node::worker::upload_pack::upload_pack$"
AUTH = r"^radicle_node::worker::Worker::is_authorized$"


def run(ctx):
    _run(ctx)
    from . import _worker
    _worker.identity_refresh(ctx, "auth")


def _run(ctx):
    db = ctx.db
    ctx.explanation = (
        "Decides structurally: who may call upload_pack; the call is dominated by is_authorized()=Ok on the same "
        "(remote, header.repo); is_authorized's Ok exit is dominated by !policy.is_block() and doc.is_visible_to(remote) "
        "for the policy/doc of that repo id; the decision tables of is_visible_to / is_block. No process is spawned and "
        "no stream write happens in _process outside upload_pack.")
    ctx.not_decided = "behaviour of git upload-pack itself; header parsing correctness (see C13 for panics)"
    ctx.rule_text = "WHO + DOM + FLOW + TABLE(bool functions)"

    # 1. WHO
    sites = [(fn, bb, None) for fn, bb in db.call_sites(UP)]
    rules.who(ctx, "who:upload_pack", "call of upload_pack::upload_pack", sites, [r"^radicle_node::worker::Worker::_process$"])
    ctx.floor("who:upload_pack", len(sites), 1, "upload_pack call sites")
    spawn = [(fn, bb, None) for fn, bb in db.call_sites(r"^std::process::Command::(spawn|output|status)$")
             if fn["crate"] == "radicle_node" and fn["unit"] == "radicle_node.rlib"]
    rules.who(ctx, "who:spawn", "process spawn in radicle-node", spawn,
              [UP, r"^radicle_node::worker::upload_pack::",
               # reviewed exception: `git gc` run after a completed *outgoing* fetch; takes no stream handle
               r"^radicle_node::worker::garbage::collect$"])
    ctx.floor("who:spawn", len(spawn), 1, "Command::spawn sites in radicle-node")

    pr = db.one(r"^radicle_node::worker::Worker::_process$")
    au = db.one(AUTH)
    if pr is None or au is None:
        ctx.violated("anchor:worker", "Worker::_process / is_authorized not found (anchor missing)")
        return
    ups = rules.call_blocks(pr, UP)
    ok, allow, bad = rules.dom_check(db, pr, ups, rules.is_variant(AUTH, "Ok"))
    ctx.check("dom:upload_pack", bool(ok and allow and ups), "upload_pack runs only after is_authorized(..) returned Ok",
              rules.where(pr, ups[0] if ups else None), detail={"path": list(bad.values())[:1]}, fn=pr)
    # same requester, same repo
    for ub in ups:
        ut = pr["blocks"][ub]["t"]
        u_remote = peel_calls(expr_operand(pr, ut[2][1]))
        u_header = flow.root_place(pr, ut[2][4])
        for ab in rules.call_blocks(pr, AUTH):
            at = pr["blocks"][ab]["t"]
            a_remote = peel_calls(expr_operand(pr, at[2][1]))
            a_rid = peel_calls(expr_operand(pr, at[2][2]))
            ctx.check("flow:same-remote", show(a_remote) == show(u_remote),
                      "is_authorized and upload_pack get the same requester", rules.where(pr, ab),
                      detail="%s vs %s" % (show(a_remote), show(u_remote)), fn=pr)
            rid_root = flow.root_place(pr, at[2][2])
            same = (a_rid[0] == "field" and a_rid[2] == "repo" and u_header is not None and rid_root is not None
                    and rid_root[0] == u_header[0])
            ctx.check("flow:same-repo", same,
                      "is_authorized checks header.repo of the header handed to upload_pack", rules.where(pr, ab),
                      detail="rid=%s root=%s header=%s" % (show(a_rid), rid_root, u_header), fn=pr)
            hdr = a_rid
            while hdr[0] in ("field", "down"):
                hdr = peel_calls(hdr[1])
            ctx.check("flow:header-from-request", cfg.callee_is(hdr, re.compile(r"pktline::git_request$")),
                      "the header is the one parsed from the peer's request", rules.where(pr, ab), detail=show(hdr), fn=pr)
    # no direct stream writes in _process
    wr = rules.call_blocks(pr, r"std::io::Write::(write|write_all|flush)$|ChannelWriter|ChannelsFlush::(send|flush)")
    ctx.check("excl:_process:writes", not wr, "_process itself never writes to the stream", rules.where(pr, wr[0] if wr else None), fn=pr)

    # 3. is_authorized table
    oks = [s[0] for s in rules.agg_sites(au, r"^core::result::Result$", "Ok")]
    ctx.floor("is_authorized:ok", len(oks), 1, "Ok exits of is_authorized")
    blk = r"^radicle::node::policy::SeedingPolicy::is_block$"
    vis = r"^radicle::identity::doc::Doc::is_visible_to$"
    # `is_seeding(rid)` is an acceptable way of saying "not blocked" as long as it is defined through the same policy lookup:
    # Config::is_seeding(rid) == seed_policy(rid).map(|e| e.policy.is_allow())  (SeedingPolicy is Allow | Block)
    seeding_rx = r"^radicle::node::policy::config::Config::is_seeding$"
    isd = db.one(seeding_rx)
    seeding_ok = False
    why_seeding = "Config::is_seeding not found"
    if isd is not None:
        fam = [isd] + db.closures_of.get(isd["n"], [])
        calls = [(c.get("n") or c.get("dn") or "") for f_ in fam for _, _, c in db.calls(f_)]
        has_lookup = any(c.endswith("Config::seed_policy") for c in calls)
        has_allow = any(c.endswith("SeedingPolicy::is_allow") for c in calls)
        extra = [c for c in calls if not re.search(r"Config::seed_policy$|SeedingPolicy::is_allow$|Result::map$|Result::and_then$|Try::branch$|Try>::branch$|from_residual$", c)]
        seeding_ok = has_lookup and has_allow and not extra
        why_seeding = "Config::is_seeding is seed_policy(rid).policy.is_allow()" if seeding_ok else \
            "Config::is_seeding is no longer just the policy lookup (calls: %s)" % sorted(set(cfg.short(c) for c in calls))

    def not_blocked(f):
        if rules.is_bool(blk, False)(f):
            return True
        return seeding_ok and f[0] == "bool" and f[2] is True and cfg.callee_is(cfg.base_value(f[1]), re.compile(seeding_rx))
    for label, pred in (("not-blocked", not_blocked), ("visible", rules.is_bool(vis, True))):
        ok, allow, bad = rules.dom_check(db, au, oks, pred)
        msg = "is_authorized returns Ok only if %s" % label
        if label == "not-blocked" and not (ok and allow) and rules.call_blocks(au, seeding_rx):
            msg += " — " + why_seeding
        ctx.check("dom:is_authorized:%s" % label, bool(ok and allow and oks), msg, rules.where(au, oks[0] if oks else None),
                  detail={"path": list(bad.values())[:1]}, fn=au)
    for bb in rules.call_blocks(au, seeding_rx):
        a_ = nshow(peel_calls(expr_operand(au, au["blocks"][bb]["t"][2][1])))
        ctx.check("flow:is_authorized:seeding-rid", a_ == "arg3", "the seeding test is about the requested repository (%s)" % a_, rules.where(au, bb), fn=au)
    for bb in rules.call_blocks(au, blk):
        e = peel_calls(expr_operand(au, au["blocks"][bb]["t"][2][0]))
        s = show(e)
        ok = "seed_policy" in s and "arg3" in s and ".policy" in s
        ctx.check("flow:is_authorized:policy", ok, "the policy tested is seed_policy(rid).policy for the requested rid",
                  rules.where(au, bb), detail=s, fn=au)
    for bb in rules.call_blocks(au, vis):
        t = au["blocks"][bb]["t"]
        d = show(peel_calls(expr_operand(au, t[2][0])))
        w = show(peel_calls(expr_operand(au, t[2][1])))
        ok = "identity_doc" in d and "repository" in d and "arg3" in d and w == "arg2"
        ctx.check("flow:is_authorized:doc", ok, "visibility is tested on the identity document of the requested rid, for the requester",
                  rules.where(au, bb), detail="doc=%s who=%s" % (d, w), fn=au)

    # 4. tables
    iv = db.one(vis)
    if iv is None:
        ctx.violated("anchor:is_visible_to", "Doc::is_visible_to not found")
    else:
        def public(f):
            return f[0] == "variant" and f[4] and f[3] == "Public"
        ok, problems, n = rules.true_only_if(
            db, iv,
            [public, rules.is_bool(r"BTreeSet::contains$", True), rules.is_bool(r"doc::Doc::is_delegate$", True)],
            allowed_calls=[r"^radicle::identity::doc::Doc::is_delegate$", r"BTreeSet::contains$"])
        ctx.check("table:is_visible_to", ok and n >= 2, "is_visible_to is true only for Public, allow-listed or delegate",
                  rules.where(iv), detail=problems, fn=iv)
        # the contains() is on the allow list and the argument
        for bb in rules.call_blocks(iv, r"BTreeSet::contains$"):
            t = iv["blocks"][bb]["t"]
            a = show(peel_calls(expr_operand(iv, t[2][0])))
            b = show(peel_calls(expr_operand(iv, t[2][1])))
            ctx.check("flow:is_visible_to:allow", "allow" in a and b == "arg2", "allow-list membership of the asking peer",
                      rules.where(iv, bb), detail="%s / %s" % (a, b), fn=iv)
        for bb in rules.call_blocks(iv, r"doc::Doc::is_delegate$"):
            t = iv["blocks"][bb]["t"]
            b = show(peel_calls(expr_operand(iv, t[2][1])))
            ctx.check("flow:is_visible_to:delegate", b == "arg2", "delegate test of the asking peer", rules.where(iv, bb), detail=b, fn=iv)
    ib = db.one(blk)
    ia = db.one(r"^radicle::node::policy::SeedingPolicy::is_allow$")
    if ib is None or ia is None:
        ctx.violated("anchor:is_block", "SeedingPolicy::is_block/is_allow not found")
    else:
        # is_block == !is_allow ; is_allow true only for Allow
        defs = rules.ret_defs(ib)
        okb = len(defs) == 1 and defs[0][1] == "expr" and defs[0][2][0] == "un" and defs[0][2][1] == "Not" and \
            cfg.callee_is(peel(defs[0][2][2]), re.compile(r"SeedingPolicy::is_allow$"))
        if not okb:
            # alternative shape: a direct match
            def block(f):
                return f[0] == "variant" and f[4] and f[3] == "Block"
            okb, _, _ = rules.true_only_if(db, ib, [block])
            okb = okb and all(not (k == "const" and v == 0) or
                              rules.dom_check(db, ib, [bb], lambda f: f[0] == "variant" and f[4] and f[3] == "Allow")[0]
                              for bb, k, v in rules.ret_defs(ib))
        ctx.check("table:is_block", okb, "is_block is the negation of is_allow", rules.where(ib), fn=ib)

        def allowv(f):
            return f[0] == "variant" and f[4] and f[3] == "Allow"
        ok, problems, n = rules.true_only_if(db, ia, [allowv])
        ctx.check("table:is_allow", ok and n >= 2, "is_allow is true only for the Allow variant", rules.where(ia), detail=problems, fn=ia)
