"""C08 — a patch is merged only by a threshold of agreeing delegates (partial).

Decided (structural): merges are stored one per actor (map keyed by actor id);
merge actions by non-delegates are denied (C07 table cell); a merge is recorded
only if the commit is the merging delegate's default-branch head or an ancestor of
it; the state becomes Merged only when exactly one (revision, commit) group of the
recorded merges passed `count >= identity.threshold()`; lifecycle actions change
the state only from Draft / Archived / Open-without-conflicts (never from Merged);
only Patch::action constructs State::Merged. 
The head a merged commit is checked against comes only from the merging delegate's
own default branch (no fallback to the canonical HEAD); when no group reaches the
threshold any more a Merged state does not stand (it is reset to Open).
`Repository::is_ancestor_of` is libgit2's descendant test with the operands in order."""
import re

from .. import cfg, rules, flow, table
from ..cfg import expr_operand, show, nshow, peel, peel_calls, base_value, walk, graph
from . import c07

ACT = r"^radicle::cob::patch::Patch::action$"


def run(ctx):
    _run(ctx)
    ancestry_primitive(ctx)


def _run(ctx):
    db = ctx.db
    ctx.explanation = (
        "Decides structurally: one merge per actor by type; non-delegate merges denied; merges.insert dominated by the "
        "ancestry guard on the merging delegate's own default branch; state=Merged dominated by the single-surviving-group "
        "test over groups retained by `count >= identity.threshold()`, with groups keyed by (revision, commit); the lifecycle "
        "validity table excludes Merged; who may construct State::Merged. Interaction of many merges over arbitrary "
        "histories is not decided.")
    ctx.not_decided = "vote arithmetic over arbitrary merge histories; redaction interplay across concurrent branches"
    ctx.rule_text = "TYPE + TABLE + DOM/EXCL + FLOW(group key, threshold closure) + WHO"
    adt = db.adts.get("radicle::cob::patch::Patch")
    fty = [f["ty"] for f in adt["variants"][0]["fields"] if f["n"] == "merges"] if adt else []
    ctx.check("type:Patch.merges", bool(fty) and fty[0].startswith("alloc::collections::btree::map::BTreeMap<radicle_crypto::PublicKey, radicle::cob::patch::Merge"),
              "Patch.merges is a map keyed by actor id (at most one merge per delegate by construction): %s" % fty,
              "%s:%s" % (adt["file"], adt["line"]) if adt else "")
    pa = db.one(r"^radicle::cob::patch::Patch::authorization$")
    if pa is not None:
        sw = table.variant_switch(db, pa, "arg2")
        regs, _ = table.regions(pa, sw[1])
        sites = table.outcome_sites(db, pa, regs.get("Merge", set()), c07.AUTHZ)
        ctx.check("table:authorization:Merge", {s.get("name") for s in sites if s["kind"] == "const"} == {"Deny"} and not any(s["kind"] == "from" for s in sites),
                  "a merge by a non-delegate is denied", rules.where(pa), fn=pa)
    fn = db.one(ACT)
    if fn is None:
        ctx.violated("anchor:Patch::action", "Patch::action not found (anchor missing)")
        return
    sw = table.variant_switch(db, fn, "arg2")
    regs, common = table.regions(fn, sw[1])
    M = regs.get("Merge", set())
    L = regs.get("Lifecycle", set())
    ctx.floor("action:Merge-region", len(M), 5, "blocks of the Merge arm")
    ins = [bb for bb in M if fn["blocks"][bb]["t"][0] == "call" and (fn["blocks"][bb]["t"][1].get("n") or "").endswith("BTreeMap::insert")
           and nshow(peel_calls(expr_operand(fn, fn["blocks"][bb]["t"][2][0]))) == "arg1.merges"]
    ctx.floor("merge:insert", len(ins), 1, "merges.insert site")

    def head_or_ancestor(f):
        if f[0] == "cmp" and f[1] == "Eq":
            s = nshow(f[2]) + "|" + nshow(f[3])
            return "arg2 as Merge.commit" in s and "reference_oid" in s
        if f[0] == "bool" and f[2] is True:
            return "is_ancestor_of" in nshow(f[1]) and "arg2 as Merge.commit" in nshow(f[1])
        return False
    ok, a, bad = rules.dom_check(db, fn, ins, head_or_ancestor)
    ctx.check("dom:merge:ancestry", bool(ok and a and ins), "a merge is recorded only if the commit is the head of, or an ancestor of, the merging delegate's default branch",
              rules.where(fn, ins[0] if ins else None), detail={"path": list(bad.values())[:1]}, fn=fn)
    # STANDING QUORUM: the tally is recomputed on every Merge action (a delegate's later merge replaces their earlier one).
    # The arm in which no (revision, commit) group reaches the threshold must not leave a previously Merged state in place:
    # otherwise the patch stays "merged at (r, c)" with fewer than threshold delegates still recording (r, c)
    gM = graph(fn)
    sw_empty = []
    for bb in M:
        t = fn["blocks"][bb]["t"]
        if t[0] != "switch":
            continue
        e = peel(expr_operand(fn, t[1]))
        if e[0] == "bin" and e[1] == "Eq":
            l, r = nshow(e[2]), nshow(e[3])
            if ("as_slice" in l or "PtrMetadata" in l or "len" in l.lower()) and "into_keys" in l and r == "0":
                for tb, lab in gM.succ[bb]:
                    if lab == "otherwise":          # Eq(len, 0) is true
                        sw_empty.append((bb, tb))
    ctx.floor("merge:no-quorum-arm", len(sw_empty), 1, "the arm of the tally in which no group reaches the threshold")
    swr = [b_ for b_, j, s_ in rules.field_writes(fn, "state", r"cob::patch::Patch") if b_ in M]
    for bb, tb in sw_empty:
        # from the empty arm to the end of the Merge arm: either the state is (re)written, or a test established that it is not Merged
        region = gM.reach([tb], avoid_blocks=set(swr))
        rets = [r_ for r_ in rules.ret_blocks(fn) if r_ in region]
        guarded = False
        if rets:
            okq, alq, _ = rules.dom_check(db, fn, [tb], lambda f: f[0] == "variant" and f[3] == "Merged" and not f[4] and "arg1.state" in nshow(f[1]))
            guarded = bool(okq and alq)
        # a conditional rewrite `if matches!(state, Merged) { state = Open }` leaves one path without a write: that path is the not-Merged one
        cond_ok = False
        if rets and not guarded:
            for (b0, t0, lab0, facts) in cfg.all_edge_facts(db, fn):
                if b0 in gM.reach([tb]) and any(f[0] == "variant" and f[3] == "Merged" and "arg1.state" in nshow(f[1]) for f in facts):
                    # paths on which the state *is* Merged must pass a state write
                    for f in facts:
                        if f[0] == "variant" and f[3] == "Merged" and f[4] and "arg1.state" in nshow(f[1]):
                            reg2 = gM.reach_k([(t0, gM.edge_know(b0, t0, lab0, frozenset()) or frozenset())], avoid_blocks=set(swr))
                            cond_ok = not any(r_ in reg2 for r_ in rules.ret_blocks(fn))
        ctx.check("table:merge:no-quorum-resets", (not rets) or guarded or cond_ok,
                  "when no (revision, commit) group reaches the threshold any more, a patch that was Merged does not stay Merged "
                  "(a delegate's later merge replaces their earlier one, so the quorum behind `Merged` can disappear)",
                  rules.where(fn, tb), fn=fn)

    # the head the commit is compared with comes from the merging delegate's own branch and from nowhere else
    srcs = set()
    nh = 0
    for (b0, tb, lab, facts) in cfg.all_edge_facts(db, fn):
        if b0 not in M:
            continue
        for f in facts:
            heads = []
            if f[0] == "cmp" and f[1] in ("Eq", "Ne") and "arg2 as Merge.commit" in nshow(f[2]) + nshow(f[3]):
                heads.append(f[3] if "arg2 as Merge.commit" in nshow(f[2]) else f[2])
            elif f[0] == "bool" and "is_ancestor_of" in nshow(f[1]):
                e_ = peel(f[1])
                if e_[0] == "call" and len(e_[2]) >= 3:
                    heads.append(e_[2][2])
            for h in heads:
                nh += 1
                stack = [h]
                while stack:
                    x = stack.pop()
                    if not isinstance(x, tuple):
                        continue
                    if x[0] == "call":
                        n_ = x[1].get("n") or x[1].get("dn") or ""
                        if n_.endswith("ReadRepository::reference_oid"):
                            srcs.add("ReadRepository::reference_oid")
                            continue            # its arguments (author, branch name) are checked by flow:merge:own-branch
                        if not re.search(r"Try>::branch$|Try::branch$|Deref>::deref$|Deref::deref$|Clone::clone$|Into::into$|From<.*>>::from$|Result::ok$", n_):
                            srcs.add(cfg.short(n_))
                        stack.extend(x[2])
                    elif x[0] == "agg":
                        if isinstance(x[1], dict) and x[1].get("closure"):
                            srcs.add("closure")
                        stack.extend(x[2])
                    elif x[0] in ("ref", "deref", "field", "down", "index"):
                        stack.append(x[1])
                    elif x[0] in ("bin",):
                        stack.extend([x[2], x[3]])
                    elif x[0] in ("un", "cast"):
                        stack.append(x[2])
    ctx.check("flow:merge:head-source", nh >= 1 and srcs == {"ReadRepository::reference_oid"},
              "the head a merged commit is checked against is the merging delegate's own branch head and nothing else (sources: %s)" % sorted(srcs),
              rules.where(fn, ins[0] if ins else None), fn=fn)
    ok, d, bad = rules.excl_check(db, fn, ins, lambda f: f[0] == "variant" and f[4] and f[3] == "Err" and "reference_oid" in nshow(f[1]))
    ctx.check("excl:merge:no-branch", bool(ok and d), "no merge is recorded when the delegate's default branch cannot be resolved", rules.where(fn), fn=fn)
    for bb in M:
        t = fn["blocks"][bb]["t"]
        if t[0] == "call" and (t[1].get("n") or "").endswith("ReadRepository::reference_oid"):
            who = nshow(peel_calls(expr_operand(fn, t[2][1])))
            br = nshow(expr_operand(fn, t[2][2]))
            ctx.check("flow:merge:own-branch", who == "arg4" and "default_branch" in br and "Doc::project(arg7)" in br,
                      "the head consulted is the merging delegate's own default branch of the op's identity document (%s)" % who, rules.where(fn, bb), fn=fn)
        if t[0] == "call" and (t[1].get("n") or "").endswith("ReadRepository::is_ancestor_of"):
            a_, b_ = nshow(peel_calls(expr_operand(fn, t[2][1]))), nshow(base_value(expr_operand(fn, t[2][2])))
            ctx.check("flow:merge:ancestor-args", a_ == "arg2 as Merge.commit" and "reference_oid" in b_,
                      "ancestry is tested between the merge commit and that head", rules.where(fn, bb), fn=fn)
    for bb in ins:
        k = nshow(peel_calls(expr_operand(fn, fn["blocks"][bb]["t"][2][1])))
        ctx.check("flow:merge:key", k == "arg4", "the merge is recorded under the acting delegate's key (%s)" % k, rules.where(fn, bb), fn=fn)

    # state = Merged
    mw = []
    for bb in M:
        for j, s in enumerate(fn["blocks"][bb]["s"]):
            if s[0] == "=" and rules.place_has_field(s[1], "state"):
                e = peel(cfg.expr_rvalue(fn, s[2]))
                if e[0] == "agg" and isinstance(e[1], dict) and e[1].get("var") == "Merged":
                    mw.append((bb, j, e))
    ctx.floor("merge:state-merged", len(mw), 1, "assignment of State::Merged")

    def one_group(f):
        if f[0] != "cmp" or f[1] != "Eq":
            return False
        l, r = nshow(f[2]), peel(f[3])
        return "PtrMetadata" in l and "arg1.merges" in l and r[0] == "const" and r[1].get("v") == "1"
    ok, a, bad = rules.dom_check(db, fn, [b for b, _, _ in mw], one_group)
    ctx.check("dom:merged:single-group", bool(ok and a and mw), "the patch becomes Merged only if exactly one (revision, commit) group survived the threshold filter",
              rules.where(fn, mw[0][0] if mw else None), fn=fn)
    for bb, j, e in mw:
        src = nshow(e)
        ctx.check("flow:merged:fields", "arg1.merges" in src, "the merged revision/commit are those of the surviving group", rules.where(fn, bb, j), detail=src[:200], fn=fn)
    # retain closure: count >= identity.threshold(); fold key = (revision, commit)
    okr = okf = False
    for bb in M:
        t = fn["blocks"][bb]["t"]
        if t[0] != "call":
            continue
        n = t[1].get("n") or ""
        if n.endswith("::retain") and len(t[2]) > 1:
            clo = peel(expr_operand(fn, t[2][1]))
            if clo[0] == "agg" and isinstance(clo[1], dict) and clo[1].get("closure"):
                caps = [nshow(peel_calls(x)) for x in clo[2]]
                for f in flow.closure_family(db, fn, clo[1]["closure"]):
                    rd = rules.ret_defs(f)
                    if len(rd) == 1 and rd[0][1] == "expr" and rd[0][2][0] == "bin" and rd[0][2][1] in ("Ge", "Le"):
                        l, r = nshow(rd[0][2][2]), nshow(rd[0][2][3])
                        if rd[0][2][1] == "Le":      # threshold <= count
                            l, r = r, l
                        # the identity document handed to `action` (by type, not by position)
                        docs = ["arg%d" % i for i in range(1, fn["nargs"] + 1) if re.search(r"identity::doc::Doc\b", fn["locals"][i][0])]
                        okr = "arg3" in l and "Doc::threshold" in r and any(d in caps for d in docs)
        if n.endswith("Iterator::fold") and len(t[2]) > 2:
            clo = peel(expr_operand(fn, t[2][2]))
            src = nshow(peel_calls(expr_operand(fn, t[2][0])))
            if clo[0] == "agg" and isinstance(clo[1], dict) and clo[1].get("closure") and "arg1.merges" in src:
                for f in flow.closure_family(db, fn, clo[1]["closure"]):
                    for b2, t2, c2 in db.calls(f):
                        if (c2.get("n") or "").endswith("::entry") and len(t2[2]) > 1:
                            k = peel(expr_operand(f, t2[2][1]))
                            if k[0] == "agg" and k[1] == "tuple":
                                names = [nshow(x) for x in k[2]]
                                okf = len(names) == 2 and names[0].endswith(".revision") and names[1].endswith(".commit")
    ctx.check("flow:merged:threshold", okr, "groups are retained only if count >= identity.threshold() of the op's identity document", rules.where(fn), fn=fn)
    ctx.check("flow:merged:group-key", okf, "merges are grouped by (revision, commit) over all recorded merges", rules.where(fn), fn=fn)

    # lifecycle
    lw = [(bb, j) for bb in L for j, s in enumerate(fn["blocks"][bb]["s"]) if s[0] == "=" and rules.place_has_field(s[1], "state")]
    ctx.floor("lifecycle:writes", len(lw), 1, "state writes in the Lifecycle arm")
    # all writes dominated by `valid == true`
    valid_edges = []
    for (b0, tb, lab, facts) in cfg.all_edge_facts(db, fn):
        if b0 in L and any(f[0] == "bool" and f[2] is True and peel(f[1])[0] == "phi" for f in facts):
            valid_edges.append((b0, tb, lab, [f for f in facts if f[0] == "bool"][0][1]))
    okv = bool(valid_edges)
    g = graph(fn)
    for bb, j in lw:
        if not any(g.dominates(tb, bb) for (_, tb, _, _) in valid_edges):
            okv = False
    ctx.check("dom:lifecycle:valid", okv, "lifecycle actions write the state only when the validity test held", rules.where(fn, lw[0][0] if lw else None), fn=fn)
    # validity leaves
    allowed = {"radicle::cob::patch::State::Draft", "radicle::cob::patch::State::Archived"}
    okl = bool(valid_edges)
    seen = []
    # the validity flag is a short-circuit disjunction: its constant leaves must be `true`
    for (_, _, _, e) in valid_edges:
        for leaf in table.bool_leaves(fn, e):
            leaf = peel(leaf)
            if leaf[0] == "const" and leaf[1].get("v") != "1":
                okl = False
                seen.append("conjunction")
    for bb in sorted(L):
        t = fn["blocks"][bb]["t"]
        if t[0] != "call" or not (t[1].get("dn") or "").endswith(("PartialEq::eq", "PartialEq::ne")):
            continue
        if (t[1].get("dn") or "").endswith("ne"):
            okl = False
            seen.append("inequality")
            continue
        a_, b_ = peel_calls(expr_operand(fn, t[2][0])), peel_calls(expr_operand(fn, t[2][1]))
        if nshow(a_) != "arg1.state":
            a_, b_ = b_, a_
        if nshow(a_) != "arg1.state":
            continue
        if b_[0] == "const" and b_[1].get("pagg") and set(b_[1]["pagg"]) <= allowed:
            seen.append(b_[1]["pagg"][0].rsplit("::", 1)[1])
        elif b_[0] == "agg" and isinstance(b_[1], dict) and b_[1].get("var") == "Open":
            inner = peel(b_[2][0]) if b_[2] else None
            empty = inner is not None and inner[0] == "call" and (inner[1].get("n") or "").endswith("Vec::new")
            seen.append("Open{conflicts: []}" if empty else "Open{..}")
        else:
            okl = False
            seen.append("state == " + (str(b_[1].get("pagg")) if b_[0] == "const" else nshow(b_)[:60]))
    # a constant-true leaf must be under one of those equalities (short-circuit `||`): check via dominance of the constant's def
    ctx.check("table:lifecycle:valid", okl and set(seen) == {"Draft", "Archived", "Open{conflicts: []}"},
              "lifecycle validity is `state in {Draft, Archived, Open without conflicts}` (Merged excluded): %s" % sorted(set(seen)),
              rules.where(fn), fn=fn)
    # who constructs Merged
    sites = []
    for f in db.all_fns():
        for bb, j, k, ops in rules.agg_sites(f, r"^radicle::cob::patch::State$", "Merged"):
            sites.append((f, bb, j))
    rules.who(ctx, "who:State::Merged", "construction of State::Merged", sites,
              [ACT, r"^<radicle::cob::patch::State as core::clone::Clone>::clone$", r"serde::de::", r"Deserialize", r"Visitor"])
    ctx.floor("who:State::Merged", len(sites), 1, "State::Merged constructions")


def ancestry_primitive(ctx):
    """`is_ancestor_of(commit, head)` — the test a recorded merge has to pass — is libgit2's descendant test with the
    operands in the right order (or an equivalent merge-base comparison)."""
    db = ctx.db
    fn = db.one(r"^<radicle::storage::git::Repository as radicle::storage::ReadRepository>::is_ancestor_of$")
    if fn is None:
        ctx.violated("anchor:is_ancestor_of", "Repository::is_ancestor_of not found (anchor missing)")
        return
    calls = [(bb, t, c.get("n") or c.get("dn") or "") for bb, t, c in db.calls(fn)]
    desc = [(bb, t) for bb, t, n in calls if n.endswith("Repository::graph_descendant_of")]
    mb = [(bb, t) for bb, t, n in calls if n.endswith("Repository::merge_base")]
    wrong = [n for bb, t, n in calls if re.search(r"graph_ahead_behind$|revwalk|Repository::find_commit$", n)]
    if desc:
        bb, t = desc[0]
        a = nshow(peel_calls(expr_operand(fn, t[2][1])))
        b = nshow(peel_calls(expr_operand(fn, t[2][2])))
        ctx.check("flow:is_ancestor_of", (a, b) == ("arg3", "arg2"),
                  "is_ancestor_of(ancestor, head) asks libgit2 whether `head` descends from `ancestor` (graph_descendant_of(%s, %s))" % (a, b), rules.where(fn, bb), fn=fn)
    elif mb and not wrong:
        ctx.ob("flow:is_ancestor_of", "inconclusive", "is_ancestor_of is computed from a merge base; the comparison is not interpreted here", rules.where(fn), fn=fn)
    elif wrong:
        ctx.violated("flow:is_ancestor_of",
                     "is_ancestor_of is computed with %s, which is not an ancestry test: two diverged commits are both `ahead` of each other, so a merge of a "
                     "commit that is not on the delegate's branch is counted" % cfg.short(wrong[0]), rules.where(fn), fn=fn)
    else:
        ctx.ob("flow:is_ancestor_of", "inconclusive", "is_ancestor_of does not use a primitive this rule knows", rules.where(fn), fn=fn)
