"""C06 — rejected collaborative-object changes leave no trace (object layer).

TX rule: for every `impl Evaluate<R> for T` in the workspace, `T::apply(&mut self, ..)`
must be transactional: there is no path on which memory reachable through `self`
is written and `apply` then returns Err (validate-then-mutate, or work on a clone
and commit by one final assignment).  The graph layer (removal of the rejected
entry and its dependents by Dag::prune_by) is checked only structurally: the
evaluate closure breaks exactly on invalid signatures or on apply errors, and
applies each entry once.  SWALLOW: wherever a step's error is ignored and
evaluation goes on (e.g. `Err(Redacted) => {}` in Identity::op), the step never
returns one of the ignored errors after having written to the state.  WHO: a change's
signature is verified only by `Entry::valid_signatures`, consulted only by
`ChangeGraph::evaluate` (a rejection anywhere earlier would skip the change but keep its
dependents)."""
import re

from .. import cfg, rules, flow
from ..cfg import expr_operand, show, nshow, peel, peel_calls, base_value, graph
from ..tx import TX

EV = "radicle_cob::object::collaboration::Evaluate"


def run(ctx):
    _run(ctx)
    who_verifies(ctx)


def _run(ctx):
    db = ctx.db
    ctx.explanation = (
        "Decides for the object layer: every Evaluate::apply implementation in the workspace is transactional "
        "(TX effect analysis: no write through &mut self can be followed by an Err return, for every action sequence and "
        "every failing step), and the evaluate closure prunes exactly on invalid signatures or apply errors. The graph-layer "
        "removal of dependents (Dag::remove) is not re-verified.")
    ctx.not_decided = "correctness of Dag::prune_by/remove (graph reasoning, see C23); equality of the resulting state with re-evaluation of the pruned history"
    ctx.rule_text = "TX(root = <T as Evaluate>::apply, p = self) with recursive callee summaries; structural check of the evaluate closure"
    tx = TX(db)
    roots = [f for f in db.all_fns() if (f.get("impl") or {}).get("trait") == EV and f.get("assoc_name") == "apply"]
    ctx.floor("tx:roots", len(roots), 4, "Evaluate::apply implementations (Issue, Patch, Identity, Thread, External, NonEmpty<Entry>)")
    for f in sorted(roots, key=lambda x: x["key"]):
        s = tx.summary(f, 1)
        ty = cfg.short((f.get("impl") or {}).get("self", "?"))
        key = "tx:apply:%s" % ty
        if not s["dirty_err"]:
            ctx.held(key, "%s::apply is transactional (writes: %s)" % (ty, s["writes"]), rules.where(f), fn=f)
            ctx.sample({"type": ty, "writes": s["writes"], "dirty_err": False})
        elif s.get("unknown"):
            ctx.ob(key, "inconclusive", "%s::apply: verdict rests only on an unmodelled callee (%s)" % (ty, s["unknown"]), rules.where(f), fn=f)
        else:
            wit = describe(db, tx, f, 1)
            ctx.violated(key, "%s::apply is not transactional: state reachable through &mut self is written and an error may be returned afterwards "
                              "(a rejected change leaves a partial effect)" % ty, wit["where"], detail=wit["chain"], fn=f)
            ctx.sample({"type": ty, "dirty_err": True, "witness": wit["chain"][:4]})

    # errors that are ignored must come from steps that left no partial effect
    from .. import swallow
    nsw = swallow.check(ctx, swallow.cob_functions(db), "swallow", "ignored step error")
    ctx.floor("swallow:sites", nsw, 1, "sites where a step's error is ignored and evaluation continues")

    # the loaded graph is complete: every change that loads becomes a node (with its parent edges).  Rejection happens in
    # evaluate through prune_by, which also removes the dependents; a change dropped at load time loses the edges from its
    # dependents (Dag::dependency ignores edges to missing nodes), so they would survive
    ld = db.one(r"^radicle_cob::change_graph::ChangeGraph::load$")
    if ld is None:
        ctx.violated("anchor:load", "ChangeGraph::load not found (anchor missing)")
    else:
        gl = cfg.graph(ld)
        nodes = rules.call_blocks(ld, r"^radicle_dag::Dag::node$")
        hdr = [hb for hb, w, body, bad in rules.worklists(db, ld)]
        ok_edges = rules.edges_where(db, ld, lambda f: f[0] == "variant" and f[4] and f[3] == "Ok" and "Storage::load" in nshow(f[1]))
        ctx.floor("load:sites", min(len(nodes), len(ok_edges), len(hdr)), 1, "load worklist, storage.load Ok edge and Dag::node call")
        leak = None
        for (b0, tb, lab) in ok_edges:
            seen = gl.reach([tb], avoid_blocks=set(nodes))
            for h in hdr:
                if h in seen:
                    leak = gl.path(tb, h, avoid_blocks=set(nodes))
        ctx.check("pair:load:node", bool(ok_edges) and leak is None,
                  "every change that loads is added to the graph (no loaded change is left out, whatever its signatures: rejecting it is evaluate's job, "
                  "which also drops its dependents)", rules.where(ld, nodes[0] if nodes else None), detail={"path": leak}, fn=ld)
        deps = [f_ for f_, b_ in db.call_sites(r"^radicle_dag::Dag::dependency$") if f_ is ld]
        pushes = [bb for bb, t, c in db.calls(ld) if (c.get("n") or "").endswith("Vec::push")]
        ctx.check("req:load:edges", bool(deps) and len(pushes) >= 2, "parent edges of every loaded change are recorded and added to the graph", rules.where(ld), fn=ld)

    # evaluate closure
    ev = db.one(r"^radicle_cob::change_graph::ChangeGraph::evaluate$")
    if ev is None:
        ctx.violated("anchor:evaluate", "ChangeGraph::evaluate not found (anchor missing)")
        return
    clos = [f for f in db.closures_of.get(ev["n"], []) if any((c.get("dn") or "").endswith("Evaluate::apply") for _, _, c in db.calls(f))]
    ctx.floor("evaluate:closure", len(clos), 1, "prune closure calling Evaluate::apply")
    for c in clos:
        applies = rules.call_blocks(c, r"Evaluate::apply$")
        ctx.check("evaluate:apply-once", len(applies) == 1, "each entry is applied exactly once per visit", rules.where(c), fn=c)
        # Break on !valid_signatures and on apply error
        brk = [bb for bb, j, k, ops in rules.agg_sites(c, r"^core::ops::control_flow::ControlFlow$", "Break")]
        cont = [bb for bb, j, k, ops in rules.agg_sites(c, r"^core::ops::control_flow::ControlFlow$", "Continue")]
        ok1, a1, bad1 = rules.dom_check(db, c, cont, rules.is_bool(r"valid_signatures$", True))
        ok2, a2, bad2 = rules.dom_check(db, c, cont, lambda f: (f[0] == "variant" and f[4] and f[3] == "Ok" and cfg.callee_is(base_value(f[1]), re.compile(r"Evaluate::apply$")))
                                        or (f[0] == "bool" and f[2] is False and "Evaluate::apply" in nshow(f[1]) and "is_err" in nshow(f[1])))
        ctx.check("evaluate:continue-only-if-valid", bool(ok1 and a1 and ok2 and a2 and cont),
                  "the traversal continues past an entry only if its signatures are valid and apply succeeded (otherwise the branch is pruned)",
                  rules.where(c, cont[0] if cont else None), fn=c)
        ok3, a3, bad3 = rules.dom_check(db, c, applies, rules.is_bool(r"valid_signatures$", True))
        ctx.check("evaluate:apply-after-signature", bool(ok3 and a3), "an entry is applied only after its signatures were checked", rules.where(c), fn=c)


def describe(db, tx, fn, param, depth=0):
    """Follow witnesses down the callee chain to the first local write."""
    chain = []
    cur, p = fn, param
    where = rules.where(fn)
    for _ in range(8):
        s = tx.summary(cur, p)
        w = s.get("witness")
        if not w:
            break
        bb, cause = w
        if cause is None:
            chain.append("%s: error return at %s" % (cfg.short(cur["key"]), rules.where(cur, bb)))
            break
        if cause[0] == "write":
            chain.append("%s: state written at %s, error returned at %s" % (cfg.short(cur["key"]), rules.where(cur, cause[1]), rules.where(cur, bb)))
            where = rules.where(cur, cause[1])
            break
        cb = cause[1]
        t = cur["blocks"][cb]["t"]
        n = t[1].get("n") or "?"
        kind = "may fail after writing" if cause[0] == "callee" else "writes, and a later step fails"
        chain.append("%s: call to %s at %s %s; error returned at %s" % (cfg.short(cur["key"]), cfg.short(n), rules.where(cur, cb), kind, rules.where(cur, bb)))
        where = rules.where(cur, cb)
        if cause[0] != "callee":
            break
        tg = [f for f in db.by_key.get(n, []) if f["unit"] == cur["unit"]] or db.by_key.get(n, [])
        if not tg:
            break
        der = tx.derived_locals(cur, p)
        idx = [i for i, a in enumerate(t[2]) if a[0] in ("c", "m") and a[1][0] in der]
        if not idx:
            break
        cur, p = tg[0], idx[0] + 1
    return {"where": where, "chain": chain}


def who_verifies(ctx):
    """Signature validity is decided where its consequence — pruning the change *and its dependents* — is drawn: in
    `ChangeGraph::evaluate` through `Entry::valid_signatures`.  A verification anywhere earlier (e.g. the loader refusing
    a change whose signature does not verify) turns the change into an unloadable one, which `ChangeGraph::load` skips
    while its dependents stay in the graph."""
    db = ctx.db
    sites = []
    for fn in db.all_fns():
        if fn["crate"] not in ("radicle_cob", "radicle"):
            continue
        for bb, t, c in db.calls(fn):
            n = c.get("n") or ""
            if re.search(r"ExtendedSignature::verify$", n):
                sites.append(("verify", fn, bb))
            elif re.search(r"change::store::Entry::valid_signatures$", n):
                sites.append(("valid_signatures", fn, bb))
    ctx.floor("who:signature-check", len(sites), 2, "signature verification sites of COB changes")
    for what, fn, bb in sites:
        rk = db.root_of(fn)["key"]
        if what == "verify":
            ok = re.search(r"^radicle_cob::change::store::Entry::valid_signatures$|^radicle_crypto::", rk) is not None or not fn["file"].startswith("crates/radicle-cob/")
            why = "ExtendedSignature::verify on a change is called only by Entry::valid_signatures"
        else:
            ok = re.search(r"^radicle_cob::change_graph::ChangeGraph::evaluate$", rk) is not None
            why = "Entry::valid_signatures is consulted only by ChangeGraph::evaluate (where a failure prunes the change with its dependents)"
        ctx.check("who:signature-check:%s:%s" % (what, cfg.short(rk)), ok,
                  why + " — a change rejected for its signature before evaluation is skipped by the loader while the changes that depend on it survive",
                  rules.where(fn, bb), fn=fn)


def apply_after_signature(ctx, prefix="evaluate"):
    """Shared with C04: in the prune closure of ChangeGraph::evaluate an entry reaches `Evaluate::apply` only behind
    `entry.valid_signatures()`.  C04 depends on it because `Identity::action` trusts `op.author`, which is the key the
    commit *claims* to be signed with."""
    db = ctx.db
    ev = db.one(r"^radicle_cob::change_graph::ChangeGraph::evaluate$")
    if ev is None:
        ctx.violated("anchor:evaluate", "ChangeGraph::evaluate not found (anchor missing)")
        return
    clos = [f for f in db.closures_of.get(ev["n"], []) if any((c.get("dn") or "").endswith("Evaluate::apply") for _, _, c in db.calls(f))]
    ctx.floor("%s:closure" % prefix, len(clos), 1, "prune closure calling Evaluate::apply")
    for c in clos:
        applies = rules.call_blocks(c, r"Evaluate::apply$")
        ok3, a3, bad3 = rules.dom_check(db, c, applies, rules.is_bool(r"valid_signatures$", True))
        ctx.check("%s:apply-after-signature" % prefix, bool(ok3 and a3 and applies),
                  "an entry is applied to the object only after its signatures were checked (an entry with a forged author must not reach the "
                  "object's `op`, which trusts the author named by the commit)", rules.where(c), fn=c)
    root = db.one(r"^radicle_cob::change_graph::ChangeGraph::evaluate$")
    # the root entry is checked before `init`
    inits = rules.call_blocks(root, r"Evaluate::init$")
    okr, ar, badr = rules.dom_check(db, root, inits, rules.is_bool(r"valid_signatures$", True))
    ctx.check("%s:init-after-signature" % prefix, bool(okr and ar and inits), "the root entry initialises the object only after its signatures were checked", rules.where(root), fn=root)
