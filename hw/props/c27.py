"""C27 — SSH agent client never panics (partial).

Decided: (PANIC) no unreviewed panic source in the agent client's response parsing
(AgentClient::{request_identities, sign, read_signature, ..}), the SSH encoding
Reader/Cursor and the Encodable::read impls of radicle-crypto; indexing of the
response is verified to sit behind an emptiness test; fixed-size copies behind a
length test; plus the sibling contradiction check (one function tests
`is_empty()` before `resp[0]`, its sibling must too).  Not decided: key/signature
encodings round trip."""
import re

from .. import cfg, rules, flow, panic
from ..cfg import expr_operand, show, nshow, peel, peel_calls, walk
from ..panic import Review

ENTRIES = [
    r"^radicle_ssh::agent::client::AgentClient::(request_identities|sign|read_signature|add_identity|remove_identity|remove_all_identities|lock|unlock|add_smartcard_key|query_extension|is_error)$",
    r"^radicle_ssh::encoding::(Cursor|Reader)",
    r"^<.* as radicle_ssh::encoding::Reader>::",
    r"^<radicle_crypto::.* as radicle_ssh::encoding::Encodable>::(read|write)$",
]


def in_scope(fn):
    return fn["file"].startswith("crates/radicle-ssh/src/") or fn["file"].startswith("crates/radicle-crypto/src/ssh")


def guard_nonempty(ctx, fn, bb):
    def nonempty(f):
        if f[0] == "bool" and f[2] is False and cfg.callee_is(peel(f[1]), re.compile(r"::is_empty$")):
            return True
        if f[0] == "cmp" and f[1] in ("Gt", "Ge", "Ne") and "len" in nshow(f[2]):
            return True
        if f[0] == "variant" and f[4] and f[3] == "Some" and cfg.callee_is(cfg.base_value(f[1]), re.compile(r"::(first|get)$")):
            return True
        return False
    ok, a, bad = rules.dom_check(ctx.db, fn, [bb], nonempty)
    return bool(ok and a), "the response is indexed without a dominating emptiness/length test"


def guard_len_eq(ctx, fn, bb):
    def leneq(f):
        if f[0] == "cmp" and f[1] == "Eq" and "len" in nshow(f[2]) + nshow(f[3]):
            return True
        if f[0] == "variant" and f[4] and f[3] == "Ok" and cfg.callee_is(cfg.base_value(f[1]), re.compile(r"TryFrom|TryInto|try_into|try_from")):
            return True
        return False
    ok, a, bad = rules.dom_check(ctx.db, fn, [bb], leneq)
    return bool(ok and a), "copy_from_slice into a fixed-size array without a dominating length test on the agent-supplied slice"


def position_private(ctx):
    """Typestate of the read cursor: `Cursor.position` is written only by Cursor's own methods (each write behind the bounds
    test of that read), so `position <= len` is an invariant and `len - position` cannot underflow.  Returns the offending
    sites (empty list = invariant holds)."""
    db = ctx.db
    cached = getattr(ctx, "_c27_pos", None)
    if cached is not None:
        return cached
    bad = []
    for f in db.all_fns():
        if f["crate"] not in ("radicle_ssh", "radicle_crypto", "radicle", "radicle_cli", "radicle_node", "radicle_remote_helper"):
            continue
        for bb, j, s_ in rules.field_writes(f, "position", r"radicle_ssh::encoding::Cursor"):
            rk = db.root_of(f)["key"]
            if not re.search(r"^radicle_ssh::encoding::Cursor::", rk):
                bad.append(rules.where(f, bb, j))
    ctx._c27_pos = bad
    return bad


def guard_cursor(ctx, fn, bb):
    """Cursor reads: slicing behind `position + n <= len` / `position < len`, or behind `n <= remaining()` when
    `remaining() = len - position` is protected by the cursor's typestate (position written only by its own methods)."""
    def inb(f):
        return f[0] == "cmp" and f[1] in ("Le", "Lt") and "position" in nshow(f[2]) and "len" in nshow(f[3])
    ok, a, bad = rules.dom_check(ctx.db, fn, [bb], inb)
    if ok and a:
        return True, ""

    def rem(f):
        if f[0] != "cmp":
            return False
        l, r = nshow(f[2]), nshow(f[3])
        return (f[1] in ("Le", "Lt") and "Cursor::remaining(" in r) or (f[1] in ("Ge", "Gt") and "Cursor::remaining(" in l)
    ok2, a2, bad2 = rules.dom_check(ctx.db, fn, [bb], rem)
    if ok2 and a2:
        offenders = position_private(ctx)
        if not offenders:
            return True, ""
        return False, "the bounds test uses `len - position`, but Cursor.position is also written outside the cursor's own methods (%s): it can exceed the buffer length" % offenders[0]
    return False, "cursor read without a dominating bounds test"


def guard_remaining(ctx, fn, bb):
    offenders = position_private(ctx)
    if offenders:
        return False, "`len - position` can underflow: Cursor.position is written outside the cursor's own methods (%s)" % offenders[0]
    return True, ""


VEC = "writes to an in-memory Vec never fail"
TABLE = [
    (r"^radicle_ssh::encoding::Cursor::remaining$", r"^sub:SubWithOverflow#0$", "GUARDED", "position <= len is the cursor's invariant (position is written only by its own bounds-checked reads)", guard_remaining),
    (r"Encoding>::write_len$", r"^sub:SubWithOverflow#0$", "SAFE", "encode side: the request buffer starts with the 4 placeholder bytes written by `resize(4, 0)` in every caller (local data, not agent input)", None),
    (r"AgentClient::(request_identities|sign|query_extension)$", r"index:index vec::Vec\[usize\]", "GUARDED", "response tested non-empty first", guard_nonempty),
    (r"AgentClient::prepare_sign_request$", r"unwrap:", "SAFE", VEC, None),
    (r"AgentClient::read_signature$", r"sliceop:slice::copy_from_slice", "GUARDED", "length of the agent-supplied signature checked", guard_len_eq),
    (r"radicle_ssh::encoding::mpint_len$", r"bounds:", "SAFE", "loop index < len / guarded by is-empty test (encode side, local data)", None),
    (r"Encoding>::extend_ssh_(string|string_blank|mpint)$", r"unwrap:", "SAFE", VEC, None),
    (r"Encoding>::(extend_ssh_string_blank|extend_list)$", r"index:index vec::Vec\[range::RangeFrom\]", "SAFE", "offset recorded as the Vec's own earlier len() (encode side)", None),
    (r"Encoding>::extend_ssh_mpint$", r"bounds:|index:", "SAFE", "index/loop bounded by the slice length (encode side, local data)", None),
    (r"radicle_ssh::encoding::Cursor::(read_string|read_u32|read_mpint)$", r"index:", "GUARDED", "position + n <= len", guard_cursor),
    (r"radicle_ssh::encoding::Cursor::read_byte$", r"bounds:", "GUARDED", "position < len", guard_cursor),
]


def auto(fn, src):
    skey, kind, what, bb, line, exp = src
    if kind == "index" and "RangeFull" in what:
        return ("SAFE", "full-range index cannot fail")
    return None


def run(ctx):
    db = ctx.db
    ctx.explanation = (
        "Decides structurally: no unreviewed panic source in the SSH agent client's parsing code; response indexing is "
        "dominated by an emptiness test, fixed-size copies by a length test, cursor reads by bounds tests; sibling "
        "functions agree on testing emptiness before indexing. The encoding round trip is not decided.")
    ctx.not_decided = "read(write(k)) == k for keys and signatures; allocation by declared response length in the stream impl"
    ctx.rule_text = "PANIC(entries, table) + DOM verification of guards + sibling contradiction check"
    review = Review(TABLE)
    panic.run_panic(ctx, ENTRIES, in_scope, review, "c27", floor_fns=12, floor_sources=8, auto=auto)
    # sibling contradiction: functions that index the response `resp[0]`
    sib = []
    for fn in db.find(r"^radicle_ssh::agent::client::AgentClient::"):
        idx = [s for s in panic.sources(fn) if s[1] == "index" and "[usize]" in s[2]]
        if not idx:
            continue
        tests = [bb for bb, t, c in db.calls(fn) if re.search(r"::is_empty$", c.get("n") or "")]
        sib.append((fn, bool(tests)))
    if sib and any(t for _, t in sib) and not all(t for _, t in sib):
        for fn, t in sib:
            if not t:
                ctx.violated("sib:resp-index:%s" % fn["key"],
                             "sibling functions test `is_empty()` before indexing the agent response; this one does not", rules.where(fn), fn=fn)
    else:
        ctx.held("sib:resp-index", "sibling functions agree on testing emptiness before indexing the agent response (%d functions)" % len(sib))
