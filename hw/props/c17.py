"""C17 — rate limiting (partial: bypass clause, plus structural necessary conditions
of the admission bound).

Decided: in RateLimiter::limit no token is taken after `bypass.contains(nid)` held
or after `!is_routable(ip)` held, and those paths return `false`; the limiter's
verdict is the negation of TokenBucket::take; take() spends a token only behind
`tokens >= 1.0` and returns true only there; refill() caps the balance with
min(.., capacity) and credits whole elapsed seconds times the rate; who may write
the balance; the bucket table only grows (no eviction that would refund tokens).
Not decided:  the numeric admission bound over arbitrary timelines
(floating-point arithmetic over runtime values)."""
import re

from .. import cfg, rules, flow
from ..cfg import expr_operand, show, nshow, walk, peel, peel_calls, base_value, graph

LIM = r"^radicle_node::service::limiter::RateLimiter::limit$"
TAKE = r"^radicle_node::service::limiter::TokenBucket::take$"
REFILL = r"^radicle_node::service::limiter::TokenBucket::refill$"


def run(ctx):
    db = ctx.db
    ctx.explanation = (
        "Decides the bypass clause structurally (EXCL of TokenBucket::take after the bypass / non-routable tests, constant "
        "`false` verdict on those paths) and structural necessary conditions of the bound (spend only behind tokens >= 1.0, "
        "refill capped by capacity, whole-second credit, who may write the balance). The numeric bound itself is not decided.")
    ctx.not_decided = "admitted <= capacity + rate*window over arbitrary (non-monotonic) timelines: floating point arithmetic on runtime values"
    ctx.rule_text = "EXCL + TABLE(bool returns) + DOM + FLOW + WHO(field write)"
    lim = db.one(LIM)
    tk = db.one(TAKE)
    rf = db.one(REFILL)
    if lim is None or tk is None or rf is None:
        ctx.violated("anchor:limiter", "RateLimiter::limit / TokenBucket::take / refill not found (anchor missing)")
        return
    takes = rules.call_blocks(lim, TAKE)
    ctx.floor("limit:take", len(takes), 1, "TokenBucket::take call in RateLimiter::limit")
    g = graph(lim)
    for label, deny in (("bypass", rules.is_bool(r"HashSet::contains$", True)),
                        ("non-routable", rules.is_bool(r"^radicle::node::address::is_routable$", False))):
        ok, d, bad = rules.excl_check(db, lim, takes, deny)
        ctx.check("excl:limit:%s" % label, bool(ok and d), "no token is taken for %s peers" % label, rules.where(lim),
                  detail={"path": list(bad.values())[:1]}, fn=lim)
        # on those paths the verdict is the constant false
        okv = bool(d)
        for (b0, tb, lab) in d:
            reach = g.reach([tb])
            for bb, k, v in rules.ret_defs(lim):
                if bb in reach and not (k == "const" and v == 0):
                    okv = False
        ctx.check("table:limit:%s" % label, okv, "%s peers are never limited (verdict false)" % label, rules.where(lim), fn=lim)
    for bb in rules.call_blocks(lim, r"HashSet::contains$"):
        t = lim["blocks"][bb]["t"]
        a, b = nshow(peel_calls(expr_operand(lim, t[2][0]))), nshow(base_value(expr_operand(lim, t[2][1])))
        ctx.check("flow:limit:bypass", a == "arg1.bypass" and b == "arg3", "the bypass test is self.bypass.contains(nid) (%s, %s)" % (a, b),
                  rules.where(lim, bb), fn=lim)
    for bb in rules.call_blocks(lim, r"^radicle::node::address::is_routable$"):
        b = nshow(base_value(expr_operand(lim, lim["blocks"][bb]["t"][2][0])))
        ctx.check("flow:limit:routable", b == "arg2", "routability is tested on the peer's address (%s)" % b, rules.where(lim, bb), fn=lim)
    # verdict = !take(..)
    okn = False
    for bb, k, v in rules.ret_defs(lim):
        if k == "expr" and v[0] == "un" and v[1] == "Not" and cfg.callee_is(peel(v[2]), re.compile(TAKE)):
            okn = True
    ctx.check("table:limit:verdict", okn, "a request is limited exactly when TokenBucket::take returns false", rules.where(lim), fn=lim)
    # bucket keyed by the address
    for bb in rules.call_blocks(lim, r"HashMap::entry$"):
        b = nshow(peel_calls(expr_operand(lim, lim["blocks"][bb]["t"][2][1])))
        ctx.check("flow:limit:bucket-key", b == "arg2", "buckets are keyed by the peer's host (%s)" % b, rules.where(lim, bb), fn=lim)

    # take(): spend only behind tokens >= 1.0
    def ge1(f):
        if f[0] != "cmp" or f[1] != "Ge":
            return False
        l, r = peel(f[2]), peel(f[3])
        return nshow(l).endswith(".tokens") and r[0] == "const" and r[1].get("f") == "1.0"
    spends = [(bb, j) for bb, j, s in rules.field_writes(tk, "tokens")]
    ok, a, bad = rules.dom_check(db, tk, [b for b, _ in spends], ge1)
    ctx.check("dom:take:spend", bool(ok and a and spends), "take() spends a token only if tokens >= 1.0", rules.where(tk), fn=tk)
    for bb, j in spends:
        rv = tk["blocks"][bb]["s"][j][2]
        oks = rv[0] == "bin" and rv[1] == "Sub" and rv[3][0] == "k" and rv[3][1].get("f") == "1.0"
        ctx.check("flow:take:spend-one", oks, "the amount spent is exactly 1.0", rules.where(tk, bb, j), fn=tk)
    ok, problems, n = rules.true_only_if(db, tk, [ge1])
    ctx.check("table:take", ok and n >= 2, "take() returns true only if tokens >= 1.0", rules.where(tk), detail=problems, fn=tk)
    # the spend is on every true path
    trues = [bb for bb, k, v in rules.ret_defs(tk) if k == "const" and v == 1]
    gt = graph(tk)
    ctx.check("pair:take:true-spends", bool(trues) and all(any(gt.dominates(sb, tb) or sb == tb for sb, _ in spends) for tb in trues),
              "every admission spends a token", rules.where(tk), fn=tk)
    rfc = rules.call_blocks(tk, REFILL)
    ctx.check("req:take:refill", bool(rfc) and all(gt.dominates(rfc[0], b) for b, _ in spends), "refill precedes the balance test", rules.where(tk), fn=tk)

    # refill(): capped, whole seconds
    w = rules.field_writes(rf, "tokens")
    okcap = False
    oksec = False
    for bb, j, s in w:
        e = peel(cfg.expr_rvalue(rf, s[2]) if j != "term" else ("call", s[1], [expr_operand(rf, a_) for a_ in s[2]], bb))
        if e[0] == "call" and (e[1].get("n") or "").endswith("f64::min"):
            args = [nshow(peel(x)) for x in e[2]]
            okcap = any(a_.endswith(".capacity") for a_ in args)
            for x in walk(e):
                if x[0] == "call" and (x[1].get("n") or "").endswith("LocalDuration::as_secs"):
                    oksec = True
    for bb, t, c in db.calls(rf):
        if t[3][1] and rules.place_has_field(t[3], "tokens"):
            pass
    # writes through a call destination
    for bb, t, c in db.calls(rf):
        if (c.get("n") or "").endswith("f64::min"):
            args = [nshow(peel(expr_operand(rf, x))) for x in t[2]]
            if any(a_.endswith(".capacity") for a_ in args):
                dest_root = t[3]
                okcap = okcap or True
            for x in walk(("call", c, [expr_operand(rf, a_) for a_ in t[2]], bb)):
                if x[0] == "call" and (x[1].get("n") or "").endswith("LocalDuration::as_secs"):
                    oksec = True
    ctx.check("flow:refill:capped", okcap and len(w) == 1, "refill writes min(.., self.capacity) into the balance (single write)", rules.where(rf), fn=rf)
    ctx.check("flow:refill:whole-seconds", oksec, "refill credits elapsed whole seconds (as_secs) times the rate", rules.where(rf), fn=rf)
    # who touches the per-host buckets: dropping or replacing a bucket resets the host's balance to full capacity
    bm = []
    for fn in db.all_fns():
        if fn["unit"] != "radicle_node.rlib":
            continue
        # Nb. matched by field name, whatever the path to it (`self.buckets` in the limiter, `self.limiter.buckets` elsewhere)
        for bb, callee in rules.field_mut_calls(fn, "buckets"):
            bm.append((fn, bb, callee))
        for bb, j, s_ in rules.field_writes(fn, "buckets"):
            bm.append((fn, bb, "assignment"))
    ctx.floor("who:RateLimiter.buckets", len(bm), 1, "mutating uses of RateLimiter.buckets")
    for fn, bb, callee in bm:
        rk = rules.root_key(db, fn)
        grow = re.search(r"HashMap::entry$|Entry::or_insert_with$|or_insert", callee or "") is not None
        ctx.check("who:RateLimiter.buckets:%s:%s" % (cfg.short(rk), cfg.short(callee or "write")),
                  bool(re.search(r"limiter::RateLimiter::(limit|new)$", rk)) and grow,
                  "buckets are only created on first use by limit(); a bucket that is removed, cleared or replaced comes back with a full balance "
                  "(more than capacity + refill admitted)", rules.where(fn, bb), fn=fn)

    # who writes the balance
    sites = []
    for fn in db.all_fns():
        if fn["unit"] != "radicle_node.rlib":
            continue
        for bb, j, s in rules.field_writes(fn, "tokens", r"limiter::TokenBucket"):
            sites.append((fn, bb, j))
        for bb, j, k, ops in rules.agg_sites(fn, r"^radicle_node::service::limiter::TokenBucket$"):
            sites.append((fn, bb, j))
    rules.who(ctx, "who:TokenBucket.tokens", "write of TokenBucket.tokens", sites,
              [TAKE, REFILL, r"^radicle_node::service::limiter::TokenBucket::new$"])
    ctx.floor("who:TokenBucket.tokens", len(sites), 2, "writes of the token balance")
