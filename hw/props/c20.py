"""C20 — signed refs: signatures bind exactly what is accepted (partial).

Decided: SignedRefs<Verified> can only be produced by `verified()` behind
`verify()`=Ok (typestate + who-may-construct); `verify` reaches Ok only behind a
successful signature check by the retained key over the canonical text of the
retained refs with the retained signature, and behind the identity-root binding
(absent, or resolvable and equal to this repository's id).
Not decided: the text round trip; tamper detection as a cryptographic fact."""
import re

from .. import cfg, rules, flow
from ..cfg import expr_operand, show, peel, peel_calls

SR = r"^radicle::storage::refs::SignedRefs$"


def run(ctx):
    db = ctx.db
    ctx.explanation = (
        "Decides the structural clause: who may construct SignedRefs<Verified>, that construction is dominated by "
        "verify()=Ok and moves the same refs/signature/id, and that verify()'s Ok exits are dominated by "
        "PublicKey::verify(self.id, self.refs.canonical(), self.signature)=Ok and excluded after a failed identity-root "
        "binding. Does not decide the canonical text round trip or cryptographic tamper detection.")
    ctx.not_decided = "Refs::from_canonical(canonical(r)) == r; properties of the signature scheme"
    ctx.rule_text = "TYPESTATE + WHO(aggregate) + DOM(verify Ok) + FLOW(arguments of the signature check) + EXCL(identity binding)"

    adt = db.adts.get("radicle::storage::refs::SignedRefs")
    if not adt:
        ctx.violated("anchor:SignedRefs", "SignedRefs ADT not found (anchor missing)")
        return
    f = [x for x in adt["variants"][0]["fields"] if x["n"] == "_verified"]
    ctx.check("type:_verified", bool(f) and f[0]["vis"] == "in:radicle::storage::refs",
              "SignedRefs._verified is private to radicle::storage::refs", "%s:%s" % (adt["file"], adt["line"]))

    n = 0
    for fn in db.all_fns():
        for bb, j, k, ops in rules.agg_sites(fn, SR):
            n += 1
            ga = k["ga"]
            rk = rules.root_key(db, fn)
            if ga == ["radicle_crypto::Verified"]:
                ok = re.search(r"^radicle::storage::refs::SignedRefs::verified$", rk) is not None
            elif ga == ["radicle_crypto::Unverified"]:
                ok = True
            else:
                ok = re.search(r"^<radicle::storage::refs::SignedRefs<V> as core::clone::Clone>::clone$", rk) is not None
            ctx.check("who:SignedRefs<%s>:%s" % (",".join(ga), rk), ok,
                      "construction of SignedRefs<%s> only in its designated constructor" % ",".join(ga),
                      rules.where(fn, bb, j), fn=fn)
        for bb, kind, of in rules.ctor_fn_uses(fn, SR):
            ctx.violated("who:SignedRefs:ctor:%s" % rules.root_key(db, fn), "constructor function use", rules.where(fn, bb), fn=fn)
    ctx.floor("who:SignedRefs", n, 2, "SignedRefs aggregates (new, verified, unverified, Clone)")

    vd = db.one(r"^radicle::storage::refs::SignedRefs::verified$")
    vf = db.one(r"^radicle::storage::refs::SignedRefs::verify$")
    if vd is None or vf is None:
        ctx.violated("anchor:verify", "SignedRefs::verified / verify not found (anchor missing)")
        return
    sites = rules.agg_sites(vd, SR)
    blocks = [s[0] for s in sites]
    ok, allow, bad = rules.dom_check(db, vd, blocks, rules.is_variant(r"^radicle::storage::refs::SignedRefs::verify$", "Ok"))
    ctx.check("dom:verified", bool(ok and allow and blocks), "SignedRefs<Verified> is built only after self.verify(repo) returned Ok",
              rules.where(vd, blocks[0] if blocks else None), detail={"path": list(bad.values())[:1]}, fn=vd)
    for bb, j, k, ops in sites:
        for fname in ("refs", "signature", "id"):
            e = peel_calls(expr_operand(vd, ops[k["fields"].index(fname)]))
            okf = e[0] == "field" and e[2] == fname and peel(e[1]) == ("arg", 1)
            ctx.check("flow:verified:%s" % fname, okf, "verified value keeps self.%s" % fname, rules.where(vd, bb, j), detail=show(e), fn=vd)
    # verify() is called on self
    for bb in rules.call_blocks(vd, r"^radicle::storage::refs::SignedRefs::verify$"):
        e = peel(expr_operand(vd, vd["blocks"][bb]["t"][2][0]))
        ctx.check("flow:verified:self", e == ("arg", 1), "verify is invoked on the value being converted", rules.where(vd, bb), fn=vd)

    # verify(): Ok exits
    oks = [s[0] for s in rules.agg_sites(vf, r"^core::result::Result$", "Ok")]
    ctx.floor("verify:ok-exits", len(oks), 1, "Ok exits of SignedRefs::verify")
    sig = r"^ec25519::ed25519::PublicKey::verify$|^radicle_crypto::PublicKey::verify$|::PublicKey::verify$"
    ok, allow, bad = rules.dom_check(db, vf, oks, rules.is_variant(sig, "Ok"))
    ctx.check("dom:verify:signature", bool(ok and allow and oks), "verify() returns Ok only after the signature check returned Ok",
              rules.where(vf, oks[0] if oks else None), detail={"path": list(bad.values())[:1]}, fn=vf)
    # arguments of the signature check
    for bb in rules.call_blocks(vf, sig):
        t = vf["blocks"][bb]["t"]
        key = peel_calls(expr_operand(vf, t[2][0]))
        msg = peel_calls(expr_operand(vf, t[2][1]))
        sg = peel_calls(expr_operand(vf, t[2][2]))
        ok_key = key[0] == "field" and key[2] == "id" and peel(key[1]) == ("arg", 1)
        ok_sig = sg[0] == "field" and sg[2] == "signature" and peel(sg[1]) == ("arg", 1)
        ok_msg = cfg.callee_is(msg, re.compile(r"^radicle::storage::refs::Refs::canonical$"))
        if ok_msg:
            r = peel_calls(msg[2][0])
            ok_msg = r[0] == "field" and r[2] == "refs" and peel(r[1]) == ("arg", 1)
        ctx.check("flow:verify:key", ok_key, "signature is checked with self.id", rules.where(vf, bb), detail=show(key), fn=vf)
        ctx.check("flow:verify:message", ok_msg, "signature is checked over self.refs.canonical()", rules.where(vf, bb), detail=show(msg), fn=vf)
        ctx.check("flow:verify:signature", ok_sig, "signature checked is self.signature", rules.where(vf, bb), detail=show(sg), fn=vf)
    # identity binding
    deny1 = rules.is_variant(r"ReadRepository::identity_doc_at$", "Err")
    ok1, d1, bad1 = rules.excl_check(db, vf, oks, deny1)
    ctx.check("excl:verify:identity-missing", bool(ok1 and d1), "no Ok after identity_doc_at failed for a signed identity root",
              rules.where(vf), detail={"path": list(bad1.values())[:1]}, fn=vf)

    def mismatch(f):
        if f[0] != "cmp" or f[1] != "Ne":
            return False
        a, b = peel_calls(f[2]), peel_calls(f[3])
        sa, sb = show(a), show(b)
        return ("ReadRepository::id" in sa + sb) and ("blob" in sa + sb)
    ok2, d2, bad2 = rules.excl_check(db, vf, oks, mismatch)
    ctx.check("excl:verify:identity-mismatch", bool(ok2 and d2),
              "no Ok when RepoId::from(doc.blob) != repo.id()", rules.where(vf), detail={"path": list(bad2.values())[:1]}, fn=vf)
    # the identity root looked up is the signed one
    g = rules.call_blocks(vf, r"^radicle::storage::refs::Refs::get$")
    okg = False
    for bb in g:
        r = peel_calls(expr_operand(vf, vf["blocks"][bb]["t"][2][0]))
        okg = okg or (r[0] == "field" and r[2] == "refs" and peel(r[1]) == ("arg", 1))
    ctx.check("flow:verify:idroot", okg, "the identity root is read from the signed refs themselves", rules.where(vf), fn=vf)
