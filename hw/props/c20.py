"""C20 — signed refs: signatures bind exactly what is accepted (partial).

Decided: SignedRefs<Verified> can only be produced by `verified()` behind
`verify()`=Ok (typestate + who-may-construct); `verify` reaches Ok only behind a
successful signature check by the retained key over the canonical text of the
retained refs with the retained signature, and behind the identity-root binding
(absent, or resolvable and equal to this repository's id); the canonical text covers
every ref of the map (no iteration of Refs::canonical skips the oid or the name);
a signature / key is built from a byte string only of exactly the right length.
Not decided: the text round trip; tamper detection as a cryptographic fact."""
import re

from .. import cfg, rules, flow
from ..cfg import expr_operand, show, peel, peel_calls

SR = r"^radicle::storage::refs::SignedRefs$"


def run(ctx):
    db = ctx.db
    ctx.explanation = (
        "Decides the structural clause: who may construct SignedRefs<Verified>, that construction is dominated by "
        "verify()=Ok and moves the same refs/signature/id, and that verify()'s Ok exits are dominated by "
        "PublicKey::verify(self.id, self.refs.canonical(), self.signature)=Ok and excluded after a failed identity-root "
        "binding. Does not decide the canonical text round trip or cryptographic tamper detection.")
    ctx.not_decided = "Refs::from_canonical(canonical(r)) == r; properties of the signature scheme"
    ctx.rule_text = "TYPESTATE + WHO(aggregate) + DOM(verify Ok) + FLOW(arguments of the signature check) + EXCL(identity binding)"

    adt = db.adts.get("radicle::storage::refs::SignedRefs")
    if not adt:
        ctx.violated("anchor:SignedRefs", "SignedRefs ADT not found (anchor missing)")
        return
    f = [x for x in adt["variants"][0]["fields"] if x["n"] == "_verified"]
    ctx.check("type:_verified", bool(f) and f[0]["vis"] == "in:radicle::storage::refs",
              "SignedRefs._verified is private to radicle::storage::refs", "%s:%s" % (adt["file"], adt["line"]))

    n = 0
    for fn in db.all_fns():
        for bb, j, k, ops in rules.agg_sites(fn, SR):
            n += 1
            ga = k["ga"]
            rk = rules.root_key(db, fn)
            if ga == ["radicle_crypto::Verified"]:
                ok = re.search(r"^radicle::storage::refs::SignedRefs::verified$", rk) is not None
            elif ga == ["radicle_crypto::Unverified"]:
                ok = True
            else:
                ok = re.search(r"^<radicle::storage::refs::SignedRefs<V> as core::clone::Clone>::clone$", rk) is not None
            ctx.check("who:SignedRefs<%s>:%s" % (",".join(ga), rk), ok,
                      "construction of SignedRefs<%s> only in its designated constructor" % ",".join(ga),
                      rules.where(fn, bb, j), fn=fn)
        for bb, kind, of in rules.ctor_fn_uses(fn, SR):
            ctx.violated("who:SignedRefs:ctor:%s" % rules.root_key(db, fn), "constructor function use", rules.where(fn, bb), fn=fn)
    ctx.floor("who:SignedRefs", n, 2, "SignedRefs aggregates (new, verified, unverified, Clone)")

    vd = db.one(r"^radicle::storage::refs::SignedRefs::verified$")
    vf = db.one(r"^radicle::storage::refs::SignedRefs::verify$")
    if vd is None or vf is None:
        ctx.violated("anchor:verify", "SignedRefs::verified / verify not found (anchor missing)")
        return
    sites = rules.agg_sites(vd, SR)
    blocks = [s[0] for s in sites]
    ok, allow, bad = rules.dom_check(db, vd, blocks, rules.is_variant(r"^radicle::storage::refs::SignedRefs::verify$", "Ok"))
    ctx.check("dom:verified", bool(ok and allow and blocks), "SignedRefs<Verified> is built only after self.verify(repo) returned Ok",
              rules.where(vd, blocks[0] if blocks else None), detail={"path": list(bad.values())[:1]}, fn=vd)
    for bb, j, k, ops in sites:
        for fname in ("refs", "signature", "id"):
            e = peel_calls(expr_operand(vd, ops[k["fields"].index(fname)]))
            okf = e[0] == "field" and e[2] == fname and peel(e[1]) == ("arg", 1)
            ctx.check("flow:verified:%s" % fname, okf, "verified value keeps self.%s" % fname, rules.where(vd, bb, j), detail=show(e), fn=vd)
    # verify() is called on self
    for bb in rules.call_blocks(vd, r"^radicle::storage::refs::SignedRefs::verify$"):
        e = peel(expr_operand(vd, vd["blocks"][bb]["t"][2][0]))
        ctx.check("flow:verified:self", e == ("arg", 1), "verify is invoked on the value being converted", rules.where(vd, bb), fn=vd)

    # verify(): Ok exits
    oks = [s[0] for s in rules.agg_sites(vf, r"^core::result::Result$", "Ok")]
    ctx.floor("verify:ok-exits", len(oks), 1, "Ok exits of SignedRefs::verify")
    sig = r"^ec25519::ed25519::PublicKey::verify$|^radicle_crypto::PublicKey::verify$|::PublicKey::verify$"
    ok, allow, bad = rules.dom_check(db, vf, oks, rules.is_variant(sig, "Ok"))
    ctx.check("dom:verify:signature", bool(ok and allow and oks), "verify() returns Ok only after the signature check returned Ok",
              rules.where(vf, oks[0] if oks else None), detail={"path": list(bad.values())[:1]}, fn=vf)
    # arguments of the signature check
    for bb in rules.call_blocks(vf, sig):
        t = vf["blocks"][bb]["t"]
        key = peel_calls(expr_operand(vf, t[2][0]))
        msg = peel_calls(expr_operand(vf, t[2][1]))
        sg = peel_calls(expr_operand(vf, t[2][2]))
        ok_key = key[0] == "field" and key[2] == "id" and peel(key[1]) == ("arg", 1)
        ok_sig = sg[0] == "field" and sg[2] == "signature" and peel(sg[1]) == ("arg", 1)
        ok_msg = cfg.callee_is(msg, re.compile(r"^radicle::storage::refs::Refs::canonical$"))
        if ok_msg:
            r = peel_calls(msg[2][0])
            ok_msg = r[0] == "field" and r[2] == "refs" and peel(r[1]) == ("arg", 1)
        ctx.check("flow:verify:key", ok_key, "signature is checked with self.id", rules.where(vf, bb), detail=show(key), fn=vf)
        ctx.check("flow:verify:message", ok_msg, "signature is checked over self.refs.canonical()", rules.where(vf, bb), detail=show(msg), fn=vf)
        ctx.check("flow:verify:signature", ok_sig, "signature checked is self.signature", rules.where(vf, bb), detail=show(sg), fn=vf)
    # identity binding
    deny1 = rules.is_variant(r"ReadRepository::identity_doc_at$", "Err")
    ok1, d1, bad1 = rules.excl_check(db, vf, oks, deny1)
    ctx.check("excl:verify:identity-missing", bool(ok1 and d1), "no Ok after identity_doc_at failed for a signed identity root",
              rules.where(vf), detail={"path": list(bad1.values())[:1]}, fn=vf)

    def mismatch(f):
        if f[0] != "cmp" or f[1] != "Ne":
            return False
        a, b = peel_calls(f[2]), peel_calls(f[3])
        sa, sb = show(a), show(b)
        return ("ReadRepository::id" in sa + sb) and ("blob" in sa + sb)
    ok2, d2, bad2 = rules.excl_check(db, vf, oks, mismatch)
    ctx.check("excl:verify:identity-mismatch", bool(ok2 and d2),
              "no Ok when RepoId::from(doc.blob) != repo.id()", rules.where(vf), detail={"path": list(bad2.values())[:1]}, fn=vf)
    # the identity root looked up is the signed one
    g = rules.call_blocks(vf, r"^radicle::storage::refs::Refs::get$")
    okg = False
    for bb in g:
        r = peel_calls(expr_operand(vf, vf["blocks"][bb]["t"][2][0]))
        okg = okg or (r[0] == "field" and r[2] == "refs" and peel(r[1]) == ("arg", 1))
    ctx.check("flow:verify:idroot", okg, "the identity root is read from the signed refs themselves", rules.where(vf), fn=vf)
    canonical_complete(ctx)


def canonical_complete(ctx):
    """The signed text covers *every* retained ref: `Refs::canonical` walks the whole map (no filtering adaptor) and every
    iteration appends both the oid and the name — a ref left out of the text is accepted without being signed."""
    db = ctx.db
    cn = db.one(r"^radicle::storage::refs::Refs::canonical$")
    if cn is None:
        ctx.violated("anchor:canonical", "Refs::canonical not found (anchor missing)")
        return
    from ..cfg import graph, nshow
    g = graph(cn)
    nexts = [(bb, t) for bb, t, c in db.calls(cn) if re.search(r"Iterator>?::next$", c.get("n") or "")]
    ctx.floor("canonical:loop", len(nexts), 1, "iteration over the refs in Refs::canonical")
    if len(nexts) != 1:
        ctx.ob("req:canonical:complete", "inconclusive", "Refs::canonical does not have the shape of one loop over the refs (%d `next` calls)" % len(nexts), rules.where(cn), fn=cn)
        return
    hb = nexts[0][0]
    # source of the iterator: the whole map
    src = None
    for bb, t, c in db.calls(cn):
        if (c.get("n") or "").endswith("IntoIterator>::into_iter") or (c.get("n") or "").endswith("IntoIterator::into_iter"):
            src = peel_calls(expr_operand(cn, t[2][0]))
    s = nshow(src) if src is not None else ""
    inner = r"(arg1|arg1\.0|<radicle::storage::refs::Refs as core::ops::deref::Deref>::deref\(arg1\))"
    whole = re.match(r"^BTreeMap::iter\(%s\)$" % inner, s) is not None or re.match(r"^%s$" % inner, s) is not None
    adaptors = re.findall(r"Iterator::(filter|filter_map|skip|skip_while|take|take_while|step_by)\b", s)
    if adaptors:
        ctx.violated("req:canonical:source", "Refs::canonical iterates a filtered view of the refs (%s): refs left out of the signed text are accepted unsigned" % adaptors[0],
                     rules.where(cn), detail=s[:200], fn=cn)
    elif whole:
        ctx.held("req:canonical:source", "Refs::canonical iterates the whole refs map", rules.where(cn), fn=cn)
    else:
        ctx.ob("req:canonical:source", "inconclusive", "Refs::canonical iterates %s (not recognised as the whole map)" % s[:120], rules.where(cn), fn=cn)
    some = rules.edges_where(db, cn, lambda f: f[0] == "variant" and f[4] and f[3] == "Some" and "::next(" in nshow(f[1]))
    some = [e for e in some if e[0] in g.reach([hb])]

    def pushes(what):
        out = []
        for bb, t, c in db.calls(cn):
            n = c.get("n") or ""
            if re.search(r"String::push_str$|fmt::Write::write_(str|fmt)$|Vec::extend_from_slice$|io::Write::write_all$", n) and len(t[2]) >= 2:
                a = nshow(peel_calls(expr_operand(cn, t[2][1]), extra=("alloc::string::ToString::to_string",)))
                if what in a:
                    out.append(bb)
        return out
    for label, what in (("name", ".0.0"), ("oid", ".0.1")):
        eff = pushes(what)
        if not eff:
            ctx.ob("req:canonical:complete:%s" % label, "inconclusive", "the place where the ref's %s is appended to the signed text was not recognised" % label, rules.where(cn), fn=cn)
            continue
        ok, nfeas, bad = rules.pass_check(db, cn, some, eff, [hb])
        ctx.check("req:canonical:complete:%s" % label, ok and nfeas >= 1,
                  "every ref of the map has its %s appended to the signed text (no iteration is skipped): a ref left out is accepted without being covered by the signature" % label,
                  rules.where(cn, eff[0]), detail={"path": bad[:1]}, fn=cn)
    exact_length(ctx)


def exact_length(ctx):
    """A signature (or key) is built from a byte string only if the string has exactly the right length.  A conversion that
    takes a prefix accepts `signature || anything` as the same signature: the stored signature blob, an SSH signature field
    or a COB commit's signature can then carry unsigned trailing bytes."""
    db = ctx.db
    for ty, n in (("radicle_crypto::Signature", 64), ("radicle_crypto::PublicKey", 32)):
        fns = [f for f in db.all_fns() if db.root_of(f)["key"] == "<%s as core::convert::TryFrom<&[u8]>>::try_from" % ty]
        if not fns:
            ctx.violated("flow:exact-length:%s" % cfg.short(ty), "TryFrom<&[u8]> for %s not found (anchor missing)" % ty)
            continue
        names = [(f, bb, (c.get("n") or c.get("dn") or "")) for f in fns for bb, t, c in db.calls(f)]
        exact = [x for x in names if re.search(r"ed25519::(Signature|PublicKey)::from_slice$", x[2])]
        prefix = [x for x in names if re.search(r"slice::(get|get_unchecked|split_at|split_first_chunk|first_chunk|split_at_checked)$|ops::index::Index", x[2])]
        lencmp = False
        for f in fns:
            for bb, tb, lab, facts in cfg.all_edge_facts(db, f):
                for fa in facts:
                    if fa[0] == "cmp" and fa[1] in ("Eq", "Ne") and "len" in cfg.nshow(fa[2]) + cfg.nshow(fa[3]):
                        lencmp = True
        k = "flow:exact-length:%s" % cfg.short(ty)
        if prefix and not lencmp:
            f, bb, nm = prefix[0]
            ctx.violated(k, "TryFrom<&[u8]> for %s takes part of the input (%s) without comparing its length with %d: `value || trailing bytes` "
                            "converts to the same value, so what is accepted is not exactly what was signed / stored" % (cfg.short(ty), cfg.short(nm), n),
                         rules.where(f, bb), fn=f)
        elif exact or lencmp:
            ctx.held(k, "TryFrom<&[u8]> for %s accepts only input of exactly %d bytes (%s)" % (
                cfg.short(ty), n, "ed25519 from_slice" if exact else "length comparison"), rules.where(fns[0]), fn=fns[0])
        else:
            ctx.ob(k, "inconclusive", "how TryFrom<&[u8]> for %s bounds the input length was not recognised" % cfg.short(ty), rules.where(fns[0]), fn=fns[0])
