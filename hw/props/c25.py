"""C25 — sync targets report success exactly when reached (partial: structural clauses).

Decided, for the announcer and the fetcher of radicle::node::sync, on path summaries of the (loop-free) decision
functions: (REPORT) finish / timed_out / finished report success exactly on the `Some` side of `is_target_reached()`
and a failure / timeout / `Continue` on the `None` side; (TARGET) `is_target_reached` returns a preferred-seeds outcome
only under `seeds non-empty && preferred >= |seeds|`, a minimum-replicas outcome only under `no upper bound &&
total >= lower bound`, a maximum-replicas outcome only under `upper bound && total >= upper bound`, and returns `None`
only when it is *not* the case that the preferred seeds are satisfied and the replica count is reached (for the
fetcher also: not when its own preferred-seeds outcome applies) — decided by enumerating the orderings of the three
compared pairs, so `>` / `==` in place of `>=` or a swapped bound is reported; the bounds come from
ReplicationFactor::{lower_bound, upper_bound}, whose tables are checked; (COUNT) the counts come from a fold that adds
exactly one to the total for every element and one to the preferred count exactly when the node is in the target's
seed set, over the success records; (LOCAL) the local node is never recorded (Announcer::synced_with excludes it, and
Announcer::new removes it from every configured set before any other use; the fetcher records a result only for a node
that passes its eligibility test) and never handed out; (HANDOUT) Fetcher::next_node / next_fetch hand out a node only
behind an eligibility predicate that requires `results.get(node)` to be `None` and `node != local_node`; (DISTINCT) what
is counted is keyed by node id, or every addition is behind the "has no result yet" test; (WHO) who may write the
recorded sets; (DRIVER) `Node::announce` subscribes to the node's events before it triggers the announcement.
Not decided: the arithmetic over an arbitrary event sequence (that the counts equal the cardinalities of the sets a
reference model would hold), Progress figures, the AlreadySynced construction-time results."""
import itertools
import re

from .. import cfg, rules, flow, pathsum
from ..cfg import nshow, peel, peel_calls, graph, walk, expr_operand

A = r"^radicle::node::sync::announce::Announcer::"
F = r"^radicle::node::sync::fetch::Fetcher::"
NODE_TY = r"^radicle_crypto::PublicKey$"


def fields_of(db, path):
    a = db.adt(path)
    if not a or not a.get("variants"):
        return []
    return [(f["n"], f["ty"]) for f in a["variants"][0]["fields"]]


def field_by_type(db, path, ty_rx):
    return [n for n, ty in fields_of(db, path) if re.search(ty_rx, ty)]


class Machine:
    def __init__(self, db, name, adt, target_adt, prefix):
        self.db = db
        self.name = name
        self.adt = adt
        self.prefix = prefix
        loc = field_by_type(db, adt, NODE_TY)
        self.local = loc[0] if len(loc) == 1 else None
        tg = field_by_type(db, adt, "^" + re.escape(target_adt) + "$")
        self.target = tg[0] if len(tg) == 1 else None
        sd = field_by_type(db, target_adt, r"^alloc::collections::btree::set::BTreeSet<radicle_crypto::PublicKey>$")
        self.seeds = sd[0] if len(sd) == 1 else None
        rp = field_by_type(db, target_adt, r"^radicle::node::sync::ReplicationFactor$")
        self.replicas = rp[0] if len(rp) == 1 else None

    def fn(self, n):
        return self.db.one(self.prefix + re.escape(n) + "$")


# ------------------------------------------------------------------ atoms of the target predicate
def norm_cmp(op, a, b):
    """Return (op', a, b) with the *count* on the left (count = an expression mentioning success_counts)."""
    sa, sb = nshow(a), nshow(b)
    if "success_counts" in sb and "success_counts" not in sa:
        op = {"Ge": "Le", "Le": "Ge", "Gt": "Lt", "Lt": "Gt", "Eq": "Eq", "Ne": "Ne"}.get(op, op)
        a, b = b, a
    return op, a, b


def count_component(e):
    """The component of success_counts() an expression reads: field name or tuple index (as str)."""
    e = peel(e)
    if e[0] == "field" and "success_counts" in nshow(e[1]):
        return e[2] if e[2] and not e[2].isdigit() else str(e[3])
    return None


def classify_bound(m, e):
    s = nshow(e)
    tgt = r"(\.%s\b)" % re.escape(m.target)
    if re.search(r"BTreeSet::len\(", s) and re.search(r"\.%s\b|Target::preferred_seeds\(" % re.escape(m.seeds), s) and re.search(tgt, s):
        return "seeds"
    if "ReplicationFactor::lower_bound(" in s and re.search(tgt, s):
        return "min"
    if "ReplicationFactor::upper_bound(" in s and "as Some" in s and re.search(tgt, s):
        return "max"
    return None


LIT = {"Ge": ("ge", True), "Lt": ("ge", False), "Gt": ("gt", True), "Le": ("gt", False), "Eq": ("eq", True), "Ne": ("eq", False)}


def literal_of(m, f, roles):
    """Map an atomic fact to (atom, polarity) or None (unclassified) ; atom in E, U, (pair, rel)."""
    if f[0] == "bool":
        s = nshow(f[1])
        if re.search(r"BTreeSet::is_empty\(", s) and re.search(r"\.%s\b|Target::preferred_seeds\(" % re.escape(m.seeds), s):
            return ("E", f[2])
        return None
    if f[0] == "variant":
        s = nshow(f[1])
        if "ReplicationFactor::upper_bound(" in s and f[3] in ("Some", "None"):
            pos = f[4] if f[3] == "Some" else (not f[4])
            return ("U", pos)
        return None
    if f[0] == "cmp":
        op, a, b = norm_cmp(f[1], f[2], f[3])
        comp = count_component(a)
        bound = classify_bound(m, b)
        if comp is None or bound is None or op not in LIT:
            return None
        role = roles.get(comp)
        want = "preferred" if bound == "seeds" else "total"
        if role != want:
            return ("MISMATCH", "%s count compared with the %s bound" % (role or comp, bound))
        rel, pol = LIT[op]
        return ((bound, rel), pol)
    return None


def assignments():
    """All consistent valuations: E, U and for each of the three pairs the ordering lt/eq/gt."""
    for E, U in itertools.product((False, True), repeat=2):
        for o in itertools.product(("lt", "eq", "gt"), repeat=3):
            v = {"E": E, "U": U}
            for pair, x in zip(("seeds", "min", "max"), o):
                v[(pair, "ge")] = x != "lt"
                v[(pair, "gt")] = x == "gt"
                v[(pair, "eq")] = x == "eq"
            yield v


def spec_some(v, outcome):
    if re.search(r"Preferred", outcome):
        return (not v["E"]) and v[("seeds", "ge")]
    if re.search(r"Min", outcome):
        return (not v["U"]) and v[("min", "ge")]
    if re.search(r"Max", outcome):
        return v["U"] and v[("max", "ge")]
    return None


def replicas_reached(v):
    return ((not v["U"]) and v[("min", "ge")]) or (v["U"] and v[("max", "ge")])


def spec_none(v, has_preferred_outcome):
    pref_ok = v["E"] or v[("seeds", "ge")]
    if pref_ok and replicas_reached(v):
        return False
    if has_preferred_outcome and (not v["E"]) and v[("seeds", "ge")]:
        return False
    return True


def outcome_of(ret):
    """ret expression of is_target_reached -> list of (extra_fact or None, 'none' | variant name)."""
    if ret is None:
        return None
    e = peel(ret)
    a = agg_name(e)
    if a and a.endswith("Option::None"):
        return [(None, "none")]
    if a and a.endswith("Option::Some") and e[2]:
        v = agg_name(e[2][0])
        return [(None, v.rsplit("::", 1)[-1])] if v else None
    if e[0] == "call" and (e[1].get("n") or "").endswith("bool::then_some") and len(e[2]) == 2:
        c = peel(e[2][0])
        v = agg_name(e[2][1])
        if not v:
            return None
        name = v.rsplit("::", 1)[-1]
        cv = pathsum.const_value(c)
        if cv is not None:
            return [(None, name if cv else "none")]
        if c[0] == "bin":
            neg = {"Ge": "Lt", "Lt": "Ge", "Gt": "Le", "Le": "Gt", "Eq": "Ne", "Ne": "Eq"}.get(c[1])
            if neg:
                return [(("cmp", c[1], c[2], c[3]), name), (("cmp", neg, c[2], c[3]), "none")]
        return None
    return None


def agg_name(e):
    """`adt::variant` of an aggregate expression (None for tuples, arrays, closures)."""
    if e is None:
        return None
    e = peel(e)
    if e[0] == "agg" and isinstance(e[1], dict) and e[1].get("adt"):
        return "%s::%s" % (e[1]["adt"], e[1].get("var") or "")
    return None


def agg_fields(e):
    e = peel(e)
    if e[0] == "agg" and isinstance(e[1], dict):
        return e[1].get("fields") or []
    return []


# ------------------------------------------------------------------ count vectors
def count_roles(ctx, m, sc):
    """Analyse the fold in success_counts: {component: 'total' | 'preferred'} or None."""
    db = ctx.db
    folds = [(bb, t) for bb, t, c in db.calls(sc) if re.search(r"Iterator>?::fold$", c.get("n") or "")]
    if len(folds) != 1:
        return None, "no single fold in success_counts"
    bb, t = folds[0]
    src = nshow(peel_calls(expr_operand(sc, t[2][0])))
    clo = peel(expr_operand(sc, t[2][2]))
    if not (clo[0] == "agg" and isinstance(clo[1], dict) and clo[1].get("closure")):
        return None, "fold closure not found"
    fam = list(flow.closure_family(db, sc, clo[1]["closure"]))
    if len(fam) != 1:
        return None, "fold closure not unique"
    cf = fam[0]
    ss = pathsum.summaries(db, cf)
    if not ss:
        return None, "fold closure has no path summary"
    per_path = []
    for p, facts, ret in ss:
        member = None
        for f in facts:
            if f[0] == "bool" and re.search(r"BTreeSet::contains\(", nshow(f[1])) and re.search(r"\.%s\b" % re.escape(m.seeds), nshow(f[1])):
                member = f[2]
        vec = count_vector(db, cf, ret, 0)
        if vec is None:
            return None, "fold step not understood: %s" % nshow(ret)[:160]
        if vec == IDENT:
            vec = {}
        per_path.append((member, vec))
    comps = sorted(set(k for _, vec in per_path for k in vec if k != "__partial__"))
    roles = {}
    for c in comps:
        incs = [(mem, vec.get(c) if (c in vec or not vec.get("__partial__")) else (c, 0)) for mem, vec in per_path]
        if any(v is None or v[0] != c for _, v in incs):
            return None, "component %s does not accumulate itself" % c
        if all(v[1] == 1 for _, v in incs):
            roles[c] = "total"
        elif all((v[1] == 1) == (mem is True) and v[1] in (0, 1) and mem is not None for mem, v in incs):
            roles[c] = "preferred"
        else:
            roles[c] = "other:%s" % [(mem, v[1]) for mem, v in incs]
    return (roles, src), None


def comp_name(x):
    """Component named by a field projection: the field name, or the tuple index."""
    return x[2] if x[2] and not x[2].isdigit() else str(x[3])


def count_scalar(x, argn):
    """A scalar built from one component of parameter `argn` plus a constant: (component, k)."""
    x = peel(x)
    k = 0
    for _ in range(6):
        if x[0] == "field" and x[3] == 0 and peel(x[1])[0] == "bin" and peel(x[1])[1] == "AddWithOverflow":
            x = peel(x[1])
        if x[0] == "bin" and x[1] in ("AddWithOverflow", "Add"):
            c = pathsum.const_value(x[3])
            if c is None:
                return None
            k += c
            x = peel(x[2])
            continue
        break
    if x[0] == "field" and peel(x[1]) == ("arg", argn):
        return (comp_name(x), k)
    return None


def agg_vector(e, argn):
    """{component: (source component of parameter argn, +k)} for a record built field by field, or None."""
    e = peel(e)
    if e[0] == "upd":
        # in-place update of one field of a record: the other components are those of the base
        base = IDENT_VEC if peel(e[1]) == ("arg", argn) else agg_vector(e[1], argn)
        sv = count_scalar(e[4], argn)
        if base is None or sv is None:
            return None
        out = dict(base) if base is not IDENT_VEC else {}
        out[e[2] or str(e[3])] = sv
        out["__partial__"] = base is IDENT_VEC or out.get("__partial__", False)
        return out
    if e[0] != "agg" or e[1] == "array" or (isinstance(e[1], dict) and e[1].get("closure")):
        return None
    names = agg_fields(e)
    out = {}
    for i, x in enumerate(e[2]):
        sv = count_scalar(x, argn)
        if sv is None:
            return None
        out[names[i] if i < len(names) else str(i)] = sv
    return out


def compose(outer, inner):
    """outer after inner.  A vector marked `__partial__` leaves the components it does not mention unchanged."""
    if inner == IDENT:
        return dict(outer)
    o_partial = bool(outer.get("__partial__"))
    i_partial = bool(inner.get("__partial__"))
    res = {}
    comps = set(k for k in outer if k != "__partial__") | (set(k for k in inner if k != "__partial__") if o_partial else set())
    for c in comps:
        if c in outer:
            srcc, k = outer[c]
        elif o_partial:
            srcc, k = c, 0
        else:
            continue
        if srcc in inner and srcc != "__partial__":
            s2, k2 = inner[srcc]
        elif i_partial:
            s2, k2 = srcc, 0
        else:
            return None
        res[c] = (s2, k + k2)
    if o_partial and i_partial:
        res["__partial__"] = True
    return res


IDENT = "IDENT"
IDENT_VEC = "IDENT_VEC"


def count_vector(db, fn, e, depth):
    """Abstract value of the record a fold step returns, in terms of the accumulator (parameter 2)."""
    if depth > 6 or e is None:
        return None
    e = peel(e)
    if e == ("arg", 2):
        return IDENT
    if e[0] == "agg":
        return agg_vector(e, 2)
    if e[0] == "call" and len(e[2]) == 1 and e[1].get("n"):
        callee = db.one("^" + re.escape(e[1]["n"]) + "$")
        inner = count_vector(db, fn, e[2][0], depth + 1)
        if callee is None or inner is None:
            return None
        ss = pathsum.summaries(db, callee, 16)
        if not ss or len(ss) != 1:
            return None
        tv = agg_vector(ss[0][2], 1) if ss[0][2] is not None else None
        if tv is None:
            return None
        return compose(tv, inner)
    return None


# ------------------------------------------------------------------ eligibility predicate
def eligible_pred(db, f, results_rx, local_rx, capture_of=None):
    """`f` (fn or closure returning bool) is true only if results.get(n) is None and n != local.
    Returns ('ok', index of the node parameter) | ('bad', why) | ('unknown', why).
    Every path is a row (literals on H = "n has a result", L = "n is the local node", returned literal/constant);
    the row is checked under all valuations of (H, L) it admits."""
    ss = pathsum.summaries(db, f)
    if not ss:
        return ("unknown", "no path summary")

    def sub(s):
        return capture_of(s) if capture_of else s
    nodes = set()

    def atom(e):
        """('H'|'L', polarity, node) for a boolean expression, ('const', b), or None."""
        e = peel(e)
        cv = pathsum.const_value(e)
        if cv is not None:
            return ("const", bool(cv))
        if e[0] == "un" and e[1] == "Not":
            x = atom(e[2])
            if x is None:
                return None
            if x[0] == "const":
                return ("const", not x[1])
            return (x[0], not x[1], x[2])
        if e[0] == "call":
            nm = e[1].get("dn") or e[1].get("n") or ""
            nm2 = e[1].get("n") or ""
            if re.search(r"PartialEq::(ne|eq)$", nm) and len(e[2]) == 2:
                a_, b_ = nshow(peel(e[2][0])), nshow(peel(e[2][1]))
                other = b_ if re.search(local_rx, sub(a_)) else (a_ if re.search(local_rx, sub(b_)) else None)
                if other is None:
                    return None
                return ("L", nm.endswith("eq"), other)
            if re.search(r"Option::(is_none|is_some)$", nm2) and len(e[2]) == 1:
                g_ = peel(e[2][0])
                if g_[0] == "call" and (g_[1].get("n") or "").endswith("FetchResults::get") and re.search(results_rx, sub(nshow(g_[2][0]))):
                    return ("H", nm2.endswith("is_some"), nshow(peel(g_[2][1])))
                return None
            if nm2.endswith("FetchResults::contains") and len(e[2]) == 2 and re.search(results_rx, sub(nshow(e[2][0]))):
                return ("H", True, nshow(peel(e[2][1])))
        return None

    def fact_atom(fa):
        if fa[0] == "variant" and fa[3] in ("None", "Some"):
            e = peel(fa[1])
            if e[0] == "call" and (e[1].get("n") or "").endswith("FetchResults::get") and re.search(results_rx, sub(nshow(e[2][0]))):
                return ("H", (fa[3] == "Some") == bool(fa[4]), nshow(peel(e[2][1])))
            return None
        if fa[0] == "bool":
            x = atom(fa[1])
            if x is None or x[0] == "const":
                return None
            return (x[0], x[1] == fa[2], x[2])
        if fa[0] == "cmp" and fa[1] in ("Eq", "Ne"):
            a_, b_ = nshow(peel(fa[2])), nshow(peel(fa[3]))
            other = b_ if re.search(local_rx, sub(a_)) else (a_ if re.search(local_rx, sub(b_)) else None)
            if other is None:
                return None
            return ("L", fa[1] == "Eq", other)
        return None
    for p, facts, ret in ss:
        lits = {}
        for fa in facts:
            x = fact_atom(fa)
            if x is not None:
                nodes.add(x[2])
                lits[x[0]] = x[1]
        r = atom(ret) if ret is not None else None
        if r is None:
            return ("unknown", "result %s not interpreted" % (nshow(ret)[:100] if ret is not None else None))
        if r[0] != "const":
            nodes.add(r[2])
        for H, L in itertools.product((False, True), repeat=2):
            v = {"H": H, "L": L}
            if any(v[k] != pol for k, pol in lits.items()):
                continue
            val = r[1] if r[0] == "const" else (v[r[0]] == r[1])
            if val and (H or L):
                return ("bad", "true although the node %s" % ("already has a result" if H else "is the local node"))
    if len(nodes) != 1:
        return ("unknown", "tests refer to %d different nodes" % len(nodes))
    mt = re.match(r"^arg(\d+)$", nodes.pop())
    if not mt:
        return ("unknown", "node operand is not a parameter")
    return ("ok", int(mt.group(1)))


def run(ctx):
    db = ctx.db
    ctx.explanation = (
        "Decides structural clauses of the sync announcer/fetcher on path summaries of their loop-free decision functions: "
        "reports follow is_target_reached; the target predicate's comparisons (checked over all orderings of the compared "
        "pairs); the counting fold; exclusion of the local node and of nodes that already have a result from what is "
        "recorded and handed out; who writes the recorded sets.")
    ctx.not_decided = ("that the counts equal the cardinalities a reference model would hold after an arbitrary event sequence; "
                       "Progress figures; construction-time AlreadySynced results")
    ctx.rule_text = "PATH-SUMMARY tables (report, target, count) + EXCL/DOM(local node, eligibility) + WHO"
    ann = Machine(db, "announcer", "radicle::node::sync::announce::Announcer", "radicle::node::sync::announce::Target", A)
    fet = Machine(db, "fetcher", "radicle::node::sync::fetch::Fetcher", "radicle::node::sync::fetch::Target", F)
    for m in (ann, fet):
        if None in (m.local, m.target, m.seeds, m.replicas) or m.fn("is_target_reached") is None or m.fn("success_counts") is None:
            ctx.violated("anchor:%s" % m.name, "the %s's fields/functions were not found (anchor missing): local=%s target=%s seeds=%s replicas=%s" % (
                m.name, m.local, m.target, m.seeds, m.replicas))
            return
    bounds(ctx)
    for m in (ann, fet):
        roles = counts(ctx, m)
        target(ctx, m, roles)
        report(ctx, m)
    local_announcer(ctx, ann)
    record_fetcher(ctx, fet)
    handout(ctx, fet)
    who(ctx, ann, fet)
    driver_order(ctx)


# ------------------------------------------------------------------ rules
def bounds(ctx):
    db = ctx.db
    lb = db.one(r"^radicle::node::sync::ReplicationFactor::lower_bound$")
    ub = db.one(r"^radicle::node::sync::ReplicationFactor::upper_bound$")
    if lb is None or ub is None:
        ctx.violated("anchor:bounds", "ReplicationFactor::lower_bound / upper_bound not found (anchor missing)")
        return
    okl = True
    n = 0
    for p, facts, ret in pathsum.summaries(db, lb) or []:
        n += 1
        s = nshow(ret) if ret else ""
        var = [f[3] for f in facts if f[0] == "variant" and f[4]]
        if "MustReach" in var:
            okl = okl and bool(re.search(r"as MustReach\.0$", s))
        elif "Range" in var:
            okl = okl and s.endswith(".lower")
        else:
            okl = False
    ctx.check("table:lower_bound", okl and n >= 2, "lower_bound is the required count (MustReach) / the lower end of the range", rules.where(lb), fn=lb)
    oku = True
    n = 0
    for p, facts, ret in pathsum.summaries(db, ub) or []:
        n += 1
        var = [f[3] for f in facts if f[0] == "variant" and f[4]]
        a = agg_name(ret) if ret else None
        if "MustReach" in var:
            oku = oku and a is not None and a.endswith("Option::None")
        elif "Range" in var:
            oku = oku and a is not None and a.endswith("Option::Some") and nshow(ret).rstrip("}").endswith(".upper")
        else:
            oku = False
    ctx.check("table:upper_bound", oku and n >= 2, "upper_bound is None for MustReach and the upper end for a range", rules.where(ub), fn=ub)


def counts(ctx, m):
    db = ctx.db
    sc = m.fn("success_counts")
    res, why = count_roles(ctx, m, sc)
    if res is None:
        ctx.ob("%s:count:fold" % m.name, "inconclusive", "the counting fold of %s::success_counts was not understood: %s" % (m.name, why), rules.where(sc), fn=sc)
        return {}
    roles, src = res
    tot = [c for c, r in roles.items() if r == "total"]
    pref = [c for c, r in roles.items() if r == "preferred"]
    ctx.check("%s:count:total" % m.name, len(tot) == 1, "one component of the counts grows by exactly one for every counted record (%s)" % roles, rules.where(sc), fn=sc)
    ctx.check("%s:count:preferred" % m.name, len(pref) == 1,
              "one component grows by one exactly when the node is in the target's preferred seeds (%s)" % roles, rules.where(sc), fn=sc)
    # what is folded over: the recorded successes
    if m.name == "announcer":
        synced = field_by_type(db, m.adt, r"^alloc::collections::btree::map::BTreeMap<radicle_crypto::PublicKey,")
        ok = len(synced) == 1 and re.search(r"BTreeMap::keys\(arg1\.%s\)$" % re.escape(synced[0]), src or "") is not None
        ctx.check("announcer:count:source", ok, "the counts are taken over the keys of the synced map (one per node) — %s" % src, rules.where(sc), fn=sc)
    else:
        resf = field_by_type(db, m.adt, r"^radicle::node::FetchResults$")
        ok = len(resf) == 1 and re.search(r"FetchResults::success\(arg1\.%s\)$" % re.escape(resf[0]), src or "") is not None
        ctx.check("fetcher:count:source", ok, "the counts are taken over the successful fetch results — %s" % src, rules.where(sc), fn=sc)
        sx = db.one(r"^radicle::node::FetchResults::success$")
        oks = False
        if sx is not None:
            for cf in db.find(r"^radicle::node::FetchResults::success::\{closure#0\}$"):
                for p, facts, ret in pathsum.summaries(db, cf) or []:
                    a = agg_name(ret) if ret else None
                    if a and a.endswith("Option::Some"):
                        oks = any(f[0] == "variant" and f[3] == "Success" and f[4] for f in facts)
                        if not oks:
                            break
        ctx.check("fetcher:count:success-only", oks, "FetchResults::success yields only FetchResult::Success records", rules.where(sx) if sx else "", fn=sx)
    return roles


def target(ctx, m, roles):
    db = ctx.db
    fn = m.fn("is_target_reached")
    ss = pathsum.summaries(db, fn)
    if not ss:
        ctx.ob("%s:target:paths" % m.name, "inconclusive", "is_target_reached is not a small loop-free function any more", rules.where(fn), fn=fn)
        return
    if not roles:
        ctx.ob("%s:target:table" % m.name, "inconclusive", "count roles unknown (see the count rule)", rules.where(fn), fn=fn)
        return
    rows = []
    outcomes = set()
    problems = []
    unknown = []
    for p, facts, ret in ss:
        outs = outcome_of(ret)
        if outs is None:
            unknown.append("unrecognised result %s" % nshow(ret)[:160])
            continue
        for extra, name in outs:
            lits = {}
            contradictory = False
            loose = []
            for f in list(facts) + ([extra] if extra else []):
                l = literal_of(m, f, roles)
                if l is None:
                    loose.append(f)
                    continue
                if l[0] == "MISMATCH":
                    problems.append(l[1])
                    continue
                if l[0] in lits and lits[l[0]] != l[1]:
                    contradictory = True
                lits[l[0]] = l[1]
            if contradictory:
                continue
            rows.append((lits, name, loose))
            if name != "none":
                outcomes.add(name)
    has_pref = any(re.search("Preferred", o) for o in outcomes)
    nrows = 0
    for lits, name, loose in rows:
        nrows += 1
        for v in assignments():
            if any(v[a] != pol for a, pol in lits.items()):
                continue
            if name == "none":
                ok = spec_none(v, has_pref)
                msg = "no outcome although the target is met"
            else:
                ok = spec_some(v, name)
                msg = "outcome %s although its condition does not hold" % name
                if ok is None:
                    unknown.append("unknown outcome %s" % name)
                    break
            if not ok:
                desc = "%s when %s" % (msg, describe(v))
                (unknown if loose else problems).append(desc)
                break
    ctx.floor("%s:target:rows" % m.name, nrows, 3, "decision rows of is_target_reached")
    if problems:
        ctx.violated("%s:target:table" % m.name, "is_target_reached reports %s" % "; ".join(sorted(set(problems))[:3]), rules.where(fn), fn=fn)
    elif unknown:
        ctx.ob("%s:target:table" % m.name, "inconclusive", "is_target_reached has rows the rule does not interpret: %s" % "; ".join(sorted(set(unknown))[:3]), rules.where(fn), fn=fn)
    else:
        ctx.held("%s:target:table" % m.name,
                 "every outcome of is_target_reached is returned only under its condition, and None only when the target is not met "
                 "(%d rows x all orderings; outcomes %s)" % (nrows, sorted(outcomes)), rules.where(fn), fn=fn)


def describe(v):
    def o(pair):
        return "<" if not v[(pair, "ge")] else ("=" if v[(pair, "eq")] else ">")
    return "seeds %s, preferred %s |seeds|, %s upper bound, total %s min, total %s max" % (
        "empty" if v["E"] else "non-empty", o("seeds"), "with" if v["U"] else "no", o("min"), o("max"))


SUCCESS = r"(announce|fetch)::Success::Success$|FetcherResult::TargetReached$|AnnouncerResult::Success$"
FAILURE = r"TargetMissed::TargetMissed$|TimedOut::TimedOut$|FetcherResult::TargetError$|AnnouncerResult::TimedOut$"


def result_class(db, e, depth=0):
    """Classes of result constructed by expression e: subset of {'success','failure','continue','break'}."""
    out = set()
    if e is None or depth > 3:
        return out
    for x in walk(e):
        an = agg_name(x) if x[0] == "agg" else None
        if an:
            if re.search(SUCCESS, an):
                out.add("success")
            if re.search(FAILURE, an):
                out.add("failure")
            if an.endswith("ControlFlow::Continue"):
                out.add("continue")
            if an.endswith("ControlFlow::Break"):
                out.add("break")
        if x[0] == "call" and x[1].get("n") and x[1]["n"].startswith("radicle::node::sync::"):
            callee = db.one("^" + re.escape(x[1]["n"]) + "$")
            if callee is not None and not re.search(r"::(progress|missing_seeds|is_target_reached|success_counts)$", callee["key"]):
                for p, facts, ret in pathsum.summaries(db, callee, 64) or []:
                    out |= result_class(db, ret, depth + 1)
    return out


def report(ctx, m):
    db = ctx.db
    names = ["finished"] + (["timed_out"] if m.name == "announcer" else ["finish"])
    for n in names:
        fn = m.fn(n)
        if fn is None:
            ctx.violated("%s:report:%s" % (m.name, n), "%s not found (anchor missing)" % n)
            continue
        rows = []   # (side, classes)
        und = []
        for p, facts, ret in pathsum.summaries(db, fn) or []:
            side = None
            for f in facts:
                if f[0] == "variant" and nshow(f[1]).endswith("::is_target_reached(arg1)") and f[3] in ("Some", "None"):
                    side = "some" if (f[3] == "Some") == bool(f[4]) else "none"
            r = peel(ret) if ret else None
            if side is None and r is not None and r[0] == "call" and (r[1].get("n") or "").endswith("Option::map_or") and len(r[2]) == 3 \
                    and nshow(peel(r[2][0])).endswith("::is_target_reached(arg1)"):
                rows.append(("none", result_class(db, r[2][1])))
                clo = peel(r[2][2])
                cl = set()
                if clo[0] == "agg" and isinstance(clo[1], dict) and clo[1].get("closure"):
                    for cf in flow.closure_family(db, fn, clo[1]["closure"]):
                        for p2, f2, r2 in pathsum.summaries(db, cf) or []:
                            cl |= result_class(db, r2)
                rows.append(("some", cl))
                continue
            if side is None:
                # the decision is taken on something *derived* from is_target_reached() (filter / and_then / ..): then
                # neither side of it pins the target predicate, and the report no longer follows it
                derived = [f for f in facts if f[0] in ("variant", "bool") and "::is_target_reached(arg1)" in nshow(f[1])]
                if derived and (result_class(db, ret) & {"success", "failure", "break", "continue"}):
                    rows.append(("derived:%s" % nshow(derived[0][1])[:80], result_class(db, ret)))
                else:
                    und.append(nshow(ret)[:120] if ret else "no result")
                continue
            rows.append((side, result_class(db, ret)))
        want_some = {"success"} if n != "finished" else {"success", "break"}
        want_none = {"failure"} if n != "finished" else {"continue"}
        bad = []
        for side, cl in rows:
            if side.startswith("derived:"):
                bad.append("it builds %s depending on %s, which does not determine whether the target is reached" % (sorted(cl), side[8:]))
                continue
            if side == "some" and not (want_some <= cl and not (cl & {"failure", "continue"})):
                bad.append("on the target-reached side it builds %s" % sorted(cl))
            if side == "none" and not (want_none <= cl and not (cl & {"success", "break"})):
                bad.append("on the target-missed side it builds %s" % sorted(cl))
        sides = set(s for s, _ in rows if not s.startswith("derived:"))
        if bad:
            ctx.violated("%s:report:%s" % (m.name, n), "%s does not report success exactly when is_target_reached() is Some: %s" % (n, "; ".join(bad[:2])), rules.where(fn), fn=fn)
        elif und or sides != {"some", "none"}:
            ctx.ob("%s:report:%s" % (m.name, n), "inconclusive", "%s: result not derived from is_target_reached() in a recognised way (%s)" % (n, und[:1]), rules.where(fn), fn=fn)
        else:
            ctx.held("%s:report:%s" % (m.name, n), "%s reports success exactly on the Some side of is_target_reached() and %s otherwise" % (
                n, "Continue" if n == "finished" else "a failure/timeout"), rules.where(fn), fn=fn)


def local_announcer(ctx, m):
    db = ctx.db
    sw = m.fn("synced_with")
    new = m.fn("new")
    if sw is None or new is None:
        ctx.violated("announcer:anchor", "Announcer::synced_with / new not found (anchor missing)")
        return
    synced = field_by_type(db, m.adt, r"^alloc::collections::btree::map::BTreeMap<radicle_crypto::PublicKey,")
    eff = [bb for bb, callee in rules.field_mut_calls(sw, synced[0] if synced else "synced", r"announce::Announcer")]
    ctx.floor("announcer:synced_with:record", len(eff), 1, "recording sites in synced_with")

    def is_local(f):
        if f[0] != "cmp" or f[1] != "Eq":
            return False
        a, b = nshow(peel(f[2])), nshow(peel(f[3]))
        return ("arg2" in (a, b)) and any(x.endswith("arg1.%s" % m.local) for x in (a, b))
    ok, deny, bad = rules.excl_check(db, sw, eff, is_local)
    ctx.check("announcer:local:synced_with", bool(ok and deny), "synced_with records nothing when the node is the local node",
              rules.where(sw), detail={"path": list(bad.values())[:1]}, fn=sw)
    # and on that side the answer is Continue
    okc = True
    seen = 0
    for p, facts, ret in pathsum.summaries(db, sw) or []:
        if any(is_local(f) for f in facts):
            seen += 1
            cl = result_class(db, ret)
            okc = okc and "continue" in cl and "break" not in cl and "success" not in cl
    ctx.check("announcer:local:continue", okc and seen >= 1, "a sync report about the local node never completes the process", rules.where(sw), fn=sw)
    # Announcer::new: the local node is removed from every configured node set before any other use of that set
    cfg_adt = "radicle::node::sync::announce::AnnouncerConfig"
    sets = field_by_type(db, cfg_adt, r"^alloc::collections::btree::set::BTreeSet<radicle_crypto::PublicKey>$")
    loc = field_by_type(db, cfg_adt, NODE_TY)
    ctx.floor("announcer:new:sets", len(sets), 2, "node sets of AnnouncerConfig")
    g = graph(new)
    for s_ in sets:
        rem = []
        for bb, t, c in db.calls(new):
            if (c.get("n") or "").endswith("BTreeSet::remove") and len(t[2]) == 2:
                a = nshow(peel_calls(expr_operand(new, t[2][0])))
                b = nshow(peel_calls(expr_operand(new, t[2][1])))
                if a == "arg1.%s" % s_ and loc and b == "arg1.%s" % loc[0]:
                    rem.append(bb)
        uses = mentions(new, 1, s_)
        others = [bb for bb in uses if bb not in rem]
        ok = bool(rem) and all(any(g.dominates(r, u) for r in rem) for u in others)
        ctx.check("announcer:local:new:%s" % s_, ok,
                  "Announcer::new removes the local node from `%s` before any other use of that set (%d uses)" % (s_, len(others)),
                  rules.where(new, rem[0] if rem else None), fn=new)


def mentions(fn, local, field):
    """Blocks in which place `_local.<field>` is mentioned (statement operand, borrow or call argument)."""
    out = set()
    pat = re.compile(r"^\.\d+:%s$" % re.escape(field))

    def place_hit(pl):
        return isinstance(pl, (list, tuple)) and len(pl) == 2 and pl[0] == local and pl[1] and isinstance(pl[1][0], str) and pat.match(pl[1][0])

    def scan(x):
        if isinstance(x, (list, tuple)):
            if place_hit(x):
                return True
            return any(scan(y) for y in x)
        return False
    for i, b in enumerate(fn["blocks"]):
        if b.get("c"):
            continue
        if any(scan(s) for s in b["s"]) or scan(b["t"]):
            out.add(i)
    return out


def record_fetcher(ctx, m):
    """Every FetchResults::push on the fetcher's results is behind the eligibility test (no result yet, not local)."""
    db = ctx.db
    resf = field_by_type(db, m.adt, r"^radicle::node::FetchResults$")
    if len(resf) != 1:
        ctx.violated("fetcher:anchor:results", "the fetcher's FetchResults field was not found")
        return
    inc = m.fn("include_node")
    pr = eligible_pred(db, inc, r"^arg1\.%s$" % re.escape(resf[0]), r"^arg1\.%s$" % re.escape(m.local)) if inc is not None else ("unknown", "include_node not found")
    pred_arg = pr[1] if pr[0] == "ok" else None
    if pr[0] == "ok" and pr[1] == 2:
        ctx.held("fetcher:eligible:include_node", "include_node(n) holds only if n has no result yet and is not the local node", rules.where(inc), fn=inc)
    elif pr[0] == "bad":
        ctx.violated("fetcher:eligible:include_node", "include_node(n) can be %s" % pr[1], rules.where(inc), fn=inc)
    else:
        ctx.ob("fetcher:eligible:include_node", "inconclusive", "include_node: %s" % (pr[1],), rules.where(inc) if inc else "", fn=inc)
    sites = []
    for fn in db.find(F):
        for bb, callee in rules.field_mut_calls(fn, resf[0], r"fetch::Fetcher"):
            if (callee or "").endswith("FetchResults::push"):
                sites.append((fn, bb))
    ctx.floor("fetcher:record:sites", len(sites), 1, "sites recording a fetch result")
    for fn, bb in sites:
        t = fn["blocks"][bb]["t"]
        node = nshow(peel_calls(expr_operand(fn, t[2][1])))

        def guarded(f):
            if f[0] == "bool" and f[2] is True and pred_arg == 2:
                e = peel(f[1])
                if e[0] == "call" and (e[1].get("n") or "").endswith("Fetcher::include_node") and len(e[2]) == 2:
                    return nshow(peel_calls(e[2][1])) == node and nshow(peel_calls(e[2][0])) == "arg1"
            return False
        ok, al, bad = rules.dom_check(db, fn, [bb], guarded)
        held = bool(ok and al)
        if not held:
            # the two halves of the test written in line
            def no_result(f):
                if f[0] == "variant" and f[3] in ("None", "Some") and ((f[3] == "None") == bool(f[4])):
                    e = peel(f[1])
                    return e[0] == "call" and (e[1].get("n") or "").endswith("FetchResults::get") and nshow(peel_calls(e[2][0])) == "arg1.%s" % resf[0] \
                        and nshow(peel_calls(e[2][1])) == node
                if f[0] == "bool" and f[2] is False:
                    e = peel(f[1])
                    return e[0] == "call" and (e[1].get("n") or "").endswith("FetchResults::contains") and nshow(peel_calls(e[2][1])) == node
                return False

            def not_local(f):
                if f[0] == "cmp" and f[1] == "Ne":
                    a_, b_ = nshow(peel(f[2])), nshow(peel(f[3]))
                    return {a_, b_} == {node, "arg1.%s" % m.local}
                return False
            ok1, al1, bad1 = rules.dom_check(db, fn, [bb], no_result)
            ok2, al2, bad2 = rules.dom_check(db, fn, [bb], not_local)
            held = bool(ok1 and al1 and ok2 and al2)
        ctx.check("fetcher:record:%s" % cfg.short(db.root_of(fn)["key"]), held,
                  "a fetch result is recorded only for a node that has no result yet and is not the local node "
                  "(otherwise the local node, or one node twice, is counted towards the target)",
                  rules.where(fn, bb), detail={"path": list(bad.values())[:1]}, fn=fn)


def handout(ctx, m):
    db = ctx.db
    resf = field_by_type(db, m.adt, r"^radicle::node::FetchResults$")
    if len(resf) != 1:
        return
    R, L = re.escape(resf[0]), re.escape(m.local)
    inc = m.fn("include_node")
    inc_ok = inc is not None and eligible_pred(db, inc, r"^arg1\.%s$" % R, r"^arg1\.%s$" % L) == ("ok", 2)
    for n in ("next_node", "next_fetch"):
        fn = m.fn(n)
        if fn is None:
            ctx.violated("fetcher:handout:%s" % n, "%s not found (anchor missing)" % n)
            continue
        verdicts = []
        for p, facts, ret in pathsum.summaries(db, fn) or []:
            verdicts.append(handout_expr(db, fn, ret, facts, R, L, inc_ok))
        if verdicts and all(v is True for v in verdicts):
            ctx.held("fetcher:handout:%s" % n, "%s hands out a node only if it has no result yet and is not the local node" % n, rules.where(fn), fn=fn)
        elif any(v is False for v in verdicts):
            ctx.violated("fetcher:handout:%s" % n, "%s can hand out a node without the eligibility test (no result yet, not the local node)" % n, rules.where(fn), fn=fn)
        else:
            ctx.ob("fetcher:handout:%s" % n, "inconclusive", "%s: the way the node is selected is not one the rule interprets" % n, rules.where(fn), fn=fn)


def closure_of(db, fn, e):
    e = peel(e)
    if e[0] == "agg" and isinstance(e[1], dict) and e[1].get("closure"):
        fam = list(flow.closure_family(db, fn, e[1]["closure"]))
        if len(fam) == 1:
            return fam[0], e[2]
    return None, None


def pred_call_ok(db, fn, call, caps, R, L, inc_ok, node_expr):
    """`call` is an application of an eligibility predicate to node_expr."""
    call = peel(call)
    if call[0] != "call":
        return None
    nm = call[1].get("n") or ""
    if nm.endswith("Fetcher::include_node") and len(call[2]) == 2:
        if not inc_ok:
            return None        # include_node itself is reported by its own obligation
        return nshow(peel_calls(call[2][1])) == node_expr
    # a local closure: callee is the closure body, args = (env, (n,))
    mt = re.search(r"\{closure#\d+\}$", nm)
    if mt and len(call[2]) == 2:
        cf = db.one("^" + re.escape(nm) + "$")
        if cf is None:
            return None
        env = peel(call[2][0])
        # env is a capture of the enclosing closure: arg1.<i> -> caps[i] -> itself a closure aggregate with its own captures
        src = None
        if env[0] == "field" and peel(env[1])[0] == "arg" and caps is not None and env[3] < len(caps):
            src = peel(caps[env[3]])
        elif env[0] == "agg":
            src = env
        if src is None or src[0] != "agg":
            return None
        inner_caps = [nshow(peel_calls(x)) for x in src[2]]

        def capture_of(s):
            return re.sub(r"^arg1\.(\d+)$", lambda mm: inner_caps[int(mm.group(1))] if int(mm.group(1)) < len(inner_caps) else s, s)
        k = eligible_pred(db, cf, r"^arg1\.%s$" % R, r"^arg1\.%s$" % L, capture_of)
        if k[0] == "unknown":
            return None
        if k != ("ok", 2):
            return False
        a = peel(call[2][1])
        if a[0] == "agg" and a[2]:
            return nshow(peel_calls(a[2][0])) == node_expr
    return None


def mentions_test(db, fn, e, depth=0):
    """Does expression e (including the bodies of closures it builds) apply any has-result / local-node test?"""
    if e is None or depth > 3:
        return False
    for x in walk(e):
        if x[0] == "call":
            nm = x[1].get("n") or ""
            if re.search(r"Fetcher::include_node$|FetchResults::(get|contains)$", nm):
                return True
            if re.search(r"\{closure#\d+\}$", nm):
                cf = db.one("^" + re.escape(nm) + "$")
                if cf is not None and any(mentions_test(db, cf, r2, depth + 1) or any(mentions_test(db, cf, f[1], depth + 1) for f in f2 if f[0] in ("bool", "variant"))
                                          for p, f2, r2 in pathsum.summaries(db, cf, 64) or []):
                    return True
        if x[0] == "agg" and isinstance(x[1], dict) and x[1].get("closure"):
            for cf in flow.closure_family(db, fn, x[1]["closure"]):
                for p, f2, r2 in pathsum.summaries(db, cf, 64) or []:
                    if mentions_test(db, cf, r2, depth + 1) or any(mentions_test(db, cf, f[1], depth + 1) for f in f2 if f[0] in ("bool", "variant")):
                        return True
    return False


def handout_expr(db, fn, ret, facts, R, L, inc_ok):
    """True: guarded; False: hands out unguarded; None: not understood."""
    if ret is None:
        return None
    r = peel(ret)
    a = agg_name(r)
    if a and a.endswith("Option::None"):
        return True
    if r[0] == "call":
        nm = r[1].get("n") or ""
        if nm.endswith("Option::filter") and len(r[2]) == 2:
            cf, caps = closure_of(db, fn, r[2][1])
            if cf is None:
                return None
            oks = []
            for p, f2, r2 in pathsum.summaries(db, cf) or []:
                cv = pathsum.const_value(r2) if r2 is not None else None
                if cv == 0:
                    oks.append(True)
                    continue
                # the element is arg2; its node is arg2.0 / arg2.node / arg2 itself
                call = peel(r2)
                capsub = substitute_caps(call, caps)
                node = None
                if capsub[0] == "call" and len(capsub[2]) == 2:
                    node = nshow(peel_calls(capsub[2][1]))
                if node is None or re.match(r"^arg2(\.\w+)?$", node) is None:
                    oks.append(None)
                else:
                    oks.append(pred_call_ok(db, cf, capsub, caps, R, L, inc_ok, node))
            if any(o is False for o in oks):
                return False
            if any(o is None for o in oks) or not oks:
                return None if mentions_test(db, fn, r) else False
            return True
        if re.search(r"Iterator::find_map$", nm) and len(r[2]) == 2:
            cf, caps = closure_of(db, fn, r[2][1])
            if cf is None:
                return None
            oks = []
            for p, f2, r2 in pathsum.summaries(db, cf) or []:
                x = peel(r2) if r2 is not None else None
                an = agg_name(x) if x is not None else None
                if an and an.endswith("Option::None"):
                    oks.append(True)
                    continue
                if x is not None and x[0] == "call" and (x[1].get("n") or "").endswith("bool::then_some") and len(x[2]) == 2:
                    node = nshow(peel_calls(x[2][1]))
                    oks.append(pred_call_ok(db, cf, x[2][0], caps, R, L, inc_ok, node))
                    continue
                oks.append(None)
            if any(o is False for o in oks):
                return False
            if any(o is None for o in oks) or not oks:
                return None if mentions_test(db, fn, r) else False
            return True
    if a and a.endswith("Option::Some"):
        # direct form: Some(n) behind literals on the path
        node = nshow(peel_calls(r[2][0])) if r[2] else None
        for f in facts:
            if f[0] == "bool" and f[2] is True and pred_call_ok(db, fn, f[1], None, R, L, inc_ok, node):
                return True
    # not a recognised selection: unguarded if no test is applied anywhere, otherwise not understood
    tested = mentions_test(db, fn, r) or any(mentions_test(db, fn, f[1]) for f in facts if f[0] in ("bool", "variant"))
    return None if tested else False


def substitute_caps(call, caps):
    """In a closure body, `arg1.<i>` is capture i; for `include_node(arg1.0, ..)` where capture 0 is the fetcher
    itself the receiver check in pred_call_ok only looks at the node argument, so nothing to rewrite."""
    return call


def who(ctx, ann, fet):
    db = ctx.db
    synced = field_by_type(db, ann.adt, r"^alloc::collections::btree::map::BTreeMap<radicle_crypto::PublicKey,")
    sites = []
    for fn in db.all_fns():
        if fn["crate"] != "radicle":
            continue
        for fld in synced:
            for bb, callee in rules.field_mut_calls(fn, fld, r"announce::Announcer$"):
                sites.append((fn, bb, None))
            for bb, j, s_ in rules.field_writes(fn, fld, r"announce::Announcer$"):
                sites.append((fn, bb, j))
        for bb, j, k, ops in rules.agg_sites(fn, r"^radicle::node::sync::announce::Announcer$"):
            sites.append((fn, bb, j))
    rules.who(ctx, "who:Announcer.synced", "write of the announcer's synced map", sites, [A + r"(new|synced_with)$"], db=db)
    ctx.floor("who:Announcer.synced", len(sites), 2, "writes of the synced map")
    resf = field_by_type(db, fet.adt, r"^radicle::node::FetchResults$")
    sites = []
    for fn in db.all_fns():
        if fn["crate"] != "radicle":
            continue
        for fld in resf:
            for bb, callee in rules.field_mut_calls(fn, fld, r"fetch::Fetcher$"):
                sites.append((fn, bb, None))
            for bb, j, s_ in rules.field_writes(fn, fld, r"fetch::Fetcher$"):
                sites.append((fn, bb, j))
        for bb, j, k, ops in rules.agg_sites(fn, r"^radicle::node::sync::fetch::Fetcher$"):
            sites.append((fn, bb, j))
    rules.who(ctx, "who:Fetcher.results", "write of the fetcher's results", sites, [F + r"(new|fetch_complete|fetch_failed)$"], db=db)
    ctx.floor("who:Fetcher.results", len(sites), 2, "writes of the fetch results")


def driver_order(ctx):
    """The announcer only learns that a seed synced from `RefsSynced` events.  `Node::announce` therefore subscribes to the
    node's events *before* it asks the node to announce: a seed that syncs between the announcement and a later
    subscription is never reported, and the announcer times out although its target was met."""
    db = ctx.db
    fn = db.one(r"^radicle::node::Node::announce$")
    if fn is None:
        ctx.ob("announcer:order:subscribe-first", "inconclusive", "Node::announce (the driver of the announcer) was not found", "")
        return
    g = graph(fn)
    sub = [bb for bb, t, c in db.calls(fn) if re.search(r"Handle>?::subscribe$", c.get("n") or "")]
    ann = [bb for bb, t, c in db.calls(fn) if re.search(r"Handle>?::announce_refs$", c.get("n") or "")]
    syn = [bb for bb, t, c in db.calls(fn) if (c.get("n") or "").endswith("Announcer::synced_with")]
    if not sub or not ann or not syn:
        ctx.ob("announcer:order:subscribe-first", "inconclusive", "Node::announce no longer has the subscribe / announce_refs / synced_with shape", rules.where(fn), fn=fn)
        return
    ok = all(any(g.dominates(s, a) for s in sub) for a in ann)
    ctx.check("announcer:order:subscribe-first", ok,
              "the driver subscribes to the node's events before it triggers the announcement, so no sync event can fall between the two "
              "(a missed event makes the announcer report a timeout although the target was met)", rules.where(fn, ann[0]), fn=fn)
