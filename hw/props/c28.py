"""C28 — storage cleanup never deletes the local or delegate namespaces (structural).

Decided: in Repository::clean every reference deletion is excluded after
`*local == id` or the delegate membership test (contains / iter().any(==) / a binary
search over a sorted sequence) held for the namespace being visited
(and is dominated by both tests failing), the tested `id` is the one whose refs
are globbed and the delegate set comes from self.delegates(); in Storage::clean
the whole repository is removed only when the local node's signed refs are absent;
who may remove a repository; the fetch worker recomputes the identity head (whose document
names the delegates) after every successful fetch."""
import re

from .. import cfg, rules, flow
from ..cfg import expr_operand, show, peel, peel_calls, base_value

RC = r"^radicle::storage::git::Repository::clean$"
SC = r"^<radicle::storage::git::Storage as radicle::storage::WriteStorage>::clean$"
DEL = r"^git2::reference::Reference::delete$"
REM = r"^radicle::storage::git::Repository::remove$"


def run(ctx):
    _run(ctx)
    # the delegate set `clean` protects is read from the identity document at the canonical identity head: it is only as
    # fresh as the last set_identity_head() of the fetch worker
    from . import _worker
    _worker.identity_refresh(ctx, "delegates")


def _run(ctx):
    db = ctx.db
    ctx.explanation = (
        "Decides structurally: reference deletion in Repository::clean is dominated by `*local != id` and "
        "`!delegates.contains(&id)` for the namespace id whose refs are deleted, with delegates = self.delegates(); "
        "Repository::remove in Storage::clean is dominated by SignedRefsAt::load(local key, repo) being None; "
        "who may call Repository::remove / fs::remove_dir_all in radicle::storage.")
    ctx.not_decided = "git-level effects of the glob; other deletion paths unrelated to cleanup (cob removal, fetch prune)"
    ctx.rule_text = "EXCL + DOM + FLOW + WHO"
    rc = db.one(RC)
    sc = db.one(SC)
    if rc is None or sc is None:
        ctx.violated("anchor:clean", "Repository::clean / Storage::clean not found (anchor missing)")
        return
    dels = rules.call_blocks(rc, DEL)
    ctx.floor("clean:delete", len(dels), 1, "Reference::delete sites in Repository::clean")

    def is_local_eq(f, want):
        if f[0] != "cmp" or f[1] != want:
            return False
        a, b = show(peel_calls(f[2])), show(peel_calls(f[3]))
        return "arg2" in (a, b)

    MEMBER = re.compile(r"BTreeSet::contains$|HashSet::contains$|slice::contains$|::contains$|::contains_key$")

    def contains(f, want):
        """fact `id is (not) a member of the delegate collection`: contains / iter().any(==) / binary_search().is_ok()"""
        if f[0] == "bool":
            e = peel(f[1])
            if cfg.callee_is(e, MEMBER):
                return f[2] == want and "delegates" in show(e[2][0])
            if cfg.callee_is(e, re.compile(r"Iterator::any$")) and "delegates" in show(e[2][0]):
                return f[2] == want
            if cfg.callee_is(e, re.compile(r"Result::is_(ok|err)$")):
                inner = peel(e[2][0])
                if cfg.callee_is(inner, re.compile(r"::binary_search(_by|_by_key)?$")) and "delegates" in show(inner[2][0]):
                    return (f[2] == want) == (e[1].get("n") or "").endswith("is_ok")
            return False
        if f[0] == "variant" and f[3] in ("Ok", "Err"):
            e = peel(f[1])
            if cfg.callee_is(e, re.compile(r"::binary_search(_by|_by_key)?$")) and "delegates" in show(e[2][0]):
                return ((f[3] == "Ok") == bool(f[4])) == want
        return False
    eq_blocks = [bb for bb, t, c in db.calls(rc) if (c.get("dn") in ("core::cmp::PartialEq::eq", "core::cmp::PartialEq::ne"))
                 and "arg2" in show(peel_calls(expr_operand(rc, t[2][0]))) + show(peel_calls(expr_operand(rc, t[2][1])))]
    ct_blocks = [bb for bb, t, c in db.calls(rc) if re.search(r"::contains$|::contains_key$|Iterator::any$|::binary_search(_by|_by_key)?$", c.get("n") or "")
                 and "delegates" in show(peel_calls(expr_operand(rc, t[2][0])))]
    # a binary search is a membership test only on a sorted sequence
    for bb, t, c in db.calls(rc):
        if re.search(r"::binary_search(_by|_by_key)?$", c.get("n") or "") and "delegates" in show(peel_calls(expr_operand(rc, t[2][0]))):
            src = show(peel_calls(expr_operand(rc, t[2][0])))
            g_ = cfg.graph(rc)
            sorts = [b2 for b2, t2, c2 in db.calls(rc) if re.search(r"::sort(_unstable)?(_by|_by_key)?$", c2.get("n") or "") and g_.dominates(b2, bb)]
            ordered = bool(sorts) or re.search(r"BTreeSet|BTreeMap", src) is not None
            ctx.check("mech:clean:delegate-lookup", ordered,
                      "the delegate lookup is a binary search over a sequence that is sorted (the identity document lists delegates in document order, "
                      "not key order: an unsorted search misses delegates, whose namespaces are then deleted)", rules.where(rc, bb), detail=src[:200], fn=rc)
    ctx.floor("clean:guards", len(eq_blocks) + len(ct_blocks), 2, "local-equality and delegate-membership tests in Repository::clean")
    reeval = set(eq_blocks) | set(ct_blocks)
    for label, deny, allow in (("local", lambda f: is_local_eq(f, "Eq"), lambda f: is_local_eq(f, "Ne")),
                               ("delegate", lambda f: contains(f, True), lambda f: contains(f, False))):
        ok, d, bad = rules.excl_check(db, rc, dels, deny, reeval_blocks=reeval)
        ctx.check("excl:clean:%s" % label, bool(ok and d), "no reference of the %s namespace is deleted" % label,
                  rules.where(rc, dels[0] if dels else None), detail={"path": list(bad.values())[:1]}, fn=rc)
        ok, a, bad = rules.dom_check(db, rc, dels, allow)
        ctx.check("dom:clean:%s" % label, bool(ok and a), "deletion only after the %s test failed" % label,
                  rules.where(rc, dels[0] if dels else None), detail={"path": list(bad.values())[:1]}, fn=rc)
    # the id tested is the id whose refs are enumerated; delegates come from self.delegates()
    roots = set()
    for bb in eq_blocks:
        t = rc["blocks"][bb]["t"]
        for a_ in t[2]:
            if "arg2" not in show(peel_calls(expr_operand(rc, a_))):
                roots.add(_rk(flow.root_place(rc, a_)))
    for bb in ct_blocks:
        t = rc["blocks"][bb]["t"]
        if (t[1].get("n") or "").endswith("Iterator::any"):
            # the id compared is a capture of the predicate closure
            op = t[2][1]
            if op[0] in ("c", "m"):
                for d in cfg.graph(rc).defs().get(op[1][0], []):
                    if d[0] == "stmt" and d[3][0] == "agg":
                        for cap in d[3][2]:
                            roots.add(_rk(flow.root_place(rc, cap)))
            continue
        roots.add(_rk(flow.root_place(rc, t[2][1])))
    glob_roots = set()
    for bb, t, c in db.calls(rc):
        if re.search(r"references_glob$", c.get("n") or ""):
            # every key-typed value that flows into the glob expression
            e = peel_calls(expr_operand(rc, t[2][1]))
            for sub in _subcalls(e):
                if sub[0] == "call" and re.search(r"radicle_crypto::from$|Component.*From.*::from$|::from$", sub[1].get("n") or "") \
                        and any("PublicKey" in g_ for g_ in sub[1].get("ga", [])):
                    blk = sub[3]
                    glob_roots.add(_rk(flow.root_place(rc, rc["blocks"][blk]["t"][2][0])))
    ok_id = len(roots) == 1 and None not in roots and glob_roots == roots
    ctx.check("flow:clean:id", ok_id, "the namespace tested is the namespace whose references are globbed and deleted",
              rules.where(rc), detail="tested=%s globbed=%s" % (sorted(map(str, roots)), sorted(map(str, glob_roots))), fn=rc)
    dl = False
    ALLOWED = re.compile(r"IntoIterator::into_iter$|Iterator::(map|collect|copied|cloned)$|Try::branch$|ReadRepository::delegates$|"
                         r"Deref::deref$|From::from$|Into::into$|::into_iter$|::iter$")
    for bb in ct_blocks:
        ex = peel_calls(expr_operand(rc, rc["blocks"][bb]["t"][2][0]))
        e = show(ex)
        calls = [x for x in cfg.walk(ex) if x[0] == "call"]
        only = all(ALLOWED.search(x[1].get("dn") or x[1].get("n") or "") for x in calls)
        # the mapping closure only dereferences (`|did| *did`)
        for x in cfg.walk(ex):
            if x[0] == "agg" and isinstance(x[1], dict) and x[1].get("closure"):
                for f in flow.closure_family(db, rc, x[1]["closure"]):
                    for b2, t2, c2 in db.calls(f):
                        if not re.search(r"Deref::deref$", c2.get("dn") or ""):
                            only = False
        dl = dl or ("ReadRepository::delegates(&*arg1)" in e and only)
    ctx.check("flow:clean:delegates", dl, "the delegate set tested is exactly self.delegates() (collected without filtering)", rules.where(rc), fn=rc)

    # Storage::clean
    rems = rules.call_blocks(sc, REM)
    ctx.floor("Storage::clean:remove", len(rems), 1, "Repository::remove call in Storage::clean")

    def nosig(f):
        if f[0] != "variant" or not f[4] or f[3] != "None":
            return False
        return cfg.callee_is(base_value(f[1]), re.compile(r"storage::refs::SignedRefsAt::load$"))
    ok, a, bad = rules.dom_check(db, sc, rems, nosig)
    ctx.check("dom:Storage::clean:remove", bool(ok and a and rems), "the repository is removed only if the local node has no signed refs",
              rules.where(sc, rems[0] if rems else None), detail={"path": list(bad.values())[:1]}, fn=sc)
    for bb in rules.call_blocks(sc, r"storage::refs::SignedRefsAt::load$"):
        t = sc["blocks"][bb]["t"]
        k = show(peel_calls(expr_operand(sc, t[2][0])))
        r1 = flow.root_place(sc, t[2][1])
        same = all(flow.root_place(sc, sc["blocks"][rb]["t"][2][0]) == r1 for rb in rems)
        ctx.check("flow:Storage::clean:load", k.endswith("info.key") and same,
                  "sigrefs are looked up for the local key in the repository that is removed", rules.where(sc, bb),
                  detail="key=%s repo=%s" % (k, r1), fn=sc)

    # WHO may remove
    sites = [(fn, bb, None) for fn, bb in db.call_sites(REM)]
    rules.who(ctx, "who:Repository::remove", "call of Repository::remove", sites,
              [SC,
               # reviewed exception: rollback of a repository that `rad::init` itself just created and failed to finish
               r"^radicle::rad::init$"])
    ctx.floor("who:Repository::remove", len(sites), 1, "callers of Repository::remove")
    sites = [(fn, bb, None) for fn, bb in db.call_sites(r"^std::fs::remove_dir_all$")
             if fn["key"].startswith("radicle::storage")]
    rules.who(ctx, "who:remove_dir_all", "fs::remove_dir_all in radicle::storage", sites, [REM])
    ctx.floor("who:remove_dir_all", len(sites), 1, "remove_dir_all in radicle::storage")


def _rk(r):
    return None if r is None else (r[0], tuple(r[1]))


def _subcalls(e, depth=0):
    if depth > 30 or not isinstance(e, tuple):
        return
    yield e
    for x in e[1:]:
        if isinstance(x, tuple):
            yield from _subcalls(x, depth + 1)
        elif isinstance(x, list):
            for y in x:
                if isinstance(y, tuple):
                    yield from _subcalls(y, depth + 1)
