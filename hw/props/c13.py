"""C13 — no input from a remote peer can crash the node (partial).

PANIC rule: every panic source (explicit panic/assert/unreachable, unwrap/expect,
slice/str/map indexing, Vec/slice/str operations that panic on bad ranges,
RefCell borrows, integer division, bounds checks, process exit) in a function that
is reachable through the workspace call graph from the network entry points and
lies in the reviewed scope (radicle-node wire/service/worker code and the
radicle::node stores it calls) must be listed in the review table below with a
reason.  Sources guarded by a caller-side check have that check verified (so that
deleting the check is reported).  Arithmetic-overflow assertions are excluded
(release builds disable them).  Sources reachable but outside the reviewed scope
operate on data already accepted into local storage and are counted, not decided. 
Guards must compare the very operands passed on; unsigned subtraction is a source
unless dominated by `a >= b`; `Session::fetching` is guarded by `is_connected()`.
sqlite's panicking column accessor `Row::read::<T>` is a panic source: allowed only where
the column's parser accepts everything this node's writer can have stored (primitive,
total parser, keyword set agreeing with the writer, or a reviewed inverse encoding whose
parser functions construct no rejection of their own; UserAgent: every segment ASCII graphic).
`LocalTime - LocalDuration` is a panic source unless the time is the local clock."""
import re

from .. import dbread, cfg, rules, flow, panic
from ..cfg import expr_operand, show, nshow, walk, peel, peel_calls, base_value, graph
from ..panic import Review

ENTRIES = [
    r"^<radicle_node::wire::protocol::Wire<D, S, G> as reactor::reactor::Handler>::(handle_transport_event|handle_listener_event|handle_registered|tick|handle_timer|handover_transport|handover_listener|handle_error)$",
    r"^radicle_node::wire::protocol::Wire::worker_result$",
    r"^<radicle_node::wire::protocol::Wire<D, S, G> as core::iter::traits::iterator::Iterator>::next$",
    r"^radicle_node::worker::upload_pack::pktline::git_request$",
    r"^radicle_node::worker::Worker::is_authorized$",
    r"^radicle_node::worker::upload_pack::upload_pack$",
]
SCOPE = re.compile(r"crates/radicle-node/src/(wire\.rs|wire/|deserializer\.rs|bounded\.rs|service\.rs|service/|worker\.rs|"
                   r"worker/upload_pack\.rs|worker/channels\.rs)|crates/radicle/src/node/(timestamp|address|routing|seed|refs)")


def in_scope(fn):
    return bool(SCOPE.search(fn["file"]))


# ------------------------------------------------------------------ guards
def guard_oid_len(ctx, fn, bb):
    """<Oid as Decode>::decode: from_bytes(..).expect is reached only if len == 20."""
    def eq20(f):
        return f[0] == "cmp" and f[1] == "Eq" and any(x[0] == "const" and x[1].get("v") == "20" for x in (peel(f[2]), peel(f[3])))
    ok, a, bad = rules.dom_check(ctx.db, fn, [bb], eq20)
    return bool(ok and a), "the `len != 20` rejection no longer dominates the expect"


def guard_filter_nonzero(ctx, fn, bb):
    """gossip::Store::filtered `assert!(from <= to)`: every caller must establish since <= until."""
    db = ctx.db
    sites = [(f, b) for f, b in db.call_sites(r"gossip::store::Store::filtered$") if f["unit"] == "radicle_node.rlib" and "Store>::" not in f["key"]]
    if not sites:
        return False, "no caller found"
    for f, b in sites:
        t = f["blocks"][b]["t"]
        a_from = nshow(peel(expr_operand(f, t[2][2]))) if len(t[2]) > 3 else None
        a_to = nshow(peel(expr_operand(f, t[2][3]))) if len(t[2]) > 3 else None

        def le(ft, a_from=a_from, a_to=a_to):
            if ft[0] != "cmp" or ft[1] not in ("Le", "Lt"):
                return False
            # the values compared must be the very values handed to the store (not a clamped/derived copy)
            return a_from is not None and nshow(peel(ft[2])) == a_from and nshow(peel(ft[3])) == a_to
        ok, a, bad = rules.dom_check(db, f, [b], le)
        if not (ok and a):
            return False, "caller %s does not establish from <= to for the values it passes to filtered() (%s, %s)" % (cfg.short(f["key"]), a_from, a_to)
    return True, ""


def guard_announced_nonzero(ctx, fn, bb):
    """gossip::Store::announced `assert_ne!(timestamp, 0)`: callers reachable from the
    network reject a zero timestamp first; own announcements carry Service::timestamp() values (> 0, C29)."""
    db = ctx.db
    ha = db.one(r"^radicle_node::service::Service::handle_announcement$")
    if ha is None:
        return False, "handle_announcement not found"
    eff = rules.call_blocks(ha, r"gossip::store::Store::announced$")

    def nonzero(ft):
        if ft[0] != "cmp" or ft[1] not in ("Ne", "Gt"):
            return False
        s = nshow(ft[2]) + "|" + nshow(ft[3])
        z = any(x[0] == "const" and (x[1].get("v") == "0" or x[1].get("cn", "").endswith(("Timestamp::MIN", "Timestamp::EPOCH")))
                for e_ in (ft[2], ft[3]) for x in walk(e_))
        return "timestamp" in s and z
    ok, a, bad = rules.dom_check(db, ha, eff, nonzero)
    if not (ok and a and eff):
        return False, "handle_announcement does not reject a zero timestamp before gossip::Store::announced"
    return True, ""


def guard_pktline_len(ctx, fn, bb):
    """pktline reader: the declared length is range-checked before it is used as a slice bound."""
    db = ctx.db
    rp = db.one(r"pktline::Reader::read_pktline$")
    if rp is None:
        return False, "read_pktline not found"
    idx = [b for k, kind, what, b, line, exp in panic.sources(rp) if kind == "index" and "Range]" in what]

    def lower(ft):
        return ft[0] == "cmp" and ft[1] in ("Ge", "Gt") and "from_str_radix" in nshow(ft[2]) and \
            any(x[0] == "const" for x in walk(ft[3]))

    def upper(ft):
        return ft[0] == "cmp" and ft[1] in ("Le", "Lt") and "from_str_radix" in nshow(ft[2]) and \
            ("len" in nshow(ft[3]) or any(x[0] == "const" for x in walk(ft[3])))
    for pred, what in ((lower, "length >= HEADER_LEN"), (upper, "length <= buf.len()")):
        ok, a, bad = rules.dom_check(db, rp, idx, pred)
        if not (ok and a and idx):
            return False, "read_pktline does not establish %s before slicing" % what
    return True, ""


def guard_fetch_connected(ctx, fn, bb):
    """Session::fetching panics unless the session is connected: every Outbox::fetch (its only caller chain) is dominated by
    `session.is_connected()` being true (a test for `!is_disconnected()` is weaker: sessions can also be initial/attempted)."""
    db = ctx.db
    tf = db.one(r"^radicle_node::service::Service::try_fetch$")
    if tf is None:
        return False, "Service::try_fetch not found"
    eff = rules.call_blocks(tf, r"^radicle_node::service::io::Outbox::fetch$")
    ok, a, bad = rules.dom_check(db, tf, eff, rules.is_bool(r"^radicle_node::service::session::Session::is_connected$", True))
    if not (ok and a and eff):
        return False, "Outbox::fetch in Service::try_fetch is not dominated by session.is_connected() == true"
    callers = [f for f, b in db.call_sites(r"^radicle_node::service::session::Session::fetching$")]
    if not all(re.search(r"service::io::Outbox::fetch$", db.root_of(f)["key"]) for f in callers):
        return False, "Session::fetching has a caller other than Outbox::fetch"
    sites = [f for f, b in db.call_sites(r"^radicle_node::service::io::Outbox::fetch$")]
    if not all(db.root_of(f) is tf for f in sites):
        return False, "Outbox::fetch has a caller other than Service::try_fetch"
    return True, ""


LOCAL_DB = "fails only on a local database/configuration fault, not on peer input"

def guard_clock_minuend(ctx, fn, bb):
    """`LocalTime - LocalDuration` underflows when the time is smaller than the duration.  Safe when the minuend is the local
    clock (far from the epoch) and the subtrahend a configuration constant; not when the time comes from stored or received
    data (an announcement's timestamp is chosen by a peer)."""
    t = fn["blocks"][bb]["t"]
    m = nshow(peel_calls(expr_operand(fn, t[2][0])))
    if re.search(r"^\*?arg1\.clock$|::clock\(\*?arg1\)$|^\*?arg\d+$|\.clock\b", m):
        # an argument must be a `&LocalTime`/`LocalTime` parameter named by the callers as the current time
        mm = re.match(r"^\*?arg(\d+)$", m)
        if mm:
            ty = fn["locals"][int(mm.group(1))][0]
            if "localtime::LocalTime" not in ty:
                return False, "the time a duration is subtracted from is parameter %s of type %s" % (m, ty)
        return True, ""
    return False, ("`%s - <duration>`: the time does not come from the local clock; if it derives from stored or received data (e.g. the timestamp of an "
                   "announcement) it can be smaller than the duration and the subtraction underflows" % m)


TABLE = [
    # fn regex, source regex, class, reason, guard
    (r".", r"^timesub:", "GUARDED", "a duration is subtracted only from the local clock (milliseconds since the epoch, far larger than any configured "
     "interval), never from a time taken from stored or received data", guard_clock_minuend),
    (r".", r"^dbread:", "GUARDED", "the column's parser accepts everything this node's writer can have stored (hw/dbread.py: primitive / total parser / "
     "keyword set agreeing with the writer / reviewed inverse encodings)", dbread.guard),
    (r"bounded::BoundedVec::drain$", r"vecop:Vec::drain", "SAFE", "only caller is Deserializer::deserialize_next with the cursor position of the same buffer (pos <= len)", None),
    (r"deserializer::Deserializer::new$", r"unwrap:Result::expect", "SAFE", "capacity is a compile-time constant at construction, checked against the const bound", None),
    (r"service::Service::(tick|wake)$", r"unwrap:Option::expect", "LOCAL", "started_at is set by initialize() before the reactor delivers any event (start-up order)", None),
    (r"service::Service::dequeue_fetches$", r"unwrap:Option::unwrap", "SAFE", "keys were collected from the same session map in the same call", None),
    (r"service::Service::dequeue_fetches$", r"unwrap:Result::expect", "LOCAL", LOCAL_DB, None),
    (r"service::Service::attempted$", r"panic:", "ASSUMED", "cfg(debug_assertions) only; session bookkeeping invariant between wire and service", None),
    (r"service::Service::(handle_announcement|sync_routing)$", r"unwrap:Result::expect", "LOCAL", LOCAL_DB + " (policy store)", None),
    (r"gossip::store::Store>::announced$", r"panic:panicking::assert_failed", "GUARDED", "zero timestamps are rejected before the store is called", guard_announced_nonzero),
    (r"gossip::store::Store>::filtered$", r"panic:panicking::panic", "GUARDED", "callers establish since <= until", guard_filter_nonzero),
    (r"message::NodeAnnouncement::work$", r"unwrap:Result::expect", "SAFE", "scrypt parameters and output length are constants", None),
    (r"session::Session::queue_fetch$", r"panic:panicking::assert_failed", "SAFE", "the session is looked up by fetch.from in Service::queue_fetch", None),
    (r"session::Session::fetching$", r"panic:panicking::panic_fmt#0", "ASSUMED", "uniqueness relies on the Service.fetching/Session.fetching consistency invariant (C16, not decided)", None),
    (r"session::Session::fetching$", r"panic:panicking::panic_fmt#1", "GUARDED", "Outbox::fetch, its only caller, runs only behind session.is_connected()", guard_fetch_connected),
    (r"session::Session::(to_attempted|to_initial)$", r"panic:", "ASSUMED", "connection state machine driven by the reactor/wire layer, not by message contents", None),
    (r"^radicle_node::wire::serialize$", r"unwrap:Result::unwrap", "SAFE", "encoding into a Vec fails only when a message exceeds Size::MAX; every message the node builds is within the limit (C15 SIZE table)", None),
    (r"^<&str as radicle_node::wire::Encode>::encode$", r"panic:panicking::panic", "SAFE", "encode side only: strings come from Alias/UserAgent/hostnames bounded to <= 255 bytes by their parsers and decoders (u8 length prefix)", None),
    (r"^<radicle_git_ext::oid::Oid as radicle_node::wire::Decode>::decode$", r"unwrap:Result::expect", "GUARDED", "length checked to be exactly 20 first", guard_oid_len),
    (r"wire::frame::Version::number$", r"bounds:", "SAFE", "constant index 3 into [u8; 4]", None),
    # Nb. only the `Result::expect`s: `nth()` (id arithmetic on our own sequence) and `Channels::pair` (local).  An `Option::expect`
    # on the result of `register` ("stream was already open") is NOT local: the `open` control frame registers whatever id the
    # remote names, including ids of our own space (finding F22) — it stays unreviewed so that it is reported if it comes back.
    (r"wire::protocol::Streams::(open|register)$", r"unwrap:Result::expect", "LOCAL", "own stream sequence number arithmetic (bounded by the number of fetches of a connection); channel creation is local", None),
    (r"Handler>::handle_transport_event$", r"unwrap:Option::unwrap", "ASSUMED", "NoiseXK always yields the remote static key (cyphernet handshake)", None),
    (r"Handler>::handle_transport_event$", r"panic:panicking::assert_failed", "ASSUMED", "NoiseXK initiator pins the responder key: a handshake with another key does not complete (cyphernet)", None),
    (r"Handler>::handover_transport$", r"panic:", "ASSUMED", "reactor hands over only transports that were disconnected (reactor contract)", None),
    (r"Iterator>::next$", r"unwrap:Result::expect", "SAFE", "in-memory Vec writes; size limits per C15 SIZE table", None),
    (r"varint::VarInt as radicle_node::wire::Decode>::decode$", r"panic:panicking::panic", "SAFE", "tag is `u8 >> 6`: only 0..=3", None),
    (r"varint::VarInt as radicle_node::wire::Encode>::encode$", r"arith:num::pow", "SAFE", "constant exponent <= 62 on u64", None),
    (r"varint::VarInt as radicle_node::wire::Encode>::encode$", r"panic:panicking::panic_fmt", "SAFE", "VarInt values are < 2^62 by construction (VarInt::new / From<u8,u16,u32> / decode mask)", None),
    (r"worker::upload_pack::upload_pack$", r"unwrap:Option::unwrap", "SAFE", "stdin/stdout were requested as pipes two lines above", None),
    (r"worker::upload_pack::upload_pack::\{closure#\d\}::\{closure#\d\}$", r"unwrap:Result::expect", "ASSUMED", "mutex poisoned only if the sibling thread panicked", None),
    (r"worker::upload_pack::upload_pack::\{closure#\d\}::\{closure#\d\}$", r"index:index \[u8; 65536\]\[range::RangeTo\]", "SAFE", "`n` returned by read() into the same buffer (n <= len)", None),
    (r"pktline::Reader::read_request_pktline$", r"index:", "GUARDED", "length validated by read_pktline", guard_pktline_len),
    (r"pktline::Reader::read_pktline$", r"index:index \[u8\]\[range::RangeTo\]", "SAFE", "constant HEADER_LEN=4 into the 1024-byte buffer passed by the only caller", None),
    (r"pktline::Reader::read_pktline$", r"index:index \[u8\]\[range::Range\]", "GUARDED", "declared length range-checked", guard_pktline_len),
    (r"radicle::node::address::AddressBook::shuffled$", r"refcell:", "SAFE", "borrow is taken and released within the call; the service is single-threaded", None),
    (r"radicle::node::address::AddressType as core::convert::From<&radicle::node::Address>>::from$", r"panic:", "SAFE", "addresses come from the four known HostName kinds (decoder builds only Ip/Dns/Tor); encode side", None),
    (r"radicle::node::address::ipv4_is_routable$", r"bounds:", "SAFE", "constant index 0 into [u8; 4]", None),
    (r"radicle::node::routing::Store>::len$", r"unwrap:Option::expect", "LOCAL", "SELECT COUNT always yields one row", None),
    (r"radicle::node::.*", r"unwrap:|panic:", None, None, None),
]


def auto(fn, src):
    skey, kind, what, bb, line, exp = src
    if kind == "index" and "RangeFull" in what:
        return ("SAFE", "full-range index cannot fail")
    if kind == "bounds":
        t = fn["blocks"][bb]["t"]
        e = peel(expr_operand(fn, t[1]))
        if e[0] == "bin" and e[1] == "Lt":
            a, b = peel(e[2]), peel(e[3])
            if a[0] == "const" and b[0] == "const" and "v" in a[1] and "v" in b[1] and int(a[1]["v"]) < int(b[1]["v"]):
                return ("SAFE", "constant index %s < length %s" % (a[1]["v"], b[1]["v"]))
    if kind == "index":
        # constant range into a fixed-size array
        t = fn["blocks"][bb]["t"]
        m = re.search(r"\[u8; (\d+)\]", " ".join(t[1].get("ga", [])))
        if m and len(t[2]) > 1:
            r = peel(expr_operand(fn, t[2][1]))
            if r[0] == "agg" and isinstance(r[1], dict):
                vals = [peel(x) for x in r[2]]
                if all(v[0] == "const" and "v" in v[1] for v in vals):
                    nums = [int(v[1]["v"]) for v in vals]
                    if nums == sorted(nums) and nums[-1] <= int(m.group(1)):
                        return ("SAFE", "constant range %s within [u8; %s]" % (nums, m.group(1)))
    return None


def run(ctx):
    ctx.explanation = (
        "Decides the structural clause: every panic source in the reviewed scope that is reachable from the network entry "
        "points (reactor handler callbacks of Wire, worker results, outbound encoding, git request header parsing, "
        "authorization and upload-pack) is either reviewed with a value-independent reason, local-fault only, verified as "
        "guarded by a dominating check, or explicitly assumed. An unreviewed or unguarded source is a violation.")
    ctx.not_decided = ("panics inside dependencies; allocation failure (see C14 for attacker-sized allocations); sources reachable only on "
                       "data already in local storage (counted in coverage.panic_stats.sources_outside_scope_not_decided)")
    ctx.rule_text = "PANIC(entries, review table) over the workspace call graph + DOM verification of GUARDED rows"
    ctx.assumptions = ["arithmetic overflow checks are disabled in release builds",
                       "calls through trait objects fan out to all workspace impls; dependency calls are leaves"]
    review = Review([r for r in TABLE if r[2] is not None])
    fns, scoped = panic.run_panic(ctx, ENTRIES, in_scope, review, "c13", floor_fns=150, floor_sources=40, auto=auto)
    ctx.exhaustive = True
    for k, v in ctx.panic_stats.items():
        ctx.sample({k: v})
