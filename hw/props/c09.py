"""C09 — the COB cache answers exactly like direct evaluation (partial).

Decided: (PAIR) write-through: on every Ok path a store write (transaction commit /
initial transaction / store removal / fetched COB ref update) is followed by the
corresponding cache write; (SIB) the reader and writer cache implementations of the
query interface call the same query functions; (SQL) a key lookup into a JSON map
uses only the map's immediate children (json_each, or json_tree constrained by
path/parent) and skips null (redacted) entries; the status queries group on the
JSON path that the serialized State actually has. 
A run-time JSON key addressed with `->` excludes JSON null; `list_by_status` filters
with the granularity of the filter type; `Cache::remove` deletes the row only when the
store reports the object absent (otherwise refreshes it); the write-through upsert
replaces the cached object unconditionally.  (SERDE) every hand-written serializer on a
type reachable from the cached Issue / Patch JSON is reviewed (with the invariant it needs
turned into a rule, e.g. no empty reaction sets) or reported; a hand-written Serialize
writes every field.
Not decided: equality of query results with direct evaluation."""
import re

from .. import cfg, rules, flow, sql
from ..cfg import expr_operand, show, nshow, peel, peel_calls, base_value, walk, graph


def pass_ok(ctx, db, fn, key, a_pat, b_pat, what):
    """Every path from `a` returning Ok to an Ok exit passes `b` returning Ok."""
    a_blocks = rules.call_blocks(fn, a_pat)
    b_ok = rules.edges_where(db, fn, lambda f: f[0] == "variant" and f[4] and f[3] == "Ok" and cfg.callee_is(base_value(f[1]), re.compile(b_pat)))
    g = graph(fn)
    okret = [bb for bb, j, k, ops in rules.agg_sites(fn, r"^core::result::Result$", "Ok")]
    # a tail call of b (result returned as is) also counts as passing b
    tail_b = [bb for bb in rules.call_blocks(fn, b_pat) if fn["blocks"][bb]["t"][3][0] == 0]
    if not a_blocks:
        ctx.violated(key, "%s: store-write call not found (anchor missing)" % what, rules.where(fn), fn=fn)
        return
    bad = None
    for ab in a_blocks:
        a_ok = [e for e in rules.edges_where(db, fn, lambda f: f[0] == "variant" and f[4] and f[3] == "Ok" and
                                             base_value(f[1])[0] == "call" and base_value(f[1])[3] == ab)]
        starts = [(tb, g.edge_know(b0, tb, lab, frozenset()) or frozenset()) for (b0, tb, lab) in a_ok]
        if not starts:
            tgt = fn["blocks"][ab]["t"][4]
            starts = [(tgt, frozenset())] if tgt is not None else []
        blocks = g.reach_k(starts, avoid_edges=b_ok, avoid_blocks=tail_b)
        leak = [r for r in okret if r in blocks]
        if leak:
            bad = g.path_k(blocks, leak[0])
    ctx.check(key, bad is None and (bool(b_ok) or bool(tail_b)), "%s: every successful store write is followed by the cache write before returning Ok" % what,
              rules.where(fn, a_blocks[0]), detail={"path": bad}, fn=fn)


def run(ctx):
    _run(ctx)
    serde_payload(ctx)


def _run(ctx):
    db = ctx.db
    ctx.explanation = (
        "Decides structurally: write-through pairing of store writes and cache writes on all Ok paths (8 sites), sibling "
        "agreement of the reader/writer query implementations, and SQL lints on the cache queries (scope of JSON key lookups, "
        "null tolerance, status path). Equality of query results with direct evaluation is not decided.")
    ctx.not_decided = "result equality of get/list/list_by_status/counts/find_by_revision with direct evaluation over arbitrary object sets"
    ctx.rule_text = "PAIR(store write => cache write) + SIB(query callees) + SQL(B6, B7)"
    n = 0
    for pat, a, b, what in (
        (r"^radicle::cob::patch::PatchMut::transaction$", r"store::Transaction.*::commit$", r"cache::Update.*::update$", "PatchMut::transaction"),
        (r"^radicle::cob::issue::IssueMut::transaction$", r"store::Transaction.*::commit$", r"cache::Update.*::update$", "IssueMut::transaction"),
        (r"^radicle::cob::patch::Patches::_create$", r"store::Transaction.*::initial$", r"cache::Update.*::update$", "Patches::create/draft"),
        (r"^radicle::cob::issue::Issues::create$", r"store::Transaction.*::initial$", r"cache::Update.*::update$", "Issues::create"),
        (r"^radicle::cob::patch::cache::Cache::remove$", r"cob::store::Store::remove$|cob::patch::Patches::remove$", r"cache::Remove.*::remove$|cache::Update.*::update$", "patch Cache::remove"),
        (r"^radicle::cob::issue::cache::Cache::remove$", r"cob::store::Store::remove$|cob::issue::Issues::remove$", r"cache::Remove.*::remove$|cache::Update.*::update$", "issue Cache::remove"),
    ):
        fs = db.find(pat)
        if len(fs) != 1:
            ctx.violated("pair:%s" % what, "%s not found or ambiguous (anchor missing): %d" % (pat, len(fs)))
            continue
        n += 1
        pass_ok(ctx, db, fs[0], "pair:%s" % what, a, b, what)
    # removing our own ref does not remove the object if other peers still have theirs: the cache row may go only when the
    # store no longer yields the object (as update_or_remove does after a fetch)
    for mod in ("patch", "issue"):
        f = db.one(r"^radicle::cob::%s::cache::Cache::remove$" % mod)
        if f is None:
            continue
        rem = rules.call_blocks(f, r"cache::Remove.*::remove$")
        GET = re.compile(r"(Store|Patches|Issues)::get\(")
        absent = lambda x: x[0] == "variant" and x[4] and x[3] in ("None", "Err") and bool(GET.search(nshow(x[1])))
        ok, a, bad = rules.dom_check(db, f, rem, absent)
        ctx.check("dom:%s:Cache::remove:absent" % mod, bool(ok and a and rem),
                  "the cache row of a removed %s is deleted only if the store no longer yields the object (other peers' refs may keep it alive; "
                  "direct evaluation then still returns it)" % mod, rules.where(f, rem[0] if rem else None),
                  detail={"path": list(bad.values())[:1]}, fn=f)
        upd = rules.call_blocks(f, r"cache::Update.*::update$")
        ok2, a2, _ = rules.dom_check(db, f, upd, lambda x: x[0] == "variant" and x[4] and x[3] == "Some" and bool(GET.search(nshow(x[1]))))
        ctx.check("dom:%s:Cache::remove:refresh" % mod, bool(ok2 and a2 and upd),
                  "if the object still exists after our ref was removed, the cache row is refreshed from the store", rules.where(f), fn=f)
    # create/draft delegate to _create
    for nm in ("create", "draft"):
        f = db.one(r"^radicle::cob::patch::Patches::%s$" % nm)
        ok = f is not None and bool(rules.call_blocks(f, r"^radicle::cob::patch::Patches::_create$"))
        ctx.check("pair:Patches::%s" % nm, ok, "Patches::%s goes through _create (which writes the cache)" % nm, rules.where(f) if f else "", fn=f)
    # fetched COBs
    uor = db.one(r"^radicle_node::worker::fetch::update_or_remove$")
    cc = db.one(r"^radicle_node::worker::fetch::cache_cobs$")
    if uor is None or cc is None:
        ctx.violated("pair:fetch", "worker::fetch::cache_cobs / update_or_remove not found (anchor missing)")
    else:
        n += 1
        g = graph(uor)
        upd = rules.call_blocks(uor, r"cache::Update.*::update$")
        rem = rules.call_blocks(uor, r"cache::Remove.*::remove$")
        rets = rules.ret_blocks(uor)
        blocks = g.reach_k([(0, frozenset())], avoid_blocks=upd + rem)
        leak = [r for r in rets if r in blocks]
        ctx.check("pair:update_or_remove", bool(upd and rem) and not leak,
                  "update_or_remove always updates or removes the cache entry before returning", rules.where(uor), fn=uor)
        ok, a, bad = rules.dom_check(db, uor, upd, lambda f: f[0] == "variant" and f[4] and f[3] == "Some" and "Store::get" in nshow(f[1]))
        ctx.check("dom:update_or_remove:update", bool(ok and a), "the cache is updated with the object freshly loaded from the store",
                  rules.where(uor, upd[0] if upd else None), fn=uor)
        calls = rules.call_blocks(cc, r"worker::fetch::update_or_remove$")
        ctx.check("pair:cache_cobs", len(calls) >= 2, "cache_cobs refreshes issues and patches named by the fetched ref updates (%d call sites)" % len(calls),
                  rules.where(cc), fn=cc)
        # every RefUpdate kind but Skipped reaches the COB branch
        from .. import table
        for b0, tb, lab, facts in cfg.all_edge_facts(db, cc):
            pass
        kinds = set()
        for b0, tb, lab, facts in cfg.all_edge_facts(db, cc):
            for f in facts:
                if f[0] == "variant" and f[4] and f[2].endswith("RefUpdate"):
                    reach = g_reach(cc, tb)
                    if any(c in reach for c in calls):
                        kinds.add(f[3])
        ctx.check("table:cache_cobs:kinds", {"Updated", "Created", "Deleted"} <= kinds,
                  "updated, created and deleted COB refs all lead to a cache refresh (%s)" % sorted(kinds), rules.where(cc), fn=cc)
        who = [(fn, bb, None) for fn, bb in db.call_sites(r"worker::fetch::cache_cobs$")]
        ctx.check("req:cache_cobs:called", len(who) >= 1, "cache_cobs is called after a fetch (%d sites)" % len(who))
    ctx.floor("pair:sites", n, 5, "write-through sites")

    # SIB
    for tr, mod in (("radicle::cob::patch::cache::Patches", "patch"), ("radicle::cob::issue::cache::Issues", "issue")):
        impls = {}
        for f in db.all_fns():
            im = f.get("impl") or {}
            if im.get("trait") == tr and "root" not in f and re.search(r"cache::Store<radicle::cob::cache::(Read|Write)>", im.get("self", "")):
                kind = "reader" if "cache::Read>" in im["self"] else "writer"
                qs = sorted({c["n"] for _, _, c in db.calls(f) if re.search(r"::cache::query::\w+$", c.get("n") or "")})
                impls.setdefault(f["assoc_name"], {})[kind] = qs
        cnt = 0
        for m, d in sorted(impls.items()):
            if "reader" in d and "writer" in d:
                cnt += 1
                ctx.check("sib:%s:%s" % (mod, m), d["reader"] == d["writer"] and len(d["reader"]) == 1 and d["reader"][0].endswith("::" + m),
                          "reader and writer cache answer %s::%s with the same query (%s / %s)" % (mod, m, d["reader"], d["writer"]))
        ctx.floor("sib:%s" % mod, cnt, 3, "query methods implemented by both reader and writer caches")

    # the cache row mirrors whatever the store evaluates to: the write-through upsert is unconditional (an object can
    # also *shrink*, e.g. when a peer's ref to it disappears) and stores the object it was given
    nu = 0
    for fn, bb, s_ in sql.statements(db):
        if s_ is None or not fn["file"].endswith(("cob/patch/cache.rs", "cob/issue/cache.rs")):
            continue
        info = sql.upsert_info(s_)
        if not info or info.get("table") not in ("issues", "patches"):
            continue
        nu += 1
        col = {"issues": "issue", "patches": "patch"}[info["table"]]
        txt = " ".join(s_.split())
        setv = " ".join(info["set"].get(col, []))
        ok_set = bool(re.match(r"^\(?\s*(\?3|excluded\s*\.\s*%s)\s*\)?$" % col, setv.replace(" ", "")) or setv.replace(" ", "") in ("(?3)", "?3", "excluded.%s" % col))
        ctx.check("sql:%s:update:unconditional" % info["table"], not info["where"] and ok_set,
                  "the write-through upsert of `%s` replaces the cached object unconditionally with the one given (no WHERE on DO UPDATE; found SET %s%s)"
                  % (info["table"], setv, (" WHERE " + " AND ".join(" ".join(c) for c in info["where"])) if info["where"] else ""),
                  rules.where(fn, bb), detail=txt, fn=fn)
    ctx.floor("sql:cache-upserts", nu, 2, "write-through upserts of the issue and patch caches")

    # SQL
    m = 0
    for fn, bb, s in sql.statements(db):
        if s is None or not fn["file"].endswith(("cob/patch/cache.rs", "cob/issue/cache.rs")):
            continue
        toks = sql.tokenize(s)
        low = [t.lower() for t in toks]
        key = "sql:%s" % fn["key"].rsplit("::", 1)[1]
        if "json_tree" in low or "json_each" in low:
            m += 1
            alias = None
            for i, t in enumerate(toks):
                if t.lower() in ("json_tree", "json_each"):
                    depth = 0
                    j = i + 1
                    while j < len(toks):
                        if toks[j] == "(":
                            depth += 1
                        elif toks[j] == ")":
                            depth -= 1
                            if depth == 0:
                                break
                        j += 1
                    if j + 2 < len(toks) and toks[j + 1] == "AS":
                        alias = toks[j + 2]
            txt = " ".join(toks)
            keyed = bool(alias) and re.search(r"%s\.key = \?" % re.escape(alias or ""), txt)
            scoped = "json_each" in low or (alias and re.search(r"%s\.(path|parent) " % re.escape(alias), txt))
            nonnull = bool(alias) and bool(re.search(r"%s\.type (!=|<>) 'null'|%s\.value IS NOT NULL" % (re.escape(alias), re.escape(alias)), txt))
            ctx.check(key + ":B6-scope", (not keyed) or bool(scoped),
                      "JSON key lookup matches only immediate children of the map (json_each or path/parent constraint), not nested keys such as comment ids",
                      rules.where(fn, bb), detail=" ".join(s.split()), fn=fn)
            ctx.check(key + ":B6-null", (not keyed) or nonnull,
                      "JSON key lookup skips null (redacted) entries instead of failing to decode them", rules.where(fn, bb), detail=" ".join(s.split()), fn=fn)
        # (b) a JSON value addressed directly (`col -> path AS x`) and decoded by the caller: `->` yields the JSON text
        #     'null' for a JSON null (SQL NULL only when the path is absent), so `-> .. IS NOT NULL` does not skip
        #     redacted entries; `->>` or json_type(..) <> 'null' does
        for mm in re.finditer(r"(\w+)\s*->\s*(\?\d+)\s+AS\s+(\w+)", s, re.I):
            # a key chosen at run time: an entry of a map whose values may be null (redacted revisions, comments)
            m += 1
            col, pth = mm.group(1), mm.group(2)
            txt = " ".join(s.split())
            pe = re.escape(pth)
            nonnull = bool(re.search(r"json_type\(\s*%s\s*,\s*%s\s*\)\s*(!=|<>)\s*'null'" % (re.escape(col), pe), txt, re.I) or
                           re.search(r"%s\s*->>\s*%s\s+IS\s+NOT\s+NULL" % (re.escape(col), pe), txt, re.I))
            ctx.check(key + ":B6-null", nonnull,
                      "a JSON value selected with `->` and decoded by the caller excludes JSON null (redacted) entries: `-> .. IS NOT NULL` lets "
                      "them through, `->>`/json_type does not", rules.where(fn, bb), detail=txt, fn=fn)
            if pth.startswith("?"):
                tmpl = [o[1].get("s") or o[1].get("b") or "" for b_ in fn["blocks"] for st in b_["s"] if st[0] == "=" for o in rules._rv_operands(st[2])
                        if o[0] == "k" and isinstance(o[1], dict)] + \
                       [o[1].get("s") or o[1].get("b") or "" for b_ in fn["blocks"] if b_["t"][0] == "call" for o in b_["t"][2] if o[0] == "k" and isinstance(o[1], dict)]
                scoped = any(t_ and "$.revisions." in t_ for t_ in tmpl)
                ctx.check(key + ":B6-scope", scoped, "the JSON path bound to the lookup addresses a direct child of the revisions map",
                          rules.where(fn, bb), detail=txt, fn=fn)
        for mm in re.finditer(r"(\w+)\s*->>?\s*'(\$[^']*)'", s):
            col, path = mm.group(1), mm.group(2)
            if path.endswith(".status"):
                m += 1
                ser = db.find(r"^<radicle::cob::%s::State as serde::ser::Serialize>::serialize$" % col)
                tag_ok = False
                for f in ser:
                    for b in f["blocks"]:
                        t = b["t"]
                        if t[0] == "call":
                            for o in t[2]:
                                if o[0] == "k" and o[1].get("s") == "status":
                                    tag_ok = True
                obj = db.find(r"^<radicle::cob::%s::%s as serde::ser::Serialize>::serialize$" % (col, col.capitalize()))
                fld_ok = any(o[0] == "k" and o[1].get("s") == "state" for f in obj for b in f["blocks"] if b["t"][0] == "call" for o in b["t"][2])
                ctx.check(key + ":B7:%s" % path, path == "$.state.status" and tag_ok and fld_ok,
                          "status queries use `$.state.status`, which is where Serialize writes the State tag (tag=%s field=%s)" % (tag_ok, fld_ok),
                          rules.where(fn, bb), fn=fn)
    ctx.floor("sql:cache", m, 3, "JSON-path uses in the cache queries")

    # granularity of the status filter: the direct (uncached) implementation compares the filter with `==`; if the filter
    # type carries data in a variant (State::Closed { reason }), a cached query that compares only the status tag returns
    # more than direct evaluation does
    ng = 0
    for mod in ("issue", "patch"):
        q = db.one(r"^radicle::cob::%s::cache::query::list_by_status$" % mod)
        if q is None:
            ctx.violated("anchor:%s:list_by_status" % mod, "cache query list_by_status of %s not found" % mod)
            continue
        ng += 1
        fty = q["locals"][3][0] if len(q["locals"]) > 3 else ""
        adt = db.adt(fty.lstrip("&").strip())
        payload = [v["n"] for v in (adt or {}).get("variants", []) if v.get("fields")]
        sqls = [s_ for f_, b_, s_ in sql.statements(db) if f_ is q and s_]
        compared = set()
        whole_json = False
        for s_ in sqls:
            for mm in re.finditer(r"->>?\s*'\$\.state\.(\w+)'\s*(?:=|IS)\s*\?\d+", s_):
                compared.add(mm.group(1))
            if re.search(r"->\s*'\$\.state'\s*=\s*(json\()?\?", s_):
                whole_json = True
        needed = {"status"} | {f_["n"] for v in (adt or {}).get("variants", []) for f_ in v.get("fields", [])}
        tag_only = not whole_json and not needed <= compared
        full = whole_json or needed <= compared
        # the uncached sibling compares whole values
        nocache = [f for f in db.find(r"^<radicle::cob::%s::cache::NoCache<.*list_by_status" % mod)]
        whole = any(re.search(r"<radicle::cob::%s::\w+ as core::cmp::PartialEq>::eq$|core::cmp::PartialEq::eq$" % mod, c.get("n") or "")
                    for f in nocache for _, _, c in db.calls(f))
        ok = (not payload) or (not tag_only) or full
        ctx.check("sib:%s:list_by_status:granularity" % mod, ok,
                  "the cached status filter is as fine as the direct comparison: the filter type %s %s, the direct implementation compares with `==`%s, "
                  "the SQL compares %s" % (cfg.short(fty), ("has data-carrying variants %s" % payload) if payload else "has no data-carrying variant",
                                          "", ("only {%s} of {%s}" % (", ".join(sorted(compared)), ", ".join(sorted(needed)))) if (tag_only and not full) else "all of {%s}" % ", ".join(sorted(needed))),
                  rules.where(q), fn=q)
    ctx.floor("sib:list_by_status", ng, 2, "cached list_by_status queries")


def g_reach(fn, bb):
    return graph(fn).reach([bb])


# ------------------------------------------------------------------ the cached JSON is a faithful copy
# The cache stores an object as its serde JSON and answers queries by deserializing it.  A field that is serialized by
# a hand-written function (serde `serialize_with`) or a hand-written `Serialize` impl can drop state that direct
# evaluation keeps.  Each such function on a type reachable from Issue / Patch is listed here with what it needs.
SERDE_REVIEWED = {
    "radicle::cob::patch::ser::serialize_reactions":
        "flattens (location -> set of (author, emoji)) into one element per (location, emoji); an entry whose set is empty has no element, so the "
        "evaluated state must not keep empty sets (checked: `empty-reactions` rule)",
}
SERDE_ROOTS = ("radicle::cob::issue::Issue", "radicle::cob::patch::Patch")


def payload_types(db):
    seen = []
    todo = list(SERDE_ROOTS)
    while todo:
        ty = todo.pop()
        if ty in seen:
            continue
        a = db.adt(ty)
        if not a:
            continue
        seen.append(ty)
        for v in a.get("variants", []):
            for f in v.get("fields", []):
                for m in re.finditer(r"(radicle(?:_\w+)?(?:::\w+)+)", f["ty"]):
                    if m.group(1) not in seen:
                        todo.append(m.group(1))
    return seen


def serde_payload(ctx):
    db = ctx.db
    tys = payload_types(db)
    ctx.floor("serde:payload-types", len(tys), 10, "types reachable from the cached Issue / Patch objects")
    n = 0
    for ty in sorted(tys):
        sers = [f for f in db.all_fns() if re.match(r"^<%s(<[^>]*>)? as serde::ser::Serialize>::serialize$" % re.escape(ty), f["key"])]
        for f in sers:
            n += 1
            if "derive(Serialize" not in (f.get("exp") or ""):
                k = "serde:impl:%s" % cfg.short(ty)
                # a hand-written impl must write every field of the type (under serde's camelCase name); fields it writes only
                # conditionally must be Options (absent = None on the way back)
                a = db.adt(ty)
                flds = [(x["n"], x["ty"]) for x in a["variants"][0]["fields"]] if a and a.get("variants") else []

                def camel(n_):
                    parts = n_.split("_")
                    return parts[0] + "".join(p_.capitalize() for p_ in parts[1:])
                written = {}
                g_ = graph(f)
                for bb, t, c in db.calls(f):
                    if (c.get("n") or "").endswith("SerializeStruct::serialize_field") and len(t[2]) >= 2:
                        e_ = peel(expr_operand(f, t[2][1]))
                        if e_[0] == "const" and "s" in e_[1]:
                            written[e_[1]["s"]] = bb
                rets = rules.ret_blocks(f)
                missing = [n_ for n_, ty_ in flds if camel(n_) not in written]
                cond = []
                for n_, ty_ in flds:
                    bb = written.get(camel(n_))
                    if bb is not None and not ty_.startswith("core::option::Option<"):
                        # unconditional: every path to a (non-error) return passes the write
                        ends = [r_ for r_ in rets if r_ in g_.reach([0], avoid_blocks=[bb])]
                        oks = [b2 for b2, t2, c2 in db.calls(f) if (c2.get("n") or "").endswith("SerializeStruct::end")]
                        if oks and any(o in g_.reach([0], avoid_blocks=[bb]) for o in oks):
                            cond.append(n_)
                if missing:
                    ctx.violated(k, "the hand-written Serialize of %s does not write the field(s) %s: the cached JSON loses state that direct evaluation keeps" % (
                        cfg.short(ty), ", ".join(missing)), rules.where(f), fn=f)
                elif cond:
                    ctx.violated(k, "the hand-written Serialize of %s writes the non-optional field(s) %s only on some paths" % (cfg.short(ty), ", ".join(cond)), rules.where(f), fn=f)
                elif flds:
                    ctx.held(k, "the hand-written Serialize of %s writes every field (%s); only Option fields are written conditionally" % (
                        cfg.short(ty), ", ".join(n_ for n_, _ in flds)), rules.where(f), fn=f)
                else:
                    ctx.ob(k, "inconclusive", "%s has a hand-written Serialize impl: whether the cached JSON keeps all of its state is not decided" % cfg.short(ty), rules.where(f), fn=f)
        # serialize_with helpers of the derived impl
        for f in db.all_fns():
            if f["key"].startswith("<<%s" % ty) and "as serde::ser::Serialize>::serialize::__SerializeWith" in f["key"]:
                for bb, t, c in db.calls(f):
                    nm = c.get("n") or c.get("dn") or ""
                    if nm.startswith("serde::") or "ops::try_trait" in nm:
                        continue
                    n += 1
                    k = "serde:with:%s:%s" % (cfg.short(ty), cfg.short(nm))
                    if nm in SERDE_REVIEWED:
                        ctx.held(k, "field of %s serialized by %s: %s" % (cfg.short(ty), cfg.short(nm), SERDE_REVIEWED[nm]), rules.where(f, bb), fn=f)
                    else:
                        ctx.violated(k, "a field of %s (part of the cached Issue/Patch JSON) is serialized by the hand-written %s, which is not reviewed: if it "
                                        "leaves out state that direct evaluation keeps (redacted slots, empty entries), the cached object differs from "
                                        "the evaluated one" % (cfg.short(ty), cfg.short(nm)), rules.where(f, bb), fn=f)
    ctx.ob("serde:payload", "held", "%d Serialize impls / custom field serializers of the cached payload types were looked at" % n, "", sites=n)
    # empty reaction sets are not kept (needed by serialize_reactions)
    for key in (r"^<radicle::cob::patch::Patch as radicle::cob::store::CobWithType>::action$", r"^radicle::cob::patch::Patch::action$", r"^radicle::cob::patch::Patch::op_action$"):
        pass
    act = [f for f in db.all_fns() if re.search(r"^radicle::cob::patch::Patch::(action|op_action)$", f["key"])]
    found = False
    for f in act:
        g = graph(f)
        rem = [(bb, t) for bb, t, c in db.calls(f) if (c.get("n") or "").endswith("BTreeSet::remove") and "reactions" in nshow(expr_operand(f, t[2][0]))]
        for bb, t in rem:
            found = True
            # after removing a reaction the (possibly) empty set is dropped from the map on every path
            drops = [b2 for b2, t2, c2 in db.calls(f) if re.search(r"BTreeMap::(remove|retain)$|Entry::.*remove", c2.get("n") or "") and "reactions" in nshow(expr_operand(f, t2[2][0]))]
            emp = [b2 for b2, t2, c2 in db.calls(f) if (c2.get("n") or "").endswith("BTreeSet::is_empty") and b2 in g.reach([bb])]
            ok = bool(drops) and bool(emp) and any(d in g.reach([bb]) for d in drops)
            ctx.check("empty-reactions:%s" % cfg.short(f["key"]), ok,
                      "removing a reaction drops the location's entry once its set is empty (the cached JSON has no element for an empty set, so direct "
                      "evaluation must not keep one either)", rules.where(f, bb), fn=f)
    if not found:
        ctx.ob("empty-reactions", "inconclusive", "the place where a revision reaction is removed was not found", "")
