"""C02 — fetches respect the delegate threshold and never rewind delegate sigrefs (partial).

Decided (structural): the single `repository::update` in FetchState::run is
dominated by `valid_delegates.len() >= threshold`; threshold is
`anchor.threshold() - 1` iff the local node is a delegate of the anchor document,
else `anchor.threshold()`; a delegate whose advertised sigrefs are Behind is pruned
and not counted as newly validated, Diverged aborts the fetch with an error; special
refs of delegates are updated with Policy::Abort (others Policy::Reject);
`repository::direct` force-writes an existing ref only for Ahead, or for
Behind/Diverged under Policy::Allow, and Diverged under Abort is an error; only data
refs may carry Policy::Allow.  Not decided: the arithmetic of counting valid
delegates over all delegate-set/sigrefs-state combinations."""
import re

from .. import cfg, rules, flow, table
from ..cfg import expr_operand, show, nshow, peel, peel_calls, base_value, walk, graph

RUN = r"^radicle_fetch::state::FetchState::run$"
UPD = r"^radicle_fetch::git::repository::update$"


def loop_parts(db, run):
    """(header block, prune blocks) of the validation loop in run."""
    hdr = [bb for bb, t, c in db.calls(run) if (c.get("dn") or "").endswith("Iterator::next") and "Keys" in (c.get("n") or "")]
    prunes = rules.call_blocks(run, r"^radicle_fetch::state::FetchState::prune$")
    return hdr, prunes


def run(ctx):
    db = ctx.db
    ctx.explanation = (
        "Decides structurally: the threshold gate dominates the only ref-writing call of a fetch; the threshold table; "
        "Behind => prune-and-skip and Diverged => error for delegates in the validation loop; the non-fast-forward policy "
        "tables of special_update and repository::direct; who may use Policy::Allow. The counting of valid delegates over "
        "all combinations is not decided.")
    ctx.not_decided = "arithmetic of valid_delegates over all delegate-set and per-delegate sigrefs states; git-level ancestry computation"
    ctx.rule_text = "DOM + TABLE + EXCL + WHO"
    fn = db.one(RUN)
    if fn is None:
        ctx.violated("anchor:run", "FetchState::run not found (anchor missing)")
        return
    from .c01 import run_roles
    roles = run_roles(db, fn)

    def is_role(place_op, role):
        r_ = flow.root_place(fn, place_op)
        return r_ is not None and roles.get(role) == r_[0]
    ups = rules.call_blocks(fn, UPD)
    ctx.floor("run:update", len(ups), 1, "repository::update call in FetchState::run")
    who = [(f, bb, None) for f, bb in db.call_sites(UPD)]
    rules.who(ctx, "who:repository::update", "call of repository::update", who, [RUN])

    def gate(f):
        if f[0] != "cmp" or f[1] != "Ge":
            return False
        l = nshow(f[2])
        return "BTreeSet::len" in l and f[3][0] in ("phi", "call", "bin", "field")
    ok, a, bad = rules.dom_check(db, fn, ups, gate)
    ctx.check("dom:update:threshold", bool(ok and a and ups), "refs are applied only if valid_delegates.len() >= threshold",
              rules.where(fn, ups[0] if ups else None), detail={"path": list(bad.values())[:1]}, fn=fn)
    # which locals: the compared set is `valid_delegates`, the bound is `threshold`
    thr_local = None
    for e_ in rules.edges_where(db, fn, gate):
        t = fn["blocks"][e_[0]]["t"]
        cond = peel(expr_operand(fn, t[1]))
        if cond[0] == "bin":
            lset = flow.root_place(fn, fn["blocks"][_def_block(fn, cond[2])]["t"][2][0]) if _def_block(fn, cond[2]) is not None else None
            rhs = cond[3]
            if rhs[0] == "phi":
                thr_local = rhs[1]
            ctx.check("flow:gate:set", lset is not None and roles.get("valid_delegates") == lset[0],
                      "the set counted is the validated-delegate set", rules.where(fn, e_[0]), fn=fn)
    # threshold table
    if thr_local is None:
        for i, (ty, nm) in enumerate(fn["locals"]):
            if i == roles.get("threshold"):
                thr_local = i
    defs = flow.def_exprs(fn, thr_local) if thr_local is not None else []
    kinds = []
    g = graph(fn)
    for d in graph(fn).defs().get(thr_local, []):
        bb = d[1]
        e = peel(cfg.expr_rvalue(fn, d[3])) if d[0] == "stmt" else ("call", d[2][1], [expr_operand(fn, a_) for a_ in d[2][2]], bb)
        s = nshow(e)
        minus1 = (e[0] == "field" and "Sub" in s) or (e[0] == "bin" and e[1].startswith("Sub")) or ("SubWithOverflow" in s) or ("Sub(" in s)
        is_thr = "Doc::threshold" in s
        okd, al, _ = rules.dom_check(db, fn, [bb], rules.is_bool(r"doc::Doc::is_delegate$", True if minus1 else False))
        kinds.append((minus1, is_thr, bool(okd and al)))
    txt = []
    for b in fn["blocks"]:
        for st in b["s"]:
            if st[0] == "=" and st[2][0] == "bin" and st[2][1].startswith("Sub") and st[2][3][0] == "k":
                txt.append(st[2][3][1].get("v"))
    okt = len(kinds) == 2 and sorted(k[0] for k in kinds) == [False, True] and all(k[1] and k[2] for k in kinds) and "1" in txt
    ctx.check("table:threshold", okt, "threshold = anchor.threshold() - 1 iff the local node is a delegate of the anchor document, else anchor.threshold()",
              rules.where(fn), detail=str(kinds), fn=fn)
    for bb in rules.call_blocks(fn, r"doc::Doc::is_delegate$"):
        t = fn["blocks"][bb]["t"]
        who_ = nshow(expr_operand(fn, t[2][1]))
        ctx.check("flow:threshold:local", "Handle::local" in who_, "delegate status is tested for the local node (%s)" % who_[:80], rules.where(fn, bb), fn=fn)

    # delegate arm: Behind => prune + not newly validated; Diverged => Err
    hdr, prunes = loop_parts(db, fn)
    vins = [bb for bb, t, c in db.calls(fn) if (c.get("n") or "").endswith("BTreeSet::insert") and
            is_role(t[2][0], "valid_delegates")]
    ctx.floor("run:valid_delegates.insert", len(vins), 1, "valid_delegates.insert site")

    # every addition to the validated-delegate set that can happen once validation has started is itself validated:
    # the set is seeded (stored delegates) before the loop so that a failing delegate is *removed*; an addition after
    # the loop would put a failed delegate back
    from .c01 import validated_ok
    adds = []
    for bb, t, c in db.calls(fn):
        n = c.get("n") or ""
        if not t[2]:
            continue
        if not is_role(t[2][0], "valid_delegates"):
            continue
        if re.search(r"::(insert|extend|append|extend_from_slice|push|replace|get_or_insert_with)$", n) or "Extend" in n:
            adds.append(bb)
    started = g.reach(hdr) if hdr else set()
    late = [bb for bb in adds if bb in started]
    ctx.floor("run:valid_delegates:additions", len(adds), 1, "additions to valid_delegates")
    for bb in late:
        okv, av, badv = rules.dom_check(db, fn, [bb], validated_ok)
        ctx.check("dom:valid_delegates:add:%d" % late.index(bb), bool(okv and av),
                  "once validation has started, a delegate is added to the validated set only behind a failure-free sigrefs::validate "
                  "(a later unconditional addition would re-admit delegates that failed)", rules.where(fn, bb),
                  detail={"path": list(badv.values())[:1]}, fn=fn)
    # a failed delegate is taken out of the set
    fd = [bb for bb, t, c in db.calls(fn) if (c.get("n") or "").endswith("BTreeSet::insert") and t[2] and
          is_role(t[2][0], "failed_delegates")]
    rm = [bb for bb, t, c in db.calls(fn) if (c.get("n") or "").endswith("BTreeSet::remove") and t[2] and
          is_role(t[2][0], "valid_delegates")]
    ctx.floor("run:failed_delegates.insert", len(fd), 1, "failed_delegates.insert sites")
    for bb in fd:
        # within the iteration: header -> bb avoiding remove, and bb -> header avoiding remove, must not both exist
        pre = g.reach([tb for h in hdr for tb, _ in g.succ[h]], avoid_blocks=set(rm) | set(hdr))
        post = g.reach([bb], avoid_blocks=set(rm))
        bad_ = bb in pre and any(h in post for h in hdr)
        ctx.check("pair:failed_delegate:removed:%d" % fd.index(bb), not bad_,
                  "a delegate recorded as failed is removed from the validated set in the same iteration", rules.where(fn, bb), fn=fn)

    def anc(v):
        def p(f):
            return f[0] == "variant" and f[4] and f[3] == v and "repository::ancestry" in nshow(f[1])
        return p
    anc_blocks = rules.call_blocks(fn, r"^radicle_fetch::git::repository::ancestry$")
    ok, d, bad = rules.excl_check(db, fn, vins, anc("Behind"), reeval_blocks=set(hdr))
    ctx.check("excl:delegate:behind", bool(ok and d), "a delegate whose advertised sigrefs are behind the stored ones is not counted as validated in this fetch",
              rules.where(fn), detail={"path": list(bad.values())[:1]}, fn=fn)
    # Behind edges lead to prune before the next iteration
    okp = True
    nb = 0
    for (b0, tb, lab) in rules.edges_where(db, fn, anc("Behind")):
        nb += 1
        blocks = g.reach_k([(tb, g.edge_know(b0, tb, lab, frozenset()) or frozenset())], avoid_blocks=prunes)
        if any(h in blocks for h in hdr) or any(r in blocks for r in rules.ret_blocks(fn)):
            okp = False
    ctx.check("pair:behind:prune", okp and nb >= 2, "a Behind namespace is always pruned from the pending tips (%d Behind edges)" % nb, rules.where(fn), fn=fn)
    # Diverged for delegates: only Err exits. The delegate arm is the one whose ancestry call feeds valid_delegates
    okd = False
    for (b0, tb, lab) in rules.edges_where(db, fn, anc("Diverged")):
        blocks = g.reach_k([(tb, g.edge_know(b0, tb, lab, frozenset()) or frozenset())], avoid_blocks=set(hdr))
        errs = [bb for bb, j, k, ops in rules.agg_sites(fn, r"^core::result::Result$", "Err") if bb in blocks]
        agg = [bb for bb, j, k, ops in rules.agg_sites(fn, r"state::error::Protocol$", "Diverged") if bb in blocks]
        if agg:
            # from the Diverged edge of the delegate arm nothing but the error is reachable before the loop header
            reach_hdr = any(h in g.reach([tb]) and not _passes(g, tb, h, errs) for h in hdr)
            okd = bool(errs) and not any(v in blocks for v in vins)
    ctx.check("excl:delegate:diverged", okd, "a delegate whose advertised sigrefs diverged aborts the fetch with Protocol::Diverged and is never counted as validated",
              rules.where(fn), fn=fn)

    # special_update table
    su = db.one(r"^radicle_fetch::(git::)?refs::(update::)?special_update$")
    if su is None:
        ctx.violated("anchor:special_update", "refs::special_update not found")
    else:
        clos = db.closures_of.get(su["n"], [])
        okm = False
        for c in clos + [su]:
            ab = [bb for bb, j, k, ops in rules.agg_sites(c, r"^radicle_fetch::git::refs::update::Policy$", "Abort")]
            rj = [bb for bb, j, k, ops in rules.agg_sites(c, r"^radicle_fetch::git::refs::update::Policy$", "Reject")]
            al = [bb for bb, j, k, ops in rules.agg_sites(c, r"^radicle_fetch::git::refs::update::Policy$", "Allow")]
            if ab and rj and not al:
                def isdel(v):
                    return lambda f: f[0] == "bool" and f[2] is v and peel(f[1])[0] == "call" and "call" in (peel(f[1])[1].get("dn") or "")
                ok1, a1, _ = rules.dom_check(db, c, ab, isdel(True))
                ok2, a2, _ = rules.dom_check(db, c, rj, isdel(False))
                okm = bool(ok1 and a1 and ok2 and a2)
        ctx.check("table:special_update", okm, "special refs (rad/id, rad/sigrefs) are updated with Policy::Abort for delegates and Policy::Reject for others, never Allow",
                  rules.where(su), fn=su)
    # who may use Policy::Allow
    allow = []
    for f in db.all_fns():
        if f["crate"] != "radicle_fetch":
            continue
        for bb, j, k, ops in rules.agg_sites(f, r"^radicle_fetch::git::refs::update::Policy$", "Allow"):
            allow.append((f, bb, j))
    rules.who(ctx, "who:Policy::Allow", "use of Policy::Allow (non-fast-forward permitted)", allow,
              [r"^<radicle_fetch::stage::DataRefs as radicle_fetch::stage::ProtocolStage>::prepare_updates$", r"Clone>::clone$"])
    ctx.floor("who:Policy::Allow", len(allow), 1, "Policy::Allow uses")

    # direct()
    di = db.one(r"^radicle_fetch::git::repository::direct$")
    if di is None:
        ctx.violated("anchor:direct", "repository::direct not found")
    else:
        wr = [(bb, fn_arg(di, bb)) for bb, t, c in db.calls(di) if (c.get("n") or "").endswith("git2::repo::Repository::reference")]
        ctx.floor("direct:writes", len(wr), 2, "Repository::reference calls in repository::direct")
        forced = [bb for bb, force in wr if force == "1"]
        unforced = [bb for bb, force in wr if force == "0"]

        def ancd(names):
            return lambda f: f[0] == "variant" and f[4] and f[3] in names and "repository::ancestry" in nshow(f[1])
        okf = True
        for bb in forced:
            ok1, a1, _ = rules.dom_check(db, di, [bb], ancd({"Ahead"}))
            ok2, a2, _ = rules.dom_check(db, di, [bb], lambda f: f[0] == "variant" and f[4] and f[3] == "Allow" and "arg4" in nshow(f[1]))
            if not ((ok1 and a1) or (ok2 and a2)):
                okf = False
        ctx.check("table:direct:force", okf and len(forced) >= 1,
                  "an existing ref is overwritten only when the new target is Ahead, or under Policy::Allow", rules.where(di), fn=di)
        ok3, a3, _ = rules.dom_check(db, di, unforced, lambda f: f[0] == "variant" and f[4] and f[3] == "None" and "refname_to_id" in nshow(f[1]))
        ctx.check("table:direct:create", bool(ok3 and a3 and unforced), "force=false is used only when the ref did not exist", rules.where(di), fn=di)
        # Diverged + Abort => Err(NonFF)
        nonff = [bb for bb, j, k, ops in rules.agg_sites(di, r"error::Update$", "NonFF")]
        ok4, a4, _ = rules.dom_check(db, di, nonff, ancd({"Diverged"}))
        ctx.check("table:direct:abort", bool(ok4 and a4 and nonff), "Diverged under Policy::Abort is reported as a non-fast-forward error", rules.where(di), fn=di)
        # no write reachable from Behind without Allow
        ok5, d5, bad5 = rules.excl_check(db, di, [bb for bb, _ in wr], lambda f: (f[0] == "variant" and f[4] and f[3] in ("Abort", "Reject") and "arg4" in nshow(f[1]))
                                         or (f[0] == "variant" and not f[4] and f[3] == "Allow" and "arg4" in nshow(f[1])))
        ctx.check("excl:direct:non-allow", bool(ok5), "after the policy was found not to be Allow no ref is written", rules.where(di),
                  detail={"path": list(bad5.values())[:1]}, fn=di)
    # data-ref updates carry Policy::Allow for every *listed* name; the only thing keeping rad/sigrefs out of them is that
    # validation reports a listed `refs/rad/sigrefs` as missing
    from .c01 import sigrefs_entry_rule
    sigrefs_entry_rule(ctx)

    # pre_validate / ensure_threshold before fetching data in the special-refs stage
    pv = db.find(r"^<radicle_fetch::stage::SpecialRefs as radicle_fetch::stage::ProtocolStage>::pre_validate$")
    okpv = bool(pv) and any((c.get("n") or "").endswith("ensure_threshold") or "threshold" in (c.get("n") or "") for f in pv for _, _, c in db.calls(f))
    ctx.check("req:pre_validate:threshold", okpv, "SpecialRefs::pre_validate checks the delegate threshold of advertised sigrefs", rules.where(pv[0]) if pv else "", fn=pv[0] if pv else None)
    rs = db.one(r"^radicle_fetch::state::FetchState::run_stage$")
    if rs is not None:
        pvb = rules.call_blocks(rs, r"ProtocolStage::pre_validate$")
        ftb = rules.call_blocks(rs, r"Transport::fetch$|transport::.*::fetch$")
        g2 = graph(rs)
        ctx.check("pass:run_stage:pre_validate", bool(pvb and ftb) and all(any(g2.dominates(p, f_) for p in pvb) for f_ in ftb),
                  "run_stage validates the advertisement (pre_validate) before fetching", rules.where(rs), fn=rs)


def fn_arg(fn, bb):
    t = fn["blocks"][bb]["t"]
    e = peel(expr_operand(fn, t[2][3]))
    return e[1].get("v") if e[0] == "const" else None


def _def_block(fn, e):
    e = peel(e)
    return e[3] if e[0] == "call" else None


def _passes(g, a, b, through):
    return b not in g.reach([a], avoid_blocks=through)
