"""C29 — node-signed announcement timestamps strictly increase (partial, strong).

Decided (structural): (1) only `Service::new` and `Service::timestamp` write
`last_timestamp`; (2) every announcement the service builds for signing takes its
timestamp from a `Service::timestamp()` result, with no second `timestamp()` draw
between the draw and the use; (3) `timestamp()` returns a value strictly greater
than the previous `last_timestamp` on every path and stores it (order domain,
assuming no saturation at u64::MAX)."""
import re

from .. import cfg, rules, flow
from ..callgraph import callgraph
from ..order import RelFlow
from ..cfg import graph, expr_operand, show

SERVICE = r"^radicle_node::service::Service::"
TS = re.compile(r"^radicle_node::service::Service::timestamp$")


def run(ctx):
    db = ctx.db
    ctx.explanation = (
        "Decides the structural clause: last_timestamp is written only by Service::new/timestamp; "
        "every timestamp of an announcement built in radicle-node's service derives from a fresh "
        "Service::timestamp() draw (no other draw between draw and use); timestamp() returns > old "
        "last_timestamp on all paths (order-domain dataflow). It does not decide the behaviour over "
        "interleavings as a whole.")
    ctx.not_decided = "re-sends of the cached node/inventory announcement are treated as the same announcement"
    ctx.rule_text = "WHO(field write) + FLOW(sink timestamp <- Service::timestamp()) + freshness PAIR + ORDER dataflow"
    ctx.assumptions = ["last_timestamp < u64::MAX (Timestamp + u64 saturates)",
                       "the initial node announcement built in runtime.rs is the base of the run"]
    node_fns = [f for f in db.all_fns() if f["crate"] == "radicle_node" and f["unit"] == "radicle_node.rlib"]

    # 1. WHO writes last_timestamp
    sites = []
    for fn in node_fns:
        for bb, idx, s in rules.field_writes(fn, "last_timestamp"):
            sites.append((fn, bb, idx))
        for bb, callee in rules.field_mut_calls(fn, "last_timestamp"):
            sites.append((fn, bb, None))
        for bb, j, k, ops in rules.agg_sites(fn, r"^radicle_node::service::Service$"):
            sites.append((fn, bb, j))
    rules.who(ctx, "who:last_timestamp", "write of Service.last_timestamp", sites,
              [r"^radicle_node::service::Service::new$", r"^radicle_node::service::Service::timestamp$"])
    ctx.floor("who:last_timestamp", len(sites), 2, "writes of last_timestamp (timestamp(), aggregate in new)")

    # 2. FLOW: announcement timestamps come from Service::timestamp()
    cg = callgraph(db)
    ts_fns = db.find(r"^radicle_node::service::Service::timestamp$")
    ctx.check("anchor:timestamp", len(ts_fns) == 1, "Service::timestamp exists", fn="Service::timestamp")
    if len(ts_fns) != 1:
        return
    draws = cg.reaching(ts_fns)          # functions that may draw a timestamp
    src = flow.from_call(TS)
    sinks = []
    for fn in node_fns:
        if not fn["file"].endswith("service.rs"):
            continue
        root = db.root_of(fn)
        for bb, j, k, ops in rules.agg_sites(fn, r"^radicle_node::service::message::(Refs|Inventory|Node)Announcement$"):
            fi = k["fields"].index("timestamp")
            sinks.append((fn, bb, j, ops[fi], "%s{timestamp}" % k["adt"].rsplit("::", 1)[1]))
        for bb in rules.call_blocks(fn, r"^radicle_node::service::gossip::inventory$"):
            sinks.append((fn, bb, None, fn["blocks"][bb]["t"][2][0], "gossip::inventory(timestamp, ..)"))
        for bb in rules.call_blocks(fn, r"^radicle_node::service::gossip::node$"):
            sinks.append((fn, bb, None, fn["blocks"][bb]["t"][2][1], "gossip::node(.., timestamp)"))
    n_checked = 0
    for fn, bb, j, op, what in sinks:
        rk = rules.root_key(db, fn)
        key = "flow:%s:%s" % (rk, what)
        if re.search(r"::Service::new$", rk):
            ctx.ob(key, "assumed", "placeholder inventory built in Service::new (replaced in initialize before any send)",
                   rules.where(fn, bb, j), fn=fn)
            continue
        n_checked += 1
        e = expr_operand(fn, op)
        trace = []
        ok = flow.derives(db, fn, e, src, depth=3, trace=trace)
        ctx.check(key, ok, "timestamp of %s derives from Service::timestamp()" % what,
                  rules.where(fn, bb, j), detail="; ".join(trace) if not ok else None, fn=fn)
        if ok:
            ctx.sample({"sink": what, "at": rules.where(fn, bb, j), "value": show(cfg.peel_calls(e))})
        # freshness: no other draw between the draw and the use inside this function
        g = graph(fn)
        draw_blocks = [b for b in rules.call_blocks(fn, TS)]
        others = set()
        for b2, t, c in db.calls(fn):
            tgts = cg._targets(fn, c) if "d" in c else []
            if any(x["uid"] in draws for x in tgts):
                others.add(b2)
        for d in draw_blocks:
            tgt = fn["blocks"][d]["t"][4]
            if tgt is None:
                continue
            mid = (others - {d, bb})
            # is there a path d -> bb that passes another drawing call?
            bad = None
            for m in mid:
                if m in g.reach([tgt]) and bb in g.reach([m]) and m != bb:
                    # m lies between: only a problem if the value used at the sink is the one drawn at d
                    bad = m
                    break
            ctx.check("fresh:%s:%s" % (rk, what), bad is None,
                      "no second timestamp draw between the draw and its use in %s" % what,
                      rules.where(fn, bad if bad is not None else d), fn=fn)
    ctx.floor("flow:sinks", n_checked, 2, "announcement timestamp sinks in service.rs (refs_announcement_for, initialize, refresh_and_announce_inventory)")

    # 2b. Service::new: last_timestamp starts at the node announcement's timestamp
    new = db.one(r"^radicle_node::service::Service::new$")
    if new is None:
        ctx.violated("anchor:new", "Service::new not found (anchor missing)")
    else:
        ok = False
        for bb, j, k, ops in rules.agg_sites(new, r"^radicle_node::service::Service$"):
            e = cfg.peel_calls(expr_operand(new, ops[k["fields"].index("last_timestamp")]))
            ok = e[0] == "field" and e[2] == "timestamp"
            ctx.check("flow:new:last_timestamp", ok, "Service::new initialises last_timestamp from node.timestamp",
                      rules.where(new, bb, j), detail=show(e), fn=new)

    # 3. ORDER
    ts = ts_fns[0]
    rf = RelFlow(ts, "last_timestamp", add_callees=("core::ops::arith::Add::add",))
    res = rf.run()
    if res is None or not res:
        ctx.ob("order:timestamp", "inconclusive", "order dataflow did not converge: %s" % rf.notes, rules.where(ts), fn=ts)
    else:
        for r in res:
            ok = r["ret_rel"] == ">" and r["field_rel"] == ">" and r["ret_is_field"]
            ctx.check("order:timestamp", ok,
                      "timestamp(): returned value %s old last_timestamp, stored value %s old, returned==stored: %s (need '>', '>', True)" % (
                          r["ret_rel"], r["field_rel"], r["ret_is_field"]),
                      rules.where(ts, r["bb"]), fn=ts)
    # Add<u64> for Timestamp must be (saturating) addition
    add = db.one(r"^<radicle::node::timestamp::Timestamp as core::ops::arith::Add<u64>>::add$")
    if add is None:
        ctx.violated("anchor:add", "impl Add<u64> for Timestamp not found (anchor missing)")
    else:
        calls = [c["n"] for _, _, c in db.calls(add)]
        ok = any(re.search(r"saturating_add$|checked_add$", n or "") for n in calls) or any(
            s[0] == "=" and s[2][0] == "bin" and s[2][1] in ("Add", "AddWithOverflow", "AddUnchecked")
            for b in add["blocks"] for s in b["s"])
        ctx.check("order:add", ok, "Timestamp + u64 is an addition of the two operands", rules.where(add), fn=add)
