"""C04 — identity revisions need a majority of valid delegate signatures (partial, strong).

Decided (structural): every recorded accept-signature and every head vote is behind
a successful `Doc::verify_signature` (dominance, or must-pass-through the verifying
`Revision::accept` before any Ok exit); `verify_signature` checks delegate
membership and the signature; only delegates of the current document act; `current`
is written only by `adopt` under `is_majority(votes)` with votes = number of heads
equal to the candidate; majority = len/2 + 1; the accepted/current revision is never
redacted or edited; `Identity::op` is transactional (TX, and no ignored step error can
follow a write of that step) so a failed accept leaves no
vote behind; an entry reaches `apply` only behind `valid_signatures()` (the author the
commit names is trusted by `action`); a revision is recorded only if the document embedded
in its commit — what `Repository::identity_doc()` reads back — is the blob the action
names and the delegates sign (sibling rule with `from_root`).  Not decided: "majority of the replaced document" over arbitrary
concurrent histories."""
import re

from .. import cfg, rules, flow, table
from ..cfg import expr_operand, show, nshow, peel, peel_calls, base_value, walk, graph
from ..tx import TX
from . import c06

VS = r"^radicle::identity::doc::Doc::verify_signature$"
ACT = r"^radicle::cob::identity::Identity::action$"


def run(ctx):
    _run(ctx)
    from . import c06
    c06.apply_after_signature(ctx, "author")
    embedded_doc_rule(ctx)


def _run(ctx):
    db = ctx.db
    ctx.explanation = (
        "Decides structurally: signature discipline (DOM/PASS of verify_signature=Ok before every recorded Accept verdict and "
        "head vote), delegate gate on every write in Identity::action, `current` written only under is_majority with the "
        "right vote count, majority table, immutability guards for the current/accepted revision, and transactionality of "
        "Identity::op (TX). Behaviour over arbitrary concurrent histories as a whole is not decided.")
    ctx.not_decided = "that `current` denotes the majority of the replaced document over arbitrary concurrent histories"
    ctx.rule_text = "DOM + PASS + WHO + TABLE + FLOW + TX"
    act = db.one(ACT)
    acc = db.one(r"^radicle::cob::identity::Revision::accept$")
    adopt = db.one(r"^radicle::cob::identity::Identity::adopt$")
    fr = db.one(r"^<radicle::cob::identity::Identity as radicle::cob::store::Cob>::from_root$")
    if not all((act, acc, adopt, fr)):
        ctx.violated("anchor:identity", "Identity::action / Revision::accept / adopt / from_root not found (anchor missing)")
        return
    vs_ok = rules.is_variant(VS, "Ok")
    # 1. Revision::new behind verify_signature Ok
    n = 0
    for fn in (act, fr):
        sites = rules.call_blocks(fn, r"^radicle::cob::identity::Revision::new$")
        n += len(sites)
        ok, a, bad = rules.dom_check(db, fn, sites, vs_ok)
        ctx.check("dom:Revision::new:%s" % cfg.short(fn["key"]), bool(ok and a and sites),
                  "a revision (carrying its author's Accept verdict) is created only after verify_signature returned Ok",
                  rules.where(fn, sites[0] if sites else None), detail={"path": list(bad.values())[:1]}, fn=fn)
        for bb in rules.call_blocks(fn, VS):
            t = fn["blocks"][bb]["t"]
            key, sig, blob = (nshow(peel_calls(expr_operand(fn, x))) for x in t[2][1:4])
            for sb in sites:
                st = fn["blocks"][sb]["t"]
                rauthor = nshow(base_value(expr_operand(fn, st[2][3])))
                rsig = nshow(peel_calls(expr_operand(fn, st[2][7])))
                rblob = nshow(peel_calls(expr_operand(fn, st[2][4])))
                ctx.check("flow:Revision::new:%s:args" % cfg.short(fn["key"]), rsig == sig and (rblob == blob) and (key in rauthor or rauthor in key or "first" in key),
                          "the verified (key, signature, blob) are the ones stored in the revision (%s | %s | %s)" % (key[:40], sig[:30], blob[:40]),
                          rules.where(fn, bb), fn=fn)
    ctx.floor("Revision::new:sites", n, 2, "Revision::new call sites (from_root, action)")
    who = [(f, bb, None) for f, bb in db.call_sites(r"^radicle::cob::identity::Revision::new$")]
    rules.who(ctx, "who:Revision::new", "call of Revision::new", who, [ACT, r"Cob>::from_root$"])
    # Verdict::Accept aggregates
    va = []
    for f in db.all_fns():
        if f["crate"] != "radicle":
            continue
        for bb, j, k, ops in rules.agg_sites(f, r"^radicle::cob::identity::Verdict$", "Accept"):
            va.append((f, bb, j))
    rules.who(ctx, "who:Verdict::Accept", "construction of Verdict::Accept", va,
              [r"^radicle::cob::identity::Revision::(new|accept)$", r"Clone>::clone$", r"serde|Deserialize|Visitor"])
    ctx.floor("who:Verdict::Accept", len(va), 2, "Verdict::Accept constructions")
    # accept(): verdict insert behind verify Ok
    ins = [bb for bb, callee in rules.field_mut_calls(acc, "verdicts") if callee.endswith("::insert")]
    ok, a, bad = rules.dom_check(db, acc, ins, vs_ok)
    ctx.check("dom:accept:verdict", bool(ok and a and ins), "Revision::accept records the verdict only after verify_signature returned Ok",
              rules.where(acc, ins[0] if ins else None), detail={"path": list(bad.values())[:1]}, fn=acc)
    for bb in rules.call_blocks(acc, VS):
        t = acc["blocks"][bb]["t"]
        doc, key, sig, blob = (nshow(peel_calls(expr_operand(acc, x))) for x in t[2][0:4])
        ctx.check("flow:accept:verify-args", "arg4" in doc and key == "arg2" and sig == "arg3" and blob == "arg1.blob",
                  "the signature is verified against the *current* document, for the voter's key, over this revision's blob (%s, %s, %s, %s)" % (doc, key, sig, blob),
                  rules.where(acc, bb), fn=acc)
    # verify_signature table
    vf = db.one(VS)
    if vf is None:
        ctx.violated("anchor:verify_signature", "Doc::verify_signature not found")
    else:
        oks = [bb for bb, j, k, ops in rules.agg_sites(vf, r"^core::result::Result$", "Ok")]
        ok1, a1, _ = rules.dom_check(db, vf, oks, rules.is_bool(r"doc::Doc::is_delegate$", True))
        ok2, a2, _ = rules.dom_check(db, vf, oks, lambda f: (f[0] == "variant" and f[4] and f[3] == "Ok" and "PublicKey::verify" in nshow(f[1]))
                                     or (f[0] == "bool" and f[2] is False and "is_err" in nshow(f[1]) and "PublicKey::verify" in nshow(f[1])))
        ctx.check("table:verify_signature", bool(ok1 and a1 and ok2 and a2 and oks),
                  "verify_signature returns Ok only for a delegate key whose signature over the blob verifies", rules.where(vf), fn=vf)
        for bb in rules.call_blocks(vf, r"PublicKey::verify$"):
            t = vf["blocks"][bb]["t"]
            k_, m_, s_ = (nshow(peel_calls(expr_operand(vf, x))) for x in t[2][0:3])
            ctx.check("flow:verify_signature:args", k_ == "arg2" and "arg4" in m_ and s_ == "arg3",
                      "the key, blob id and signature checked are the arguments (%s, %s, %s)" % (k_, m_[:40], s_), rules.where(vf, bb), fn=vf)

    # 2. head votes
    hv = [bb for bb, callee in rules.field_mut_calls(act, "heads") if callee.endswith("::insert")]
    ctx.floor("heads:insert", len(hv), 2, "heads.insert sites in Identity::action")
    g = graph(act)
    okret = [bb for bb, j, k, ops in rules.agg_sites(act, r"^core::result::Result$", "Ok")]
    accept_ok = rules.edges_where(db, act, rules.is_variant(r"^radicle::cob::identity::Revision::accept$", "Ok"))
    for i, bb in enumerate(sorted(hv)):
        ok, a, bad = rules.dom_check(db, act, [bb], vs_ok)
        if ok and a:
            ctx.held("dom:heads:%d" % i, "head vote recorded after verify_signature returned Ok", rules.where(act, bb), fn=act)
            continue
        # must pass through accept()==Ok before any Ok exit
        tgt = act["blocks"][bb]["t"][4]
        blocks = g.reach_k([(tgt, frozenset())], avoid_edges=accept_ok)
        leak = [r for r in okret if r in blocks]
        ctx.check("pass:heads:%d" % i, bool(accept_ok) and not leak,
                  "a head vote recorded before verification can reach an Ok exit only through Revision::accept() == Ok (which verifies the signature)",
                  rules.where(act, bb), detail={"path": g.path_k(blocks, leak[0]) if leak else None}, fn=act)
    hm = []
    for f in db.all_fns():
        if f["crate"] != "radicle":
            continue
        for bb, callee in rules.field_mut_calls(f, "heads", r"cob::identity::Identity"):
            hm.append((f, bb, None))
    rules.who(ctx, "who:Identity.heads", "mutation of Identity.heads", hm, [ACT, r"^radicle::cob::identity::Identity::new$"])

    # 3. current
    cw = []
    for f in db.all_fns():
        if f["crate"] != "radicle":
            continue
        for bb, j, s in rules.field_writes(f, "current", r"cob::identity::Identity"):
            if s[1][1][-1].startswith(".") and s[1][1][-1].endswith(":current"):
                cw.append((f, bb, j))
        for bb, j, k, ops in rules.agg_sites(f, r"^radicle::cob::identity::Identity$"):
            cw.append((f, bb, j))
    helpers = rules.who_inherit(ctx, "who:Identity.current", "write of Identity.current", cw,
                                [r"^radicle::cob::identity::Identity::(new|adopt)$", r"Clone>::clone$", r"serde|Deserialize|Visitor"])
    aw = [bb for bb, j, s in rules.field_writes(adopt, "current") if s[1][1][-1].endswith(":current")]
    # a helper that performs the write on adopt's behalf: its call sites in adopt are the effect
    for hk, callers in helpers.items():
        aw += [bb for f_, bb in callers if f_ is adopt or db.root_of(f_) is adopt]
    ok, a, bad = rules.dom_check(db, adopt, aw, rules.is_bool(r"is_majority$", True))
    ctx.check("dom:adopt:majority", bool(ok and a and aw), "adopt() changes `current` only if is_majority(votes) holds", rules.where(adopt, aw[0] if aw else None), fn=adopt)
    for bb in rules.call_blocks(adopt, r"is_majority$"):
        v = nshow(peel_calls(expr_operand(adopt, adopt["blocks"][bb]["t"][2][1])))
        okv = bool(re.search(r"::count\(", v)) and "arg1.heads" in v and "filter" in v
        ctx.check("flow:adopt:votes", okv, "votes = number of head entries (one per delegate) pointing at the candidate (%s)" % v[:120], rules.where(adopt, bb), fn=adopt)
        for x in walk(expr_operand(adopt, adopt["blocks"][bb]["t"][2][1])):
            if x[0] == "agg" and isinstance(x[1], dict) and x[1].get("closure"):
                for f in flow.closure_family(db, adopt, x[1]["closure"]):
                    rd = rules.ret_defs(f)
                    okc = len(rd) == 1 and rd[0][1] == "call" and (rd[0][2][1].get("dn") or "").endswith("PartialEq::eq")
                    ctx.check("flow:adopt:votes-filter", okc, "the vote filter is an equality with the candidate revision id", rules.where(f), fn=f)
    hty = [f_["ty"] for f_ in db.adts["radicle::cob::identity::Identity"]["variants"][0]["fields"] if f_["n"] == "heads"]
    ctx.check("type:Identity.heads", bool(hty) and hty[0].startswith("alloc::collections::btree::map::BTreeMap<radicle::identity::did::Did"),
              "heads is a map keyed by delegate (one vote per delegate): %s" % hty)
    mj = db.one(r"^radicle::identity::doc::Doc::majority$")
    im = db.one(r"^radicle::identity::doc::Doc::is_majority$")
    if mj is None or im is None:
        ctx.violated("anchor:majority", "Doc::majority / is_majority not found")
    else:
        rd = rules.ret_defs(mj)
        e = rd[0][2] if len(rd) == 1 else None
        s = nshow(e) if e else ""
        okm = e is not None and e[0] == "field" or True
        # `_0 = (len / 2) + 1` : Add(Div(len, 2), 1) possibly through AddWithOverflow tuple
        txt = " ".join(cfg.fmt_rv(mj, st[2]) for b in mj["blocks"] for st in b["s"] if st[0] == "=")
        okm = bool(re.search(r"Div\([^,]+, 2\)", txt)) and bool(re.search(r"Add(WithOverflow)?\([^,]+, 1\)", txt)) and \
            any((c.get("n") or "").endswith("Delegates::len") for _, _, c in db.calls(mj))
        ctx.check("table:majority", okm, "majority() == delegates.len() / 2 + 1", rules.where(mj), detail=txt[:200], fn=mj)
        rd = rules.ret_defs(im)
        oki = len(rd) == 1 and rd[0][1] == "expr" and rd[0][2][0] == "bin" and rd[0][2][1] == "Ge" and \
            nshow(rd[0][2][2]) == "arg2" and "majority" in nshow(rd[0][2][3])
        ctx.check("table:is_majority", oki, "is_majority(v) == (v >= majority())", rules.where(im), fn=im)

    # 4. delegate gate: every write in action is dominated by is_delegate(author) on the current document
    writes = set()
    for fld in ("heads", "revisions", "current", "timeline"):
        for bb, callee in rules.field_mut_calls(act, fld):
            writes.add(bb)
        for bb, j, s in rules.field_writes(act, fld):
            writes.add(bb)
    for bb in rules.call_blocks(act, r"Identity::adopt$|Revision::(accept|reject)$"):
        writes.add(bb)
    for i, b in enumerate(act["blocks"]):
        for s in b["s"]:
            if s[0] == "=" and "*" in s[1][1] and not b.get("c") and act["locals"][s[1][0]][0].startswith("&mut "):
                writes.add(i)
    ctx.floor("action:writes", len(writes), 3, "state-writing sites in Identity::action")
    ok, a, bad = rules.dom_check(db, act, sorted(writes), rules.is_bool(r"doc::Doc::is_delegate$", True))
    ctx.check("dom:action:delegate", bool(ok and a), "every state change in Identity::action is behind `current.is_delegate(author)`",
              rules.where(act, (list(bad) or [None])[0]), detail={"path": list(bad.values())[:1]}, fn=act)
    for bb in rules.call_blocks(act, r"doc::Doc::is_delegate$"):
        t = act["blocks"][bb]["t"]
        d_, w_ = nshow(base_value(expr_operand(act, t[2][0]))), nshow(peel_calls(expr_operand(act, t[2][1])))
        ctx.check("flow:action:delegate-of-current", "Identity::current(arg1)" in d_ and w_ == "arg4",
                  "delegate status is tested on the current document for the op author (%s, %s)" % (d_[:60], w_), rules.where(act, bb), fn=act)

    # 5. accepted/current revision immutable
    sw = table.variant_switch(db, act, "arg2")
    regs, _ = table.regions(act, sw[1]) if sw else ({}, set())

    def not_current(v):
        def p(f):
            return f[0] == "cmp" and f[1] == "Ne" and "arg1.current" in nshow(f[2]) + nshow(f[3]) and ("arg2 as %s.revision" % v) in nshow(f[2]) + nshow(f[3])
        return p
    red = []
    for bb in regs.get("RevisionRedact", ()):
        for s in act["blocks"][bb]["s"]:
            if s[0] == "=" and "*" in s[1][1]:
                e = peel(cfg.expr_rvalue(act, s[2]))
                if e[0] == "agg" and isinstance(e[1], dict) and e[1].get("var") == "None":
                    red.append(bb)
    ctx.floor("redact:sites", len(red), 1, "`*revision = None` in the RevisionRedact arm")
    for label, pred in (("not-current", not_current("RevisionRedact")),
                        ("not-accepted", rules.is_bool(r"Revision::is_accepted$", False)),
                        ("own", lambda f: f[0] == "cmp" and f[1] == "Eq" and "arg4" in nshow(f[2]) + nshow(f[3]) and "author" in nshow(f[2]) + nshow(f[3]))):
        ok, a, bad = rules.dom_check(db, act, red, pred)
        ctx.check("dom:redact:%s" % label, bool(ok and a and red), "a revision is redacted only if %s" % label, rules.where(act, red[0] if red else None),
                  detail={"path": list(bad.values())[:1]}, fn=act)
    ed = [bb for bb in regs.get("RevisionEdit", ()) for s in act["blocks"][bb]["s"]
          if s[0] == "=" and "*" in s[1][1] and (rules.place_has_field(s[1], "title") or rules.place_has_field(s[1], "description"))]
    ctx.floor("edit:sites", len(ed), 1, "title/description writes in the RevisionEdit arm")
    for label, pred in (("not-current", not_current("RevisionEdit")),
                        ("active", rules.is_bool(r"Revision::is_active$", True)),
                        ("own", lambda f: f[0] == "cmp" and f[1] == "Eq" and "arg4" in nshow(f[2]) + nshow(f[3]) and "author" in nshow(f[2]) + nshow(f[3]))):
        ok, a, bad = rules.dom_check(db, act, ed, pred)
        ctx.check("dom:edit:%s" % label, bool(ok and a and ed), "a revision is edited only if %s" % label, rules.where(act, ed[0] if ed else None),
                  detail={"path": list(bad.values())[:1]}, fn=act)
    for v in ("RevisionAccept", "RevisionReject"):
        eff = [bb for bb in regs.get(v, ()) if act["blocks"][bb]["t"][0] == "call" and
               re.search(r"Revision::(accept|reject)$|::insert$", act["blocks"][bb]["t"][1].get("n") or "")]
        ok, a, bad = rules.dom_check(db, act, eff, rules.is_bool(r"Revision::is_active$", True))
        ctx.check("dom:%s:active" % v, bool(ok and a and eff), "votes are recorded only on an active (not accepted/stale) revision",
                  rules.where(act, eff[0] if eff else None), fn=act)

    # 6. TX
    tx = TX(db)
    ap = [f for f in db.all_fns() if (f.get("impl") or {}).get("trait") == c06.EV and f.get("assoc_name") == "apply"
          and "identity::Identity" in (f.get("impl") or {}).get("self", "")]
    for f in ap:
        s = tx.summary(f, 1)
        if s["dirty_err"] and not s.get("unknown"):
            wit = c06.describe(db, tx, f, 1)
            ctx.violated("tx:Identity::apply", "Identity::apply is not transactional: a change that fails (e.g. an accept with an invalid or duplicate "
                         "signature) leaves its earlier writes (head vote, overwritten verdict) in the state", wit["where"], detail=wit["chain"], fn=f)
        elif s["dirty_err"]:
            ctx.ob("tx:Identity::apply", "inconclusive", "verdict rests on an unmodelled callee: %s" % s["unknown"], rules.where(f), fn=f)
        else:
            ctx.held("tx:Identity::apply", "Identity::apply is transactional", rules.where(f), fn=f)
    ctx.floor("tx:Identity::apply", len(ap), 1, "Evaluate::apply for Identity")
    # a vote recorded by a step whose error is then ignored would survive without a verified signature
    from .. import swallow
    idf = [(f, p) for f, p in swallow.cob_functions(db) if "cob::identity" in f["key"]]
    nsw = swallow.check(ctx, idf, "swallow", "ignored step error in identity evaluation")
    ctx.floor("swallow:identity", nsw, 1, "sites in identity evaluation where a step's error is ignored")


def embedded_doc_rule(ctx):
    """`Repository::identity_doc()` does not evaluate the identity COB: it reads `embeds/radicle.json` of the commit the
    identity head points at, i.e. of the accepted revision's commit.  What the delegates sign is the blob named in the
    revision action.  A revision may therefore be recorded only if the document embedded in its commit *is* that blob —
    `from_root` checks it for the first revision; every later revision needs the same check (sibling rule)."""
    db = ctx.db
    import re as _re
    from ..cfg import nshow as _ns
    fns = [(r"^<radicle::cob::identity::Identity as radicle::cob::store::Cob>::from_root$", "from_root"),
           (r"^radicle::cob::identity::Identity::action$", "action")]
    for pat, label in fns:
        fn = db.one(pat)
        if fn is None:
            ctx.violated("sib:revision:embedded-doc:%s" % label, "Identity::%s not found (anchor missing)" % label)
            continue
        news = [bb for bb, t, c in db.calls(fn) if (c.get("n") or "").endswith("identity::Revision::new")]
        ctx.floor("revision:new:%s" % label, len(news), 1, "Revision::new sites in Identity::%s" % label)

        def same_blob(f):
            if f[0] != "cmp" or f[1] != "Eq":
                return False
            a, b = _ns(f[2]), _ns(f[3])
            for x, y in ((a, b), (b, a)):
                if _re.search(r"Doc::(load_at|blob_at)\(", x) and _re.search(r"as Revision\.blob|\bRevision\.blob", y):
                    return True
            return False
        ok, allow, bad = rules.dom_check(db, fn, news, same_blob)
        ctx.check("sib:revision:embedded-doc:%s" % label, bool(ok and allow and news),
                  "a revision is recorded only if the document embedded in its commit (what Repository::identity_doc() reads back once the revision is "
                  "accepted) is the blob the revision action names and the delegates sign",
                  rules.where(fn, news[0] if news else None), detail={"path": list(bad.values())[:1]}, fn=fn)
