"""C01 — replicated refs always match their owner's signed refs (partial).

Decided (structural skeleton of the mechanism): (WHO) inside radicle-fetch a git
reference is written or deleted only by `repository::direct` / `repository::prune`,
which only `repository::update` calls, which only `FetchState::run` calls, with
the pending tips of the fetch state as its argument; (PAIR) in the validation loop
of `run` every path of an iteration that records a validation failure (or a failed
delegate) also removes that remote's pending tips (`FetchState::prune`, which
removes the remote from `tips`); (DOM/EXCL) a remote is reported as validated
(`remotes.insert` / `valid_delegates.insert`) only after `sigrefs::validate`
reported no failure, and never after its advertised sigrefs were found
Behind/Diverged; (SIB/TABLE) both implementations of `validate_remote` report
unsigned, mismatched and missing refs and a missing sigrefs ref, skip only the
signed-refs branch itself, and `sigrefs::validate` hands them a `Remote<Verified>`
built from `SignedRefs<Verified>` (typestate shared with C20: only
`SignedRefs::verified` builds it, behind `verify`=Ok); (FLOW) `DataRefs::
prepare_updates` creates one direct update per signed ref with the signed target
and prunes only refs that are not signed and not under `refs/rad`; (ORDER) the per-remote list
of pending updates only grows at its end, so the update derived from the verified signed refs
is applied after — and overrides — the advertised tip recorded by an earlier stage.
Not decided: that the update/prune set is exactly right for every repository
content, atomicity of `repository::update`, and any git-level behaviour."""
import re

from .. import cfg, rules, flow
from ..cfg import expr_operand, nshow, peel, graph

RUN = r"^radicle_fetch::state::FetchState::run$"
UPD = r"^radicle_fetch::git::repository::update$"
PRUNE = r"^radicle_fetch::state::FetchState::prune$"
GIT_REF_WRITE = (r"^git2::repo::Repository::(reference|reference_matching|reference_symbolic|reference_symbolic_matching|"
                 r"reference_ensure_log|set_head|set_head_detached|remote|remote_anonymous|branch)$|"
                 r"^git2::reference::Reference::(delete|set_target|rename|symbolic_set_target)$|"
                 r"^git2::remote::Remote::(fetch|update_tips|download|push)$|^git2::branch::Branch::(delete|rename)$")
VAL = r"radicle::storage::git::Validation$"


def run_roles(db, fn):
    """Roles of the locals of FetchState::run, read off what the function returns and tests (not off their names):
    `failures`, `remotes`, `failed_delegates`, `threshold` are the values moved into FetchResult::{Success, Failed};
    `valid_delegates` is the set whose len() is compared in the gate that dominates repository::update."""
    roles = {}
    for bb, j, k, ops in rules.agg_sites(fn, r"FetchResult$"):
        names = k.get("fields") or []
        for nm, role in (("validations", "failures"), ("remotes", "remotes"), ("delegates", "failed_delegates"), ("threshold", "threshold")):
            if nm in names:
                r = flow.root_place(fn, ops[names.index(nm)])
                if r is not None and not r[1]:
                    roles.setdefault(role, r[0])
    ups = rules.call_blocks(fn, UPD)
    for bb2, tb, lab, facts in cfg.all_edge_facts(db, fn):
        for f in facts:
            if f[0] == "cmp" and f[1] in ("Ge", "Gt", "Le", "Lt"):
                for side in (f[2], f[3]):
                    e = peel(side)
                    if e[0] == "call" and (e[1].get("n") or "").endswith("BTreeSet::len") and ups and graph(fn).dominates(bb2, ups[0]):
                        # root local of the receiver
                        t = fn["blocks"][e[3]]["t"]
                        r = flow.root_place(fn, t[2][0])
                        if r is not None and not r[1]:
                            roles.setdefault("valid_delegates", r[0])
    return roles


def _recv_role(fn, t, roles):
    """role of the local a method call's receiver is rooted at"""
    if not t[2]:
        return None
    r = flow.root_place(fn, t[2][0])
    if r is None:
        return None
    for role, l in roles.items():
        if l == r[0]:
            return role
    return None


def validated_ok(f):
    """edge fact: sigrefs::validate reported nothing"""
    if f[0] not in ("variant", "bool"):
        return False
    s = nshow(f[1])
    if "sigrefs::validate(" not in s:
        return False
    if f[0] == "variant":
        return f[3] == "None" and bool(f[4])
    head = s.split("sigrefs::validate(")[0]
    return "is_empty" in head and f[2] is True


def run(ctx):
    _run(ctx)
    update_order_rule(ctx)


def _run(ctx):
    db = ctx.db
    ctx.explanation = (
        "Decides the structural skeleton: who may write git references during a fetch; what is applied is the pending-tips map; "
        "every validation failure in FetchState::run is paired with pruning that remote's pending tips; a remote counts as "
        "validated only behind a failure-free sigrefs::validate and never when Behind/Diverged; the two validate_remote "
        "implementations report the same four kinds of mismatch and skip only the signed-refs branch; validation is handed "
        "verified signed refs only; DataRefs::prepare_updates derives updates from the signed refs and prunes only unsigned "
        "non-rad refs.  The exactness of the update set and git behaviour are not decided.")
    ctx.not_decided = ("that prepare_updates yields exactly the right update/prune set for every repository content; atomicity "
                       "of repository::update across remotes; git-level behaviour")
    ctx.rule_text = "WHO + FLOW + PAIR + DOM/EXCL + SIB/TABLE + TYPESTATE"

    # ---------------------------------------------------------------- 1. who writes refs
    sites = []
    for f in db.all_fns():
        if f["crate"] != "radicle_fetch":
            continue
        for bb, t, c in db.calls(f):
            n = c.get("n") or ""
            if re.search(GIT_REF_WRITE, n):
                sites.append((f, bb, None))
    ctx.floor("who:git-ref-write", len(sites), 1, "git reference writes/deletes in radicle-fetch")
    rules.who(ctx, "who:git-ref-write", "git reference write/delete inside radicle-fetch", sites,
              [r"^radicle_fetch::git::repository::direct$", r"^radicle_fetch::git::repository::prune$"])
    for tgt, allowed in ((r"^radicle_fetch::git::repository::direct$", [UPD]),
                         (r"^radicle_fetch::git::repository::prune$", [UPD]),
                         (UPD, [RUN])):
        cs = [(f, bb, None) for f, bb in db.call_sites(tgt)]
        ctx.floor("who:" + tgt.strip("^$").split("::")[-1], len(cs), 1, "call sites of %s" % tgt.strip("^$"))
        rules.who(ctx, "who:call:" + tgt.strip("^$").split("::")[-1], "call of %s" % tgt.strip("^$"), cs, allowed)
    # storage-level writers of radicle::storage used from radicle-fetch (outside the final update): none may touch peer namespaces
    fn = db.one(RUN)
    if fn is None:
        ctx.violated("anchor:run", "FetchState::run not found (anchor missing)")
        return
    g = graph(fn)
    ups = rules.call_blocks(fn, UPD)
    for bb in ups:
        t = fn["blocks"][bb]["t"]
        s = nshow(expr_operand(fn, t[2][1]))
        ctx.check("flow:update:tips", ".tips" in s and "arg1" in s, "what is applied to storage is the fetch state's pending tips map (%s)" % s[:120],
                  rules.where(fn, bb), fn=fn)

    # ---------------------------------------------------------------- 2. prune removes the pending tips
    pr = db.one(PRUNE)
    if pr is None:
        ctx.violated("anchor:prune", "FetchState::prune not found")
    else:
        rm = [n for n in rules.field_mut_calls(pr, "tips") if n[1].endswith("BTreeMap::remove")]
        ctx.check("req:prune:tips", bool(rm), "FetchState::prune removes the remote from the pending tips", rules.where(pr), fn=pr)
        rs = [n for n in rules.field_mut_calls(pr, "sigrefs") if n[1].endswith("::remove")]
        ctx.check("req:prune:sigrefs", bool(rs), "FetchState::prune removes the remote's pending sigrefs tip", rules.where(pr), fn=pr)

    # ---------------------------------------------------------------- 3. failure => prune, per loop iteration
    hdr = [bb for bb, t, c in db.calls(fn) if (c.get("dn") or "").endswith("Iterator::next") and "Keys" in (c.get("n") or "")]
    prunes = rules.call_blocks(fn, PRUNE)
    ctx.floor("run:loop", len(hdr), 1, "validation loop header (iteration over the signed-refs keys)")
    ctx.floor("run:prune", len(prunes), 1, "FetchState::prune call sites in run")
    roles = run_roles(db, fn)
    ctx.floor("run:roles", len([r for r in ("failures", "remotes", "failed_delegates", "valid_delegates") if r in roles]), 4,
              "accumulators of FetchState::run identified by what is returned/tested (failures, remotes, failed_delegates, valid_delegates)")
    fails = []
    for bb, t, c in db.calls(fn):
        n = c.get("n") or ""
        nm = _recv_role(fn, t, roles)
        if nm == "failures" and (n.endswith("Vec::push") or n.endswith("Validations::append") or n.endswith("Vec::append") or n.endswith("::extend")):
            fails.append((bb, "failures"))
        elif nm == "failed_delegates" and n.endswith("BTreeSet::insert"):
            fails.append((bb, "failed_delegates"))
    ctx.floor("run:failure-records", len(fails), 1, "failure-recording sites in the validation loop")
    for bb, what in fails:
        # path: header -> bb without prune, and bb -> header/return without prune
        # `reach` from the header includes paths that go around the loop again; a path that passes
        # the header again starts a new iteration, so cut at the header by starting from its successors
        pre = _reach_from_succ(g, fn, hdr, avoid=set(prunes) | set(hdr))
        post = g.reach([bb], avoid_blocks=set(prunes))
        escapes = any(h in post for h in hdr) or any(r in post for r in rules.ret_blocks(fn) if r != bb)
        bad = (bb in pre) and escapes
        ctx.check("pair:%s:prune:bb%s" % (what, _ord(fails, bb)), not bad,
                  "an iteration that records a failure (%s) also prunes that remote's pending tips" % what,
                  rules.where(fn, bb), fn=fn)

    # ---------------------------------------------------------------- 4. validated only behind a clean validate
    ins = []
    for bb, t, c in db.calls(fn):
        n = c.get("n") or ""
        nm = _recv_role(fn, t, roles)
        if n.endswith("BTreeSet::insert") and nm in ("remotes", "valid_delegates"):
            ins.append((bb, nm))
    ctx.floor("run:validated-inserts", len(ins), 2, "remotes.insert / valid_delegates.insert sites")
    for bb, nm in ins:
        ok, allow, bad = rules.dom_check(db, fn, [bb], validated_ok)
        ctx.check("dom:%s.insert:validate:%d" % (nm, _ord(ins, bb)), bool(ok and allow),
                  "%s.insert happens only after sigrefs::validate reported no failure" % nm, rules.where(fn, bb),
                  detail={"path": list(bad.values())[:1]}, fn=fn)

    def anc(names):
        return lambda f: f[0] == "variant" and f[4] and f[3] in names and "repository::ancestry" in nshow(f[1])
    ok, d, bad = rules.excl_check(db, fn, [bb for bb, _ in ins], anc({"Behind", "Diverged"}), reeval_blocks=set(hdr))
    ctx.check("excl:validated:behind-diverged", bool(ok and d),
              "a remote whose advertised sigrefs are behind or diverged from the stored ones is never reported as validated in that iteration",
              rules.where(fn), detail={"path": list(bad.values())[:1]}, fn=fn)
    # non-delegate Behind|Diverged => prune before the next iteration
    nb = 0
    okp = True
    for (b0, tb, lab) in rules.edges_where(db, fn, anc({"Behind", "Diverged"})):
        blocks = g.reach_k([(tb, g.edge_know(b0, tb, lab, frozenset()) or frozenset())], avoid_blocks=prunes)
        errs = set(bb for bb, j, k, ops in rules.agg_sites(fn, r"^core::result::Result$", "Err"))
        nb += 1
        if any(h in blocks for h in hdr):
            okp = False
    ctx.check("pair:behind-diverged:prune", okp and nb >= 3,
              "Behind/Diverged sigrefs lead to pruning of the pending tips (or an error) before the next iteration (%d edges)" % nb, rules.where(fn), fn=fn)

    # ---------------------------------------------------------------- 5. sigrefs::validate and the two validators
    sv = db.one(r"^radicle_fetch::sigrefs::validate$")
    if sv is None:
        ctx.violated("anchor:sigrefs::validate", "sigrefs::validate not found")
    else:
        vr = [bb for bb, t, c in db.calls(sv) if "validate_remote" in (c.get("dn") or "") or "validate_remote" in (c.get("n") or "")]
        ctx.check("req:validate:validate_remote", len(vr) == 1, "sigrefs::validate delegates to ValidateRepository::validate_remote", rules.where(sv), fn=sv)
        # result is Some(validations) iff non-empty
        ie = [bb for bb, t, c in db.calls(sv) if (c.get("n") or "").endswith("::is_empty")]
        nt = [bb for bb, t, c in db.calls(sv) if (c.get("n") or "").endswith("Not>::not") or (c.get("dn") or "").endswith("Not::not")]
        th = [bb for bb, t, c in db.calls(sv) if (c.get("n") or "").endswith("bool::then_some")]
        ok = len(ie) == 1 and len(nt) == 1 and len(th) == 1
        if ok:
            a0 = nshow(expr_operand(sv, sv["blocks"][th[0]]["t"][2][0]))
            ok = "not(" in a0.replace("Not::not", "not").replace("Not>::not", "not") and "is_empty" in a0
        ctx.check("table:validate:some-iff-nonempty", ok, "sigrefs::validate returns Some(failures) exactly when validate_remote reported at least one", rules.where(sv), fn=sv)
        rn = [bb for bb, t, c in db.calls(sv) if re.search(r"storage::Remote.*::new$", c.get("n") or "")]
        ctx.check("flow:validate:remote", len(rn) == 1 and "arg2" in nshow(expr_operand(sv, sv["blocks"][rn[0]]["t"][2][0])),
                  "the Remote validated is built from the signed refs passed in", rules.where(sv), fn=sv)
    # typestate: SignedRefsAt.sigrefs : SignedRefs<Verified>; Remote<Verified>::new takes SignedRefs<Verified>
    adt = db.adt("radicle::storage::refs::SignedRefsAt")
    fty = None
    if adt:
        for v in adt.get("variants", []):
            for f_ in v.get("fields", []):
                if f_.get("n") == "sigrefs":
                    fty = f_.get("ty")
    ctx.check("type:SignedRefsAt.sigrefs", bool(fty) and "SignedRefs<" in fty and "Verified" in fty,
              "SignedRefsAt carries SignedRefs<Verified> (%s)" % fty, "", fn=None)
    from . import c20
    if hasattr(c20, "who_verified"):
        c20.who_verified(ctx)

    impls_all = [f for f in db.find(r"ValidateRepository>::validate_remote$")]
    impls = []
    for f in impls_all:
        # a pure delegator (`self.repo.validate_remote(remote)`) is checked through its delegate
        inner = [bb for bb, t, c in db.calls(f) if "validate_remote" in (c.get("dn") or "")]
        if inner and not rules.agg_sites(f, VAL) and len([1 for _ in db.calls(f)]) <= 2:
            ctx.held("sib:validate_remote:delegator:%s" % cfg.short(f["key"]), "delegates to the wrapped repository's validate_remote", rules.where(f), fn=f)
            continue
        impls.append(f)
    ctx.floor("sib:validate_remote", len(impls), 2, "implementations of ValidateRepository::validate_remote")
    for f in impls:
        tag = cfg.short(f["key"])
        kinds = set(k.get("var") for bb, j, k, ops in rules.agg_sites(f, VAL))
        ctx.check("sib:validate_remote:kinds:%s" % tag, kinds >= {"UnsignedRef", "MismatchedRef", "MissingRef", "MissingRadSigRefs"},
                  "validate_remote reports unsigned, mismatched, missing refs and missing sigrefs (%s)" % sorted(kinds), rules.where(f), fn=f)
        gf = graph(f)
        lh = [bb for bb, t, c in db.calls(f) if (c.get("dn") or "").endswith("Iterator::next") and "references_of" in nshow(expr_operand(f, t[2][0]))]
        rmv = [bb for bb, t, c in db.calls(f) if (c.get("n") or "").endswith("BTreeMap::remove") and _recv_is_signed_copy(f, t)]
        ctx.check("req:validate_remote:lookup:%s" % tag, len(rmv) == 1 and len(lh) == 1,
                  "each stored ref of the namespace is looked up (and consumed) in a copy of the signed refs", rules.where(f), fn=f)
        if len(lh) != 1 or len(rmv) != 1:
            continue
        first = lh[0]
        # UnsignedRef exactly where the name is not in the signed map; it must be recorded on every such path
        un = [bb for bb, j, k, ops in rules.agg_sites(f, VAL, "UnsignedRef")]
        none_edges = rules.edges_where(db, f, lambda x: x[0] == "variant" and x[4] and x[3] == "None" and "BTreeMap::remove" in nshow(x[1]))
        some_edges = rules.edges_where(db, f, lambda x: x[0] == "variant" and x[4] and x[3] == "Some" and "BTreeMap::remove" in nshow(x[1]))
        pushes = lambda var: [bb for bb in _push_blocks(db, f) if var in _pushed_variant(f, bb)]
        ok1 = bool(un) and bool(none_edges)
        for (b0, tb, lab) in none_edges:
            if first in gf.reach([tb], avoid_blocks=set(pushes("UnsignedRef"))):
                ok1 = False
        ctx.check("table:validate_remote:unsigned:%s" % tag, ok1,
                  "a stored ref that is not in the signed refs is always recorded as UnsignedRef", rules.where(f), fn=f)
        # the only skip: refname == SIGREFS_BRANCH
        def is_sigrefs_eq(x):
            s_ = nshow(x[1]) if x[0] == "bool" else ""
            return x[0] == "bool" and x[2] is True and "static:radicle::git::refs::storage::SIGREFS_BRANCH" in s_ and "::eq(" in s_ and "::next(" in s_
        skip = rules.edges_where(db, f, is_sigrefs_eq)
        # the signed copy is consulted only for refs that are *not* the signed-refs branch: if a signed-refs blob lists
        # `refs/rad/sigrefs` itself, that entry must stay in the copy and be reported as MissingRef — DataRefs::prepare_updates
        # would otherwise force-move the remote's rad/sigrefs to the listed (possibly older) commit with Policy::Allow

        def not_sigrefs(x):
            s_ = nshow(x[1]) if x[0] == "bool" else ""
            return x[0] == "bool" and x[2] is False and "static:radicle::git::refs::storage::SIGREFS_BRANCH" in s_ and "::eq(" in s_
        okn_, aln_, badn_ = rules.dom_check(db, f, rmv, not_sigrefs)
        ctx.check("dom:validate_remote:lookup-after-skip:%s" % tag, bool(okn_ and aln_),
                  "the signed entry is consumed only for refs other than the signed-refs branch (a listed `refs/rad/sigrefs` stays behind and is "
                  "reported missing instead of being force-applied)", rules.where(f, rmv[0]), detail={"path": list(badn_.values())[:1]}, fn=f)
        leak = _cycle_without(gf, first, set(rmv), [(a, b) for a, b, _ in skip])
        ctx.check("table:validate_remote:skip-only-sigrefs:%s" % tag, bool(skip) and not leak,
                  "the only stored ref not compared with the signed refs is the signed-refs branch itself", rules.where(f), fn=f)
        # signed and present: oids compared, and a difference is always recorded
        def differs(x):
            s_ = nshow(x[1]) if x[0] == "bool" else ""
            if x[0] != "bool" or "BTreeMap::remove" not in s_ or "::next(" not in s_:
                return False
            return ("::ne(" in s_ and x[2] is True) or ("::eq(" in s_ and x[2] is False)
        diff_edges = rules.edges_where(db, f, differs)
        cmpb = set(b0 for b0, tb, lab in diff_edges)
        okc = bool(diff_edges) and bool(some_edges)
        for (b0, tb, lab) in some_edges:
            if first in gf.reach([tb], avoid_blocks=cmpb):
                okc = False
        ctx.check("pass:validate_remote:compare:%s" % tag, okc, "a stored ref that is signed always has its oid compared with the signed oid", rules.where(f), fn=f)
        okm = bool(diff_edges)
        for (b0, tb, lab) in diff_edges:
            if first in gf.reach([tb], avoid_blocks=set(pushes("MismatchedRef"))):
                okm = False
        ctx.check("table:validate_remote:mismatch:%s" % tag, okm, "a stored oid that differs from the signed oid is always recorded as MismatchedRef", rules.where(f), fn=f)
        # leftover signed refs => MissingRef on every path where something is left
        rets = set(rules.ret_blocks(f))
        ms = pushes("MissingRef")
        left = rules.edges_where(db, f, lambda x: x[0] == "variant" and x[4] and x[3] == "Some" and ("IntoIter" in nshow(x[1]) or "into_iter" in nshow(x[1])) and "references_of" not in nshow(x[1]))
        okp_, nf_, badp = rules.pass_check(db, f, left, ms, rets)
        okl = bool(ms) and bool(left) and okp_
        ctx.check("req:validate_remote:missing:%s" % tag, okl, "signed refs left over after the scan are always reported as MissingRef", rules.where(f), fn=f)
        # the leftover check iterates the same map the loop consumed from
        mr = pushes("MissingRadSigRefs")
        # the "saw the signed-refs branch" flag: the bool local set to true on the skip path
        flags = set()
        for (a_, b_, _) in skip:
            for bb2 in gf.reach([b_], avoid_blocks=[first]):
                for st in f["blocks"][bb2]["s"]:
                    if st[0] == "=" and not st[1][1] and st[2][0] == "use" and st[2][1][0] == "k" and st[2][1][1].get("v") == "1" and \
                            f["locals"][st[1][0]][0] == "bool" and f["locals"][st[1][0]][1]:
                        flags.add(st[1][0])
        nos = rules.edges_where(db, f, lambda x: x[0] == "bool" and x[2] is False and x[1][0] == "phi" and x[1][1] in flags)
        okn = bool(mr) and bool(nos)
        for (b0, tb, lab) in nos:
            if gf.reach([tb], avoid_blocks=set(mr)) & rets:
                okn = False
        ctx.check("req:validate_remote:missing-sigrefs:%s" % tag, okn, "a namespace without a signed-refs reference is always reported", rules.where(f), fn=f)
        # what is returned is the accumulator the failures were pushed to
        okr = True
        nret = 0
        for bb, j, k, ops in rules.agg_sites(f, r"^core::result::Result$", "Ok"):
            if f["blocks"][bb]["s"][j][1][0] != 0:
                continue
            nret += 1
            r_ = flow.root_place(f, ops[0])
            # the returned value is the accumulator the failures were pushed to
            acc = set()
            for pb in _push_blocks(db, f):
                rp = flow.root_place(f, f["blocks"][pb]["t"][2][0])
                if rp is not None:
                    acc.add(rp[0])
            if r_ is None or r_[0] not in acc:
                okr = False
        ctx.check("flow:validate_remote:return:%s" % tag, okr and nret == 1, "the accumulated failures are what is returned", rules.where(f), fn=f)

    # ---------------------------------------------------------------- 5b. no sigrefs verification error is dropped
    # a remote whose signed refs cannot be loaded/verified must fail the step (or be pruned); silently leaving it out of
    # the set that the validation loop iterates keeps its already queued updates alive
    VER = r"^radicle_fetch::state::Cached::load$|^radicle::storage::refs::SignedRefsAt::(load|load_at)$|^radicle::storage::refs::SignedRefs::(verified|verify)$"
    nver = 0
    for f in db.all_fns():
        if f["crate"] != "radicle_fetch":
            continue
        for bb in rules.call_blocks(f, VER):
            t = f["blocks"][bb]["t"]
            if "Result<" not in f["locals"][t[3][0]][0]:
                continue
            nver += 1
            path = rules.err_dropped(db, f, bb)
            ctx.check("errflow:sigrefs:%s:%d" % (cfg.short(db.root_of(f)["key"]), sorted(rules.call_blocks(f, VER)).index(bb)), path is None,
                      "a failure to load/verify a remote's signed refs is propagated, not dropped (a dropped remote is never visited by the "
                      "validation loop, so its queued ref updates would be applied unvalidated)", rules.where(f, bb), detail={"path": path}, fn=f)
    ctx.floor("errflow:sigrefs", nver, 2, "call sites of the signed-refs loaders in radicle-fetch")

    # ---------------------------------------------------------------- 6. DataRefs::prepare_updates
    pu = db.one(r"^<radicle_fetch::stage::DataRefs as radicle_fetch::stage::ProtocolStage>::prepare_updates$")
    if pu is None:
        ctx.violated("anchor:prepare_updates", "DataRefs::prepare_updates not found")
        return
    UP = r"^radicle_fetch::git::refs::update::Update$"
    direct = rules.agg_sites(pu, UP, "Direct")
    prune_ = rules.agg_sites(pu, UP, "Prune")
    ctx.floor("prepare_updates:direct", len(direct), 1, "Update::Direct constructions")
    ctx.floor("prepare_updates:prune", len(prune_), 1, "Update::Prune constructions")
    for bb, j, k, ops in direct:
        names = k.get("fields") or []
        s_all = [nshow(expr_operand(pu, o)) for o in ops]
        tgt = s_all[1] if len(s_all) > 1 else ""
        nm = s_all[0] if s_all else ""
        # the signed-refs iterator: Refs::iter / BTreeMap::iter over `refs` (the SignedRefsAt of this remote)
        ok = "::next(" in tgt and "SignedRefsAt::iter(" in tgt and tgt.endswith(".1")
        ctx.check("flow:prepare_updates:target", ok, "the direct update's target is the oid listed in the signed refs (%s)" % tgt[:160], rules.where(pu, bb, j), fn=pu)
        clo = db.closures_of.get(pu["n"], [])
        ns_calls = [c.get("n") or "" for f_ in clo for _, _, c in db.calls(f_)]
        ok2 = ("::next(" in nm and "SignedRefsAt::iter(" in nm and "from_refstr(" in nm and
               any(x.endswith("ReceivedRefname::remote") for x in ns_calls) and any(x.endswith("to_namespaced") for x in ns_calls))
        ctx.check("flow:prepare_updates:name", ok2, "the direct update's name is the signed ref name placed in that remote's namespace (%s)" % nm[:160], rules.where(pu, bb, j), fn=pu)
    pb = [bb for bb, j, k, ops in prune_]
    ok, allow, bad = rules.dom_check(db, pu, pb, lambda x: x[0] == "bool" and x[2] is False and "HashSet::contains" in nshow(x[1]))
    ctx.check("dom:prepare_updates:prune:unsigned", bool(ok and allow), "a ref is scheduled for pruning only if it is not among the signed refs",
              rules.where(pu), detail={"path": list(bad.values())[:1]}, fn=pu)
    lh2 = [bb for bb, t, c in db.calls(pu) if (c.get("dn") or "").endswith("Iterator::next") and "references_of" in nshow(expr_operand(pu, t[2][0]))]
    ctx.floor("prepare_updates:prune-loop", len(lh2), 1, "loop over the stored refs of the remote")
    ok, deny, bad = rules.excl_check(db, pu, pb, lambda x: x[0] == "bool" and x[2] is True and "starts_with" in nshow(x[1]) and "refs/rad" in nshow(x[1]),
                                     reeval_blocks=set(lh2))
    ctx.check("excl:prepare_updates:prune:rad", bool(ok and deny), "refs under refs/rad are never scheduled for pruning",
              rules.where(pu), detail={"path": list(bad.values())[:1]}, fn=pu)
    # signed.insert for each direct update: the set consulted by the prune test holds every signed name
    si = [bb for bb, t, c in db.calls(pu) if (c.get("n") or "").endswith("HashSet::insert")]
    gp = graph(pu)
    okp = bool(si) and all(any(gp.dominates(s, bb) for s in si) for bb, j, k, ops in direct)
    ctx.check("pair:prepare_updates:signed-set", okp, "every signed ref name is recorded in the set that protects it from pruning", rules.where(pu), fn=pu)


def sigrefs_entry_rule(ctx):
    """Shared with C02 (no rewind of sigrefs): in every validate_remote implementation the signed copy is consulted only for
    refs other than the signed-refs branch itself."""
    db = ctx.db
    n = 0
    for f in db.find(r"ValidateRepository>::validate_remote$"):
        if not rules.agg_sites(f, VAL):
            continue
        rmv = [bb for bb, t, c in db.calls(f) if (c.get("n") or "").endswith("BTreeMap::remove") and _recv_is_signed_copy(f, t)]
        if not rmv:
            continue
        n += 1
        tag = cfg.short(f["key"])

        def not_sigrefs(x):
            s_ = nshow(x[1]) if x[0] == "bool" else ""
            return x[0] == "bool" and x[2] is False and "static:radicle::git::refs::storage::SIGREFS_BRANCH" in s_ and "::eq(" in s_
        ok, al, bad = rules.dom_check(db, f, rmv, not_sigrefs)
        ctx.check("dom:validate_remote:lookup-after-skip:%s" % tag, bool(ok and al),
                  "a signed-refs blob that lists `refs/rad/sigrefs` itself is reported (MissingRef) rather than accepted: the entry is consumed only "
                  "for refs other than the signed-refs branch — otherwise DataRefs::prepare_updates force-moves the remote's rad/sigrefs "
                  "(Policy::Allow) to the listed, possibly older, commit", rules.where(f, rmv[0]), detail={"path": list(bad.values())[:1]}, fn=f)
    ctx.floor("validate_remote:lookup", n, 2, "validate_remote implementations consulting the signed copy")


def _recv_is_signed_copy(fn, t):
    e = nshow(expr_operand(fn, t[2][0]))
    return "arg2" in e and "refs" in e and "clone" in e.lower()


def _push_blocks(db, fn):
    return [bb for bb, t, c in db.calls(fn) if (c.get("n") or "").endswith("Vec::push")]


def _pushed_variant(fn, bb):
    t = fn["blocks"][bb]["t"]
    return nshow(expr_operand(fn, t[2][1])) if len(t[2]) > 1 else ""


def _ord(lst, bb):
    return [x[0] for x in lst].index(bb)


def _reach_from_succ(g, fn, starts, avoid=(), avoid_edges=()):
    """Blocks reachable from the successors of `starts` (the starts themselves only if re-entered)."""
    ae = set(avoid_edges)
    nxt = [tb for s in starts for tb, lab in g.succ[s] if (s, tb) not in ae and tb not in avoid]
    return g.reach(nxt, avoid_blocks=set(avoid), avoid_edges=ae)


def _cycle_without(g, hdr, avoid_blocks, avoid_edges):
    """Is there a path hdr -> ... -> hdr that avoids avoid_blocks and avoid_edges?"""
    ae = set(avoid_edges)
    r = _reach_from_succ(g, g.fn, [hdr], avoid=set(avoid_blocks), avoid_edges=ae)
    return hdr in r


def update_order_rule(ctx):
    """The per-remote list of pending updates (`FetchState::tips`) is accumulated in stage order and applied to the real
    refdb in that order, so the update of a *later* stage — the data refs derived from the verified signed refs — is what
    a reference ends up pointing at.  The list may therefore only grow at its end."""
    db = ctx.db
    ua = db.one(r"^radicle_fetch::state::FetchState::update_all$")
    if ua is None:
        ctx.violated("anchor:update_all", "FetchState::update_all not found (anchor missing)")
        return
    GROW = re.compile(r"^alloc::vec::Vec::(append|push|extend|extend_from_slice|extend_from_within)$|Extend<.*>::extend$")
    ent = [(bb, t) for bb, t, c in db.calls(ua) if (c.get("n") or "").endswith("BTreeMap::entry") and "tips" in nshow(expr_operand(ua, t[2][0]))]
    mods = [(bb, t) for bb, t, c in db.calls(ua) if re.search(r"Entry::(and_modify)$", c.get("n") or "")]
    if not ent or not mods:
        ctx.ob("order:update_all:append", "inconclusive", "the accumulation of FetchState::tips is not written as entry(..).and_modify(..) any more", rules.where(ua), fn=ua)
        return
    ok = True
    why = []
    n = 0
    for bb, t in mods:
        clo = peel(expr_operand(ua, t[2][1]))
        if not (clo[0] == "agg" and isinstance(clo[1], dict) and clo[1].get("closure")):
            ok = False
            why.append("and_modify argument is not a closure")
            continue
        for cf in flow.closure_family(db, ua, clo[1]["closure"]):
            for b2, t2, c2 in db.calls(cf):
                nm = c2.get("n") or c2.get("dn") or ""
                n += 1
                recv = nshow(peel(expr_operand(cf, t2[2][0]))) if t2[2] else ""
                if GROW.search(nm) and re.match(r"^\*?arg2$", recv):
                    continue
                ok = False
                why.append("%s on %s" % (cfg.short(nm), recv))
    ctx.check("order:update_all:append", ok and n >= 1,
              "updates of a later fetch stage are appended after those of earlier stages for the same remote (the list only grows at its end); "
              "otherwise the advertised, unverified tip recorded by an earlier stage is written last and overrides the signed one%s" % (
                  (": " + "; ".join(why[:3])) if why else ""), rules.where(ua, mods[0][0]), fn=ua)
