"""C03 — canonical branch head is backed by the delegate threshold (partial: structural clauses only).

Decided (structural, Canonical::quorum): (KEYS) every candidate is one of the delegates' tips — a vote is
recorded only under a tip taken from `self.tips`, or under a merge base that a branch has just established
to be equal to one of the two tips compared; (GATE) only candidates whose vote count passed
`votes >= self.threshold` (the `retain` closure) can be returned, and that filter runs before a head is
chosen; (NONE) when no candidate is left the result is the NoCandidates error; (ADVANCE) the running head
is replaced only by a candidate whose merge base with it *is* the running head (a descendant); (DIVERGE) a
candidate that is neither ancestor, descendant nor equal makes the result the Diverging error; (RET) the
value returned is the running head; (COMPLETE) every candidate that passed the threshold is compared with the
running head (no iteration of the selection loop skips the merge-base comparison); (THRESHOLD) `Canonical.threshold` is
only ever the threshold argument given where the `Canonical` is built.
Not decided: the vote arithmetic itself — that a candidate's count equals the number of *distinct*
delegates whose tip is the candidate or a descendant of it.  (While reading I observed that a tip shared
by n delegates with m descendant tips receives n + n*m votes; no rule of this family states that, and it
is not claimed here.)"""
import re

from .. import cfg, rules, flow
from ..cfg import expr_operand, nshow, peel, graph, walk

Q = r"^radicle::git::canonical::Canonical::quorum$"
# an element taken from the candidate map: the first one, or the item of a loop over its keys / entries
CAND_LOOP_ITEM = r"Keys|keys\(|btree::map::Iter<|BTreeMap::iter\(|btree::map::IntoIter|BTreeMap::into_keys\("
CAND_ITEM = r"pop_first|first_key_value|" + CAND_LOOP_ITEM


def run(ctx):
    db = ctx.db
    ctx.explanation = (
        "Decides structural clauses of Canonical::quorum: candidates are tips; the threshold filter precedes the choice of a "
        "head and is `votes >= threshold`; empty => NoCandidates; the head only advances to descendants; divergence => error; "
        "the running head is what is returned.  The vote arithmetic (distinct supporters) is not decided.")
    ctx.not_decided = ("that a candidate's vote count equals the number of distinct delegates supporting it (known imprecision: shared tips "
                       "with descendant tips are over-counted); merge-base results are runtime data")
    ctx.rule_text = "FLOW(candidate keys) + DOM(threshold filter) + table of the head-selection loop"
    fn = db.one(Q)
    if fn is None:
        ctx.violated("anchor:quorum", "Canonical::quorum not found (anchor missing)")
        return
    g = graph(fn)
    # ---- KEYS: entries are created under tips or under a base proven equal to a tip
    entries = [(bb, t) for bb, t, c in db.calls(fn) if (c.get("n") or "").endswith("BTreeMap::entry")]
    ctx.floor("quorum:entries", len(entries), 2, "vote-recording sites (candidates.entry(..))")
    for i, (bb, t) in enumerate(entries):
        k = peel(expr_operand(fn, t[2][1]))
        s = nshow(k)
        if ".tips" in s and "merge_base" not in s:
            ctx.held("keys:entry:%d" % i, "a vote is recorded under a delegate's tip", rules.where(fn, bb), fn=fn)
            continue
        # a merge base: must be dominated by base == head / base == other

        def base_is_tip(f):
            if f[0] != "bool" or f[2] is not True:
                return False
            e = peel(f[1])
            if not (e[0] == "call" and (e[1].get("dn") or "").endswith("PartialEq::eq") and len(e[2]) == 2):
                return False
            a, b = nshow(e[2][0]), nshow(e[2][1])
            return ("merge_base" in a and ".tips" in b and "merge_base" not in b) or ("merge_base" in b and ".tips" in a and "merge_base" not in a)
        ok, al, bad = rules.dom_check(db, fn, [bb], base_is_tip)
        ctx.check("keys:entry:%d" % i, "merge_base" in s and bool(ok and al),
                  "a vote is recorded under a merge base only after it was found equal to one of the two tips compared (so every candidate is a tip)",
                  rules.where(fn, bb), detail={"path": list(bad.values())[:1]}, fn=fn)
    # increments are by one
    incs = []
    for b in fn["blocks"]:
        if b.get("c"):
            continue
        for st in b["s"]:
            if st[0] == "=" and st[2][0] == "bin" and st[2][1].startswith("Add") and st[2][3][0] == "k" and st[2][2][0] in ("c", "m"):
                ds = g.defs().get(st[2][2][1][0], [])
                if any(d[0] == "call" and (d[2][1].get("n") or "").endswith("Entry::or_default") for d in ds):
                    incs.append(st[2][3][1].get("v"))
    ctx.check("keys:increment", bool(incs) and all(v == "1" for v in incs), "each recorded vote adds exactly one (%s)" % incs, rules.where(fn), fn=fn)

    # ---- GATE: retain(votes >= threshold) before the head is chosen
    ret = [(bb, t) for bb, t, c in db.calls(fn) if (c.get("n") or "").endswith("BTreeMap::retain")]
    pop = [bb for bb, t, c in db.calls(fn) if re.search(r"BTreeMap::(pop_first|first_key_value|pop_last|keys|into_keys|iter|into_iter)$", c.get("n") or "")]
    okg = False
    for bb, t in ret:
        clo = peel(expr_operand(fn, t[2][1]))
        if clo[0] == "agg" and isinstance(clo[1], dict) and clo[1].get("closure"):
            for cf in flow.closure_family(db, fn, clo[1]["closure"]):
                for b2, kind, val in rules.ret_defs(cf):
                    if kind == "expr" and val[0] == "bin" and val[1] == "Ge":
                        l, r = nshow(val[2]), nshow(val[3])
                        up = flow.upvar_source(db, cf, 0)
                        okg = re.search(r"arg[23]$", l) is not None and "arg1" in r and up is not None and nshow(up[1]).endswith(".threshold")
                    elif kind == "expr" and val[0] == "bin" and val[1] == "Le":
                        l, r = nshow(val[2]), nshow(val[3])
                        up = flow.upvar_source(db, cf, 0)
                        okg = "arg1" in l and re.search(r"arg[23]$", r) is not None and up is not None and nshow(up[1]).endswith(".threshold")
    ctx.check("gate:retain", okg and len(ret) == 1, "candidates are filtered with `votes >= self.threshold`", rules.where(fn, ret[0][0] if ret else None), fn=fn)
    if ret:
        rb = ret[0][0]
        later = [p for p in pop if not g.dominates(rb, p)]
        ctx.check("gate:before-choice", bool(pop) and not later, "the threshold filter runs before any candidate is taken as the head",
                  rules.where(fn, rb), fn=fn)
    # ---- NONE / RET
    oks = [(bb, j, ops) for bb, j, k, ops in rules.agg_sites(fn, r"^core::result::Result$", "Ok") if fn["blocks"][bb]["s"][j][1][0] == 0]
    ctx.floor("quorum:ok", len(oks), 1, "Ok exits of quorum")
    pf = rules.call_blocks(fn, r"BTreeMap::pop_first$")
    for bb, j, ops in oks:
        ok, al, bad = rules.dom_check(db, fn, [bb], lambda f: f[0] == "variant" and f[4] and f[3] == "Some" and "pop_first" in nshow(f[1]))
        ctx.check("none:ok-needs-candidate", bool(ok and al), "a head is returned only if at least one candidate passed the threshold",
                  rules.where(fn, bb), detail={"path": list(bad.values())[:1]}, fn=fn)
        r_ = flow.root_place(fn, ops[0])
        # the returned value is the running head: a local assigned from pop_first's key or from the candidate keys
        src = set()
        if r_ is not None:
            for d in g.defs().get(r_[0], []):
                if d[0] == "stmt":
                    src.add(nshow(cfg.expr_rvalue(fn, d[3]))[:200])
        okr = bool(src) and all(re.search(CAND_ITEM, x) for x in src)
        ctx.check("ret:running-head", okr, "the head returned is the running candidate (first eligible candidate, advanced over the other eligible ones)",
                  rules.where(fn, bb), detail=sorted(src)[:3], fn=fn)
    nc = [bb for bb, j, k, ops in rules.agg_sites(fn, r"canonical::QuorumError$", "NoCandidates")]
    ctx.check("none:error", bool(nc) and bool(pf), "an empty candidate set yields the NoCandidates error", rules.where(fn, nc[0] if nc else None), fn=fn)
    # ---- ADVANCE / DIVERGE
    run_local = None
    for bb, j, ops in oks:
        r_ = flow.root_place(fn, ops[0])
        run_local = r_[0] if r_ else None
    adv = []
    if run_local is not None:
        for d in g.defs().get(run_local, []):
            if d[0] == "stmt" and re.search(CAND_LOOP_ITEM, nshow(cfg.expr_rvalue(fn, d[3]))):
                adv.append(d[1])

    def base_is_running(f):
        if f[0] != "bool" or f[2] is not True:
            return False
        e = peel(f[1])
        if not (e[0] == "call" and (e[1].get("dn") or "").endswith("PartialEq::eq") and len(e[2]) == 2):
            return False
        a, b = peel(e[2][0]), peel(e[2][1])
        sa, sb = nshow(a), nshow(b)
        one_base = ("merge_base" in sa) != ("merge_base" in sb)
        other = b if "merge_base" in sa else a
        r2 = other
        while r2[0] in ("ref", "deref", "call") and r2[0] != "phi":
            if r2[0] == "call":
                if (r2[1].get("dn") or "") in cfg.TRANSPARENT and r2[2]:
                    r2 = peel(r2[2][0])
                    continue
                break
            r2 = peel(r2[1])
        return one_base and r2[0] == "phi" and r2[1] == run_local
    ctx.floor("advance:sites", len(adv), 1, "places where the running head advances to another candidate")
    ok, al, bad = rules.dom_check(db, fn, adv, base_is_running)
    ctx.check("advance:descendant", bool(ok and al and adv), "the running head advances only to a candidate whose merge base with it is the running head (a descendant)",
              rules.where(fn, adv[0] if adv else None), detail={"path": list(bad.values())[:1]}, fn=fn)
    dv = [bb for bb, j, k, ops in rules.agg_sites(fn, r"canonical::QuorumError$", "Diverging")]
    okd = False
    for bb in dv:
        # reached only when neither base == running nor base == candidate / candidate == running held
        reach = g.reach([bb])
        okd = any(r in reach for r in rules.ret_blocks(fn)) and not any(o[0] in reach for o in oks)
    ctx.check("diverge:error", bool(dv) and okd, "a candidate that is neither an ancestor nor a descendant of the running head ends in the Diverging error, never in a head",
              rules.where(fn, dv[0] if dv else None), fn=fn)
    # the divergence arm is the fall-through of the two equality tests: no path from the loop's merge_base to the next iteration skips all three arms
    mb = [bb for bb, t, c in db.calls(fn) if (c.get("n") or "").endswith("Repository::merge_base")]
    ctx.floor("quorum:merge_base", len(mb), 2, "merge_base computations (vote counting, head selection)")
    # every remaining candidate is classified: no iteration of the selection loop goes back to the loop header without the
    # merge-base comparison with the running head (a candidate that is skipped can neither advance the head nor make the
    # result Diverging)
    sel = [bb for bb in mb if adv and any(g.dominates(bb, a) for a in adv)]
    hdr = [bb for bb, t, c in db.calls(fn) if re.search(r"Iterator>?::next$", c.get("n") or "") and sel and any(bb in g.reach([x]) and x in g.reach([bb]) for x in sel)]
    if not sel or len(hdr) != 1:
        ctx.ob("classify:complete", "inconclusive", "the head-selection loop was not recognised (%d merge_base in it, %d loop headers)" % (len(sel), len(hdr)), rules.where(fn), fn=fn)
    else:
        some = rules.edges_where(db, fn, lambda f: f[0] == "variant" and f[4] and f[3] == "Some" and "::next(" in nshow(f[1]))
        some = [e for e in some if e[0] in g.reach([hdr[0]]) and hdr[0] in g.reach([e[0]])]
        ok, nfeas, bad = rules.pass_check(db, fn, some, sel, hdr)
        ctx.check("classify:complete", ok and nfeas >= 1,
                  "every candidate that passed the threshold is compared with the running head (none is skipped): a skipped candidate that diverges "
                  "from the head is not reported as Diverging", rules.where(fn, sel[0]), detail={"path": bad[:1]}, fn=fn)
    threshold_source(ctx)


def threshold_source(ctx):
    """The threshold the vote filter compares with is the identity document's: `Canonical.threshold` is set where the
    `Canonical` is built, from the threshold argument, and nowhere else (lowering it afterwards — e.g. to the number of
    tips found — returns a head that fewer than `threshold` delegates back)."""
    db = ctx.db
    sites = []
    for f in db.all_fns():
        if f["crate"] != "radicle":
            continue
        for bb, j, s_ in rules.field_writes(f, "threshold", r"git::canonical::Canonical$"):
            sites.append((f, bb, j, "assignment"))
        for bb, j, k, ops in rules.agg_sites(f, r"^radicle::git::canonical::Canonical$"):
            flds = k.get("fields") or []
            src = ""
            for i, o in enumerate(ops):
                if i < len(flds) and flds[i] == "threshold":
                    src = nshow(peel(expr_operand(f, o)))
            sites.append((f, bb, j, "built with threshold = %s" % src))
    ctx.floor("who:Canonical.threshold", len(sites), 1, "places where Canonical.threshold is set")
    for f, bb, j, what in sites:
        rk = db.root_of(f)["key"]
        ok = what.startswith("built") and re.search(r"^arg\d+$", what.rsplit("= ", 1)[-1]) is not None
        ctx.check("who:Canonical.threshold:%s" % cfg.short(rk), ok,
                  "Canonical.threshold is only ever the threshold argument given when the Canonical is built (%s in %s)" % (what, cfg.short(rk)),
                  rules.where(f, bb, j), fn=f)
