"""C16 — at most one fetch per repository, attributed to the right peer (partial).

Decided (structural): Io::Fetch is issued only by Service::try_fetch, only behind a
vacant entry in the per-repository fetch table, a connected session and spare
per-peer capacity, and together with the insertion of the table entry; who may
mutate the fetch table; in Service::fetched every effect of a worker result is
dominated by a branch establishing that the result comes from the peer the
in-flight fetch was started with (an assertion is not a guard); the fetch queue
push is bounded; the capacity predicate's table. 
Service::disconnected drops a peer's fetch-table entries only on paths that also
tear the session down. A session re-used for an inbound connection takes that connection's link on every path
(disconnected's stale-event test compares links). The rules follow helper functions (a helper that drops the entries is
treated as the drop at its call site).
Not decided: the interleaving invariants themselves (Service.fetching versus
Session.fetching consistency across events)."""
import re

from .. import cfg, rules, flow
from ..cfg import expr_operand, show, nshow, walk, peel, peel_calls, base_value, graph

TF = r"^radicle_node::service::Service::try_fetch$"
OF = r"^radicle_node::service::io::Outbox::fetch$"


def fetch_drop_sites(db, fn, depth=2):
    """[(block of fn, function holding the retain, block of the retain)]: where fn drops entries of Service.fetching,
    directly, through a helper method of Service, or through a helper that is handed `&mut self.fetching`."""
    out = []
    for bb, callee in rules.field_mut_calls(fn, "fetching", r"service::Service<"):
        if (callee or "").endswith("HashMap::retain"):
            out.append((bb, fn, bb))
        elif callee and depth > 0:
            h = db.one("^" + re.escape(callee) + "$")
            if h is not None and h is not fn:
                for b2, t2, c2 in db.calls(h):
                    if (c2.get("n") or "").endswith("HashMap::retain") and t2[2] and re.match(r"^arg\d+$", nshow(peel(expr_operand(h, t2[2][0])))):
                        out.append((bb, h, b2))
    if depth > 0:
        for bb, t, c in db.calls(fn):
            n = c.get("n") or ""
            if re.match(r"^radicle_node::service::Service::\w+$", n) and t[2] and nshow(peel(expr_operand(fn, t[2][0]))) == "arg1":
                callee = db.one("^" + re.escape(n) + "$")
                if callee is not None and callee is not fn:
                    for _, rf, rb in fetch_drop_sites(db, callee, depth - 1):
                        out.append((bb, rf, rb))
    return out


def run(ctx):
    _run(ctx)
    link_rule(ctx)


def _run(ctx):
    db = ctx.db
    ctx.explanation = (
        "Decides the structural clause: who may issue a fetch and under which dominating checks (vacant table entry, "
        "connected session, capacity), pairing with the table insertion, who may mutate Service.fetching, attribution of "
        "worker results in Service::fetched by a real branch on `from == remote`, bounded queue push, capacity table. "
        "The cross-event consistency invariants are not decided.")
    ctx.not_decided = "interleaving invariants (Service.fetching vs Session.fetching), late results after reconnect beyond the attribution branch"
    ctx.rule_text = "WHO + DOM + EXCL + PAIR + TYPE + TABLE"
    tf = db.one(TF)
    if tf is None:
        ctx.violated("anchor:try_fetch", "Service::try_fetch not found (anchor missing)")
        return
    sites = [(fn, bb, None) for fn, bb in db.call_sites(OF)]
    rules.who(ctx, "who:Outbox::fetch", "call of Outbox::fetch", sites, [TF])
    ctx.floor("who:Outbox::fetch", len(sites), 1, "Outbox::fetch call sites")
    # Io::Fetch aggregate only inside Outbox::fetch
    aggs = []
    for fn in db.all_fns():
        if fn["unit"] != "radicle_node.rlib":
            continue
        for bb, j, k, ops in rules.agg_sites(fn, r"^radicle_node::service::io::Io$", "Fetch"):
            aggs.append((fn, bb, j))
    rules.who(ctx, "who:Io::Fetch", "construction of Io::Fetch", aggs, [OF])
    ctx.floor("who:Io::Fetch", len(aggs), 1, "Io::Fetch constructions")

    eff = rules.call_blocks(tf, OF)

    def vacant(f):
        return f[0] == "variant" and f[4] and f[3] == "Vacant" and \
            cfg.callee_is(base_value(f[1]), re.compile(r"HashMap::entry$"))
    ok, a, bad = rules.dom_check(db, tf, eff, vacant)
    ctx.check("dom:fetch:vacant", bool(ok and a and eff), "a fetch is issued only if the fetch table has no entry for the repository",
              rules.where(tf, eff[0] if eff else None), detail={"path": list(bad.values())[:1]}, fn=tf)
    ok, a, bad = rules.dom_check(db, tf, eff, rules.is_bool(r"^radicle_node::service::session::Session::is_connected$", True))
    ctx.check("dom:fetch:connected", bool(ok and a), "a fetch is issued only on a connected session",
              rules.where(tf, eff[0] if eff else None), detail={"path": list(bad.values())[:1]}, fn=tf)
    ok, a, bad = rules.dom_check(db, tf, eff, rules.is_bool(r"^radicle_node::service::session::Session::is_at_capacity$", False))
    ctx.check("dom:fetch:capacity", bool(ok and a), "a fetch is issued only if the session is below its fetch concurrency limit",
              rules.where(tf, eff[0] if eff else None), detail={"path": list(bad.values())[:1]}, fn=tf)
    g = graph(tf)
    ins = rules.call_blocks(tf, r"hash::map::VacantEntry.*::insert$|VacantEntry::insert$")
    ctx.check("pair:fetch:insert", bool(ins) and all(any(g.dominates(i, e) for i in ins) for e in eff),
              "issuing a fetch is always preceded by inserting the fetch-table entry", rules.where(tf, eff[0] if eff else None), fn=tf)
    # same rid / same session
    for bb in eff:
        t = tf["blocks"][bb]["t"]
        rid = nshow(peel_calls(expr_operand(tf, t[2][2])))
        sess = nshow(base_value(expr_operand(tf, t[2][1])))
        keys = [nshow(peel_calls(expr_operand(tf, tf["blocks"][b2]["t"][2][1]))) for b2 in rules.call_blocks(tf, r"HashMap::entry$")]
        ctx.check("flow:fetch:rid", keys == [rid], "the table entry tested is for the repository being fetched (%s / %s)" % (keys, rid),
                  rules.where(tf, bb), fn=tf)
        ctx.check("flow:fetch:session", "get_mut" in sess and "arg3" in sess, "the session used is the one of the peer fetched from (%s)" % sess[:100],
                  rules.where(tf, bb), fn=tf)
        for b2 in rules.call_blocks(tf, r"Session::(is_connected|is_at_capacity)$"):
            s2 = nshow(base_value(expr_operand(tf, tf["blocks"][b2]["t"][2][0])))
            ctx.check("flow:fetch:checked-session:%d" % b2, s2 == sess, "connection/capacity are checked on that same session", rules.where(tf, b2), fn=tf)
    for bb, j, k, ops in rules.agg_sites(tf, r"^radicle_node::service::FetchState$"):
        fr = nshow(peel_calls(expr_operand(tf, ops[k["fields"].index("from")])))
        ctx.check("flow:fetch:from", fr == "arg3", "the table entry records the peer the fetch is issued to (%s)" % fr, rules.where(tf, bb, j), fn=tf)

    # 2. type + who mutates the table
    adt = db.adts.get("radicle_node::service::Service")
    fty = [f["ty"] for f in adt["variants"][0]["fields"] if f["n"] == "fetching"] if adt else []
    ctx.check("type:Service.fetching", bool(fty) and fty[0].startswith("std::collections::hash::map::HashMap<radicle::identity::doc::id::RepoId, radicle_node::service::FetchState"),
              "Service.fetching is a map keyed by repository id (one in-flight fetch per repository by construction): %s" % fty,
              "%s:%s" % (adt["file"], adt["line"]) if adt else "")
    muts = []
    for fn in db.all_fns():
        if fn["unit"] != "radicle_node.rlib":
            continue
        for bb, callee in rules.field_mut_calls(fn, "fetching", r"service::Service<"):
            muts.append((fn, bb, None))
        for bb, idx, s in rules.field_writes(fn, "fetching", r"service::Service<"):
            muts.append((fn, bb, idx))
    rules.who_inherit(ctx, "who:Service.fetching", "mutation of Service.fetching", muts,
              [TF, r"^radicle_node::service::Service::fetched$", r"^radicle_node::service::Service::disconnected$",
               r"^radicle_node::service::Service::new$"], db=db)
    ctx.floor("who:Service.fetching", len(muts), 2, "mutating uses of Service.fetching (entry, remove, retain)")

    # 3. attribution in Service::fetched
    fd = db.one(r"^radicle_node::service::Service::fetched$")
    if fd is None:
        ctx.violated("anchor:fetched", "Service::fetched not found")
    else:
        rm = rules.call_blocks(fd, r"HashMap::remove$")
        effects = []
        for bb, t, c in db.calls(fd):
            n = c.get("n") or ""
            if re.search(r"Session::fetched$|Sender.*::send$|Service::(dequeue_fetches|seed_discovered|add_inventory|announce_refs)$|Emitter.*::emit$|Outbox::disconnect$", n):
                effects.append(bb)
        ctx.floor("fetched:effects", len(effects), 2, "effects of a worker result in Service::fetched")

        def same_peer(f):
            if f[0] != "cmp" or f[1] != "Eq":
                return False
            s = nshow(peel_calls(f[2])) + "|" + nshow(peel_calls(f[3]))
            return ".from" in s and "arg3" in s
        ok, a, bad = rules.dom_check(db, fd, effects, same_peer)
        ctx.check("dom:fetched:attribution", bool(ok and a),
                  "a worker result takes effect only behind a branch establishing that the in-flight fetch was started with that peer (`fetching.from == remote`); an assertion is not a guard",
                  rules.where(fd, (list(bad.keys()) or effects or [None])[0]), detail={"path": list(bad.values())[:1]}, fn=fd)
        if rm:
            key = nshow(peel_calls(expr_operand(fd, fd["blocks"][rm[0]]["t"][2][1])))
            ctx.check("flow:fetched:rid", key == "arg2", "the entry consumed is the one of the reported repository", rules.where(fd, rm[0]), fn=fd)

    # disconnected: only fetches of that peer are dropped
    dc = db.one(r"^radicle_node::service::Service::disconnected$")
    if dc is None:
        ctx.violated("anchor:disconnected", "Service::disconnected not found")
    else:
        # the places where `disconnected` drops fetch-table entries: a retain on Service.fetching in the function itself, or a
        # call of a helper (method of Service) that does it
        drops = fetch_drop_sites(db, dc)
        okr = False
        for site_bb, rf, rb in drops:
            t = rf["blocks"][rb]["t"]
            if len(t[2]) > 1:
                clo = peel(expr_operand(rf, t[2][1]))
                if clo[0] == "agg" and isinstance(clo[1], dict) and clo[1].get("closure"):
                    for f in flow.closure_family(db, rf, clo[1]["closure"]):
                        # `true` (keep) is returned when fetching.from != remote
                        for b2, k, v in rules.ret_defs(f):
                            if k == "const" and v == 1:
                                ok2, al, bad = rules.dom_check(db, f, [b2], lambda ft: ft[0] == "cmp" and ft[1] == "Ne" and ".from" in nshow(ft[2]) + nshow(ft[3]))
                                okr = okr or (ok2 and bool(al))
        ctx.check("table:disconnected:retain", okr, "on disconnect exactly the fetches started with that peer are dropped (kept iff from != remote)",
                  rules.where(dc), fn=dc)

        # dropping the fetch table entries of a peer goes together with tearing its session down: the per-session set of
        # in-flight fetches (Session.fetching) is only reset by to_disconnected()/removal, so dropping the table entries
        # while the session stays connected lets a second fetch of the same repository start
        g = graph(dc)
        ret = sorted(set(site_bb for site_bb, rf, rb in drops))
        down = rules.call_blocks(dc, r"session::Session::to_disconnected$") + \
            [bb for bb, t, c in db.calls(dc) if re.search(r"(HashMap|AddressBook|BTreeMap)::remove$", c.get("n") or "") and
             "sessions" in nshow(expr_operand(dc, t[2][0]))]
        ctx.floor("disconnected:teardown", len(down), 2, "session teardown sites in Service::disconnected (to_disconnected, sessions.remove)")
        leak = None
        for rb in ret:
            blocks = g.reach_k([(rb, frozenset())], avoid_blocks=down)
            for r_ in rules.ret_blocks(dc):
                if r_ in blocks:
                    leak = g.path_k(blocks, r_)
            pre = g.reach([0], avoid_blocks=down)
            if rb not in pre:
                leak = None   # teardown already happened before the retain
        okd, ad, badd = rules.dom_check(db, dc, ret, lambda ft: ft[0] == "cmp" and ft[1] == "Eq" and ".link" in nshow(ft[2]) + nshow(ft[3]))
        ctx.check("pair:disconnected:retain-teardown", bool(ret) and leak is None,
                  "in-flight fetches of a peer are dropped only on paths that also tear the session down (same link); otherwise the service "
                  "forgets a fetch its session still counts", rules.where(dc, ret[0] if ret else None), detail={"path": leak}, fn=dc)

    # 4. queue bound and capacity table
    qf = db.one(r"^radicle_node::service::session::Session::queue_fetch$")
    if qf is None:
        ctx.violated("anchor:queue_fetch", "Session::queue_fetch not found")
    else:
        pb = rules.call_blocks(qf, r"VecDeque.*::push_back$")

        def below(f):
            if f[0] != "cmp" or f[1] != "Lt":
                return False
            l = peel(f[2])
            r = peel(f[3])
            return cfg.callee_is(l, re.compile(r"VecDeque.*::len$")) and r[0] == "const" and r[1].get("cn", "").endswith("MAX_FETCH_QUEUE_SIZE")
        ok, a, bad = rules.dom_check(db, qf, pb, below)
        ctx.check("dom:queue_fetch:bound", bool(ok and a and pb), "a fetch is queued only while the queue is below MAX_FETCH_QUEUE_SIZE",
                  rules.where(qf, pb[0] if pb else None), detail={"path": list(bad.values())[:1]}, fn=qf)
        allq = [(fn, bb, None) for fn in db.all_fns() if fn["unit"] == "radicle_node.rlib"
                for bb, callee in rules.field_mut_calls(fn, "queue", r"session::Session")
                if re.search(r"push|insert|extend|append", callee)]
        rules.who(ctx, "who:Session.queue:grow", "growth of Session.queue", allq, [r"^radicle_node::service::session::Session::queue_fetch$"])
    cap = db.one(r"^radicle_node::service::session::Session::is_at_capacity$")
    if cap is None:
        ctx.violated("anchor:is_at_capacity", "Session::is_at_capacity not found")
    else:
        # `false` is returned only when not connected or len < limit
        okc = True
        n = 0
        for bb, k, v in rules.ret_defs(cap):
            n += 1
            if k == "const" and v == 0:
                def lt(f):
                    if f[0] == "cmp" and f[1] == "Lt":
                        return "len" in nshow(f[2]) and "fetch_concurrency" in nshow(f[3])
                    if f[0] == "variant" and ((f[4] and f[3] != "Connected") or (not f[4] and f[3] == "Connected")):
                        return True
                    return False
                ok2, al, bad = rules.dom_check(db, cap, [bb], lt)
                okc = okc and ok2 and bool(al)
            elif k != "const":
                okc = False
        ctx.check("table:is_at_capacity", okc and n >= 2, "is_at_capacity() is false only when disconnected or fetching.len() < limits.fetch_concurrency",
                  rules.where(cap), fn=cap)
    # Session::fetching assertions rely on the cross-event invariant
    sf = db.one(r"^radicle_node::service::session::Session::fetching$")
    if sf is not None:
        ctx.ob("assumed:Session::fetching", "assumed",
               "Session::fetching asserts the repository is not already being fetched on this session: relies on the "
               "Service.fetching/Session.fetching consistency invariant across events (not decided); its `disconnected` panic is "
               "excluded by dom:fetch:connected", rules.where(sf), fn=sf)


def link_rule(ctx):
    """`Service::disconnected` ignores an event whose link differs from the session's (`session.link != link`): that is
    its only protection against the late disconnect of a connection that was replaced.  It works only if the session's link
    is the link of the *live* connection: when a peer connects inbound onto an existing session, the session is switched
    to that link, on every path."""
    db = ctx.db
    fn = db.one(r"^radicle_node::service::Service::connected$")
    if fn is None:
        ctx.violated("anchor:connected", "Service::connected not found (anchor missing)")
        return
    tc = [bb for bb, t, c in db.calls(fn) if (c.get("n") or "").endswith("session::Session::to_connected")]
    w = [bb for bb, j, s in rules.field_writes(fn, "link", r"session::Session")]
    ctx.floor("connected:to_connected", len(tc), 1, "re-use of an existing session in Service::connected")
    ok, deny, bad = rules.excl_check(db, fn, tc, rules.is_bool(r"(Link|Direction)::is_outbound$", False), reeval_blocks=w)
    if not deny:
        ctx.ob("pair:connected:link", "inconclusive", "the inbound/outbound distinction in Service::connected was not recognised", rules.where(fn), fn=fn)
        return
    ctx.check("pair:connected:link", bool(ok and w),
              "an existing session that is re-used for an inbound connection is switched to the new connection's link on every path; otherwise the "
              "late disconnect event of the replaced connection (same link as the stale session) tears the live session and its in-flight fetches down",
              rules.where(fn, w[0] if w else None), detail={"path": list(bad.values())[:1]}, fn=fn)
