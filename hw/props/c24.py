"""C24 — node databases behave like their simple models (partial: SQL shape).

Decided: every timestamped upsert of the routing / sync-status / refs / gossip
stores is guarded `WHERE timestamp < ?k` (strict, ?k the placeholder assigned to
timestamp) and binds ?k to the function's timestamp argument; sync status and refs
additionally require a changed value; routing prune spares the `ignore` node;
policy upserts write the new value unconditionally or when different (last write
wins); the strict guard is required of every statement that writes the timestamp of one
of these tables, wherever it is prepared.  Not decided: step-by-step equivalence with an in-memory model."""
import re

from .. import cfg, rules, sql, flow
from ..cfg import show, peel, peel_calls, base_value

# (function regex, table, value-change column or None)
MONOTONE = [
    (r"^<radicle::node::db::Database as radicle::node::routing::Store>::add_inventory", "routing", None),
    (r"^<radicle::node::db::Database as radicle::node::seed::store::Store>::synced$", "repo-sync-status", "head"),
    (r"^<radicle::node::db::Database as radicle::node::refs::store::Store>::set$", "refs", "oid"),
    (r"^<radicle::node::db::Database as radicle_node::service::gossip::store::Store>::announced$", "announcements", None),
]
POLICY = [
    (r"^radicle::node::policy::store::Store::follow$", "following", "alias"),
    (r"^radicle::node::policy::store::Store::seed$", "seeding", "scope"),
    (r"^radicle::node::policy::store::Store::set_follow_policy$", "following", "policy"),
    (r"^radicle::node::policy::store::Store::set_seed_policy$", "seeding", "policy"),
]


def upserts_of(db, fpat):
    out = []
    for fn in db.find(fpat):
        for bb, t, c in db.calls(fn):
            n = c.get("n") or ""
            if n.endswith("::prepare") and "sqlite" in n and len(t[2]) > 1:
                for s in sql.const_strs(fn, t[2][1]):
                    if sql.upsert_info(s):
                        out.append((fn, bb, s))
    return out


def timestampish(fn, e):
    """Expression derives from a parameter (or a field/method of one) of timestamp type."""
    e0 = e
    for _ in range(12):
        e = base_value(e)
        if e[0] == "call" and re.search(r"::timestamp$|to_local_time$|as_millis$|try_from$|::from$|::into$", e[1].get("n") or "") and e[2]:
            e = e[2][0]
            continue
        break
    s = show(e0)
    if e[0] != "arg":
        return False, s
    ty = fn["locals"][e[1]][0]
    ok = ("Timestamp" in ty or "LocalTime" in ty or "timestamp" in s or "Announcement" in ty)
    return ok, "%s : %s" % (s, ty)


def run(ctx):
    _run(ctx)
    cascade_rule(ctx)


def _run(ctx):
    db = ctx.db
    ctx.explanation = (
        "Decides the SQL-shape clause: the four timestamped upserts carry the strict guard `WHERE timestamp < ?k` on the "
        "placeholder assigned to timestamp, bound to the caller's timestamp; sync status/refs also require a changed value; "
        "routing prune excludes `node = ignore`; policy upserts are last-write-wins. Behavioural equivalence with an "
        "in-memory model over operation sequences is not decided.")
    ctx.not_decided = "step-by-step equivalence with a reference model; SQLite semantics"
    ctx.rule_text = "SQL lints B1-B5 over string constants reaching Connection::prepare + bind provenance"
    n = 0
    for fpat, table, vcol in MONOTONE:
        ups = [u for u in upserts_of(db, fpat) if sql.upsert_info(u[2])["table"] == table]
        if not ups:
            ctx.violated("sql:%s:anchor" % table, "no upsert into `%s` found in %s (anchor missing)" % (table, fpat))
            continue
        for fn, bb, s in ups:
            n += 1
            ok, msg = sql.lint_monotone_upsert(s)
            ctx.check("sql:B1:%s" % table, ok is True, "upsert into `%s` only replaces strictly older rows: %s" % (table, msg),
                      rules.where(fn, bb), detail=" ".join(s.split()), fn=fn)
            ctx.sample({"table": table, "sql": " ".join(s.split()), "B1": msg})
            if vcol:
                ok2, msg2 = sql.lint_value_change(s, vcol)
                ctx.check("sql:B2:%s" % table, ok2 is True, "upsert into `%s` requires a changed %s: %s" % (table, vcol, msg2),
                          rules.where(fn, bb), fn=fn)
            # B3: the timestamp placeholder is bound to the timestamp argument
            info = sql.upsert_info(s)
            ph = info["set"].get("timestamp", ["?"])[0]
            k = int(ph[1:]) if ph[1:].isdigit() else None
            root = db.root_of(fn)
            family = [fn] + [f for f in db.closures_of.get(root["n"], []) if f is not fn] + ([root] if root is not fn else [])
            bs = [(b[0], b[1], b[2], f) for f in family for b in sql.binds(f) if b[0] == k]
            if not bs:
                ctx.ob("sql:B3:%s" % table, "inconclusive", "no bind((%s, ..)) found for the timestamp placeholder" % k,
                       rules.where(fn, bb), fn=fn)
            for kk, val, b2, bf in bs:
                okb, what = timestampish(bf, val)
                if not okb and "root" in bf:
                    # closure: the value is a captured variable; resolve it in the constructing function
                    e = peel_calls(val)
                    if e[0] == "field" and peel_calls(e[1]) == ("arg", 1):
                        src = flow.upvar_source(db, bf, e[3])
                        if src:
                            okb, what2 = timestampish(src[0], src[1])
                            what += " captured from " + what2
                ctx.check("sql:B3:%s" % table, okb, "timestamp placeholder ?%s is bound to the timestamp argument (%s)" % (k, what),
                          rules.where(bf, b2), fn=bf)
    ctx.floor("sql:monotone", n, 4, "timestamped upserts (routing, repo-sync-status, refs, announcements)")

    # the same obligation for *every* statement that writes the timestamp of one of these tables, wherever it is prepared
    # (a second writer with a weaker guard breaks "only moves to strictly newer timestamps" just as well)
    tables = dict((t_, v_) for _, t_, v_ in MONOTONE)
    listed = [re.compile(fp) for fp, _, _ in MONOTONE]
    extra = 0
    for fn in db.all_fns():
        if fn["crate"] not in ("radicle", "radicle_node") or any(r_.search(db.root_of(fn)["key"]) for r_ in listed):
            continue
        for bb, t, c in db.calls(fn):
            nme = c.get("n") or ""
            if not (nme.endswith("::prepare") and "sqlite" in nme and len(t[2]) > 1):
                continue
            for s_ in sql.const_strs(fn, t[2][1]):
                toks = sql.tokenize(s_)
                info = sql.upsert_info(s_)
                table = None
                writes_ts = False
                if info and info["table"] and info["table"].strip("`") in tables:
                    table = info["table"].strip("`")
                    writes_ts = "timestamp" in info["set"]
                elif toks and toks[0] == "UPDATE" and len(toks) > 1 and toks[1].strip("`") in tables:
                    table = toks[1].strip("`")
                    cl = dict((h, b) for h, b in sql.split_clauses(toks))
                    writes_ts = any(part and part[0] == "timestamp" for part in sql._split_commas(cl.get("SET", [])))
                if not table or not writes_ts:
                    continue
                extra += 1
                rk = cfg.short(db.root_of(fn)["key"])
                if info:
                    ok, msg = sql.lint_monotone_upsert(s_)
                    vcol = tables[table]
                    ok2, msg2 = sql.lint_value_change(s_, vcol) if vcol else (True, "")
                else:
                    cl = dict((h, b) for h, b in sql.split_clauses(toks))
                    conj = sql.conjuncts(cl.get("WHERE", []))
                    ok = any(len(cj) == 3 and cj[0] == "timestamp" and cj[1] == "<" and cj[2].startswith("?") for cj in conj)
                    msg = "UPDATE without `WHERE timestamp < ?k`" if not ok else "guarded"
                    ok2, msg2 = True, ""
                ctx.check("sql:B1:%s:%s" % (table, rk), ok is True,
                          "statement in %s that writes `%s`.timestamp only replaces strictly older rows: %s" % (rk, table, msg),
                          rules.where(fn, bb), detail=" ".join(s_.split()), fn=fn)
                if tables[table]:
                    ctx.check("sql:B2:%s:%s" % (table, rk), ok2 is True, "statement in %s that writes `%s` requires a changed %s: %s" % (rk, table, tables[table], msg2),
                              rules.where(fn, bb), fn=fn)
    ctx.ob("sql:other-writers", "held", "%d further statement(s) writing the timestamp of a monotone table were checked" % extra, "", sites=extra)

    # B4 prune
    pr = db.find(r"^<radicle::node::db::Database as radicle::node::routing::Store>::prune$")
    if len(pr) != 1:
        ctx.violated("sql:B4:anchor", "routing prune not found (anchor missing)")
    else:
        fn = pr[0]
        found = False
        for bb, t, c in db.calls(fn):
            nme = c.get("n") or ""
            if nme.endswith("::prepare") and "sqlite" in nme:
                for s in sql.const_strs(fn, t[2][1]):
                    toks = sql.tokenize(s)
                    if "DELETE" not in toks:
                        continue
                    found = True
                    cl = dict((h, b) for h, b in sql.split_clauses(toks))
                    conj = sql.conjuncts(cl.get("WHERE", []))
                    ph = None
                    for cj in conj:
                        if len(cj) == 3 and cj[0] == "node" and cj[1] in ("<>", "!=") and cj[2].startswith("?"):
                            ph = cj[2]
                    ctx.check("sql:B4:prune", ph is not None, "routing prune has the top-level conjunct `node <> ?i`",
                              rules.where(fn, bb), detail=" ".join(s.split()), fn=fn)
                    if ph:
                        k = int(ph[1:]) if ph[1:].isdigit() else 1
                        bs = [b for b in sql.binds(fn) if b[0] == k]
                        okb = False
                        what = ""
                        for kk, val, b2 in bs:
                            e = peel_calls(val)
                            what = show(e)
                            okb = e[0] == "arg" and "PublicKey" in fn["locals"][e[1]][0]
                        ctx.check("sql:B4:bind", okb, "`node <> %s` is bound to the `ignore` node argument (%s)" % (ph, what),
                                  rules.where(fn), fn=fn)
        ctx.check("sql:B4:found", found, "routing prune issues a DELETE", rules.where(fn), fn=fn)
        # callers pass the local node id
        for cf, cb in db.call_sites(r"routing::Store::prune$"):
            t = cf["blocks"][cb]["t"]
            e = show(peel_calls(cfg.expr_operand(cf, t[2][3])))
            ctx.check("flow:prune:local:%s" % cf["key"], "node_id" in e or "nid" in e,
                      "prune is called with the local node id as `ignore` (%s)" % e, rules.where(cf, cb), fn=cf)

    # B5 policy stores: last write wins
    m = 0
    for fpat, table, col in POLICY:
        ups = upserts_of(db, fpat)
        if not ups:
            ctx.violated("sql:B5:%s.%s:anchor" % (table, col), "no upsert found in %s (anchor missing)" % fpat)
            continue
        for fn, bb, s in ups:
            m += 1
            info = sql.upsert_info(s)
            ph = info["set"].get(col)
            ok = bool(ph) and len(ph) == 1 and ph[0].startswith("?")
            if ok:
                for cj in info["where"]:
                    c2 = [t for t in cj if t not in ("(", ")")]
                    if c2 not in ([col, "!=", ph[0]], [col, "<>", ph[0]]):
                        ok = False
            ctx.check("sql:B5:%s.%s" % (table, col), ok,
                      "policy upsert sets %s.%s to the new value unconditionally or when different" % (table, col),
                      rules.where(fn, bb), detail=" ".join(s.split()), fn=fn)
    ctx.floor("sql:policy", m, 4, "policy upserts")


def cascade_rule(ctx):
    """`routing` and `repo-sync-status` reference `nodes(id)` with ON DELETE CASCADE: deleting a node's row silently deletes
    its routing entries and sync statuses, after which an *older* timestamp is accepted again (and the local node's entries,
    which prune must spare, are gone).  So a `DELETE FROM nodes` may be executed from nowhere in the shipped code paths
    (today: only the unused `address::Store::remove`)."""
    db = ctx.db
    holders = []
    for fn in db.all_fns():
        if fn["crate"] not in ("radicle", "radicle_node"):
            continue
        for bb, t, c in db.calls(fn):
            nme = c.get("n") or ""
            if nme.endswith("::prepare") and "sqlite" in nme and len(t[2]) > 1:
                for s_ in sql.const_strs(fn, t[2][1]):
                    toks = [x.upper() if x.isalpha() else x for x in sql.tokenize(s_)]
                    if len(toks) >= 3 and toks[0] == "DELETE" and toks[1] == "FROM" and sql.tokenize(s_)[2].strip('`"') == "nodes":
                        holders.append((fn, bb))
    ctx.floor("sql:cascade:delete-from-nodes", len(holders), 1, "statements deleting rows of `nodes` (positive example for the who-may-call rule)")
    callers = 0
    for hf, hb in holders:
        key = db.root_of(hf)["key"]
        for f, bb in db.call_sites("^" + re.escape(key) + "$"):
            if db.root_of(f)["key"] == key:
                continue
            callers += 1
            ctx.violated("who:nodes:delete:%s" % cfg.short(db.root_of(f)["key"]),
                         "%s deletes a row of `nodes`: the routing entries and sync statuses of that node are deleted with it (ON DELETE CASCADE), so "
                         "their timestamps start over and an older announcement is accepted again" % cfg.short(db.root_of(f)["key"]), rules.where(f, bb), fn=f)
    if not callers:
        ctx.ob("who:nodes:delete", "held", "no shipped code path deletes a row of `nodes` (%d DELETE statement(s), no caller)" % len(holders), "", sites=len(holders))
