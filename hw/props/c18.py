"""C18 — canonical JSON has a single byte representation (partial).

Decided: (EXH) CanonicalFormatter overrides every value-writing hook of
serde_json::ser::Formatter (a non-overridden hook would write to the raw writer and
bypass key buffering/ordering); floats have no Ok path; number strings are accepted
only without '.', 'e', 'E'; (MECH) object members are emitted in key-byte order, each key once: buffered in a
BTreeMap keyed by the key bytes (a vector that is sorted but not de-duplicated is
reported) and emitted by iterating it; (REQ) string fragments are
NFC-normalised; every other hook delegates to CompactFormatter (no insignificant
whitespace) through the context-dependent writer; who uses the formatter.
Not decided: decode∘encode idempotence."""
import re

from .. import cfg, rules, flow
from ..cfg import expr_operand, show, nshow, peel, peel_calls, base_value, walk, graph

CF = "radicle::canonical::formatter::CanonicalFormatter"
FMT = "serde_json::ser::Formatter"
NOT_REQUIRED = {
    "write_byte_array": "its default only calls the array hooks",
    "write_i128": "not reachable: serialized values hold at most 64-bit integers (assumption)",
    "write_u128": "not reachable: serialized values hold at most 64-bit integers (assumption)",
}
OWN_LOGIC = {"write_f32", "write_f64", "write_number_str", "write_string_fragment", "begin_object", "end_object",
             "begin_object_key", "end_object_key", "begin_object_value", "end_object_value", "write_raw_fragment"}


def run(ctx):
    _run(ctx)
    if ctx.pid == "C18":
        from . import c19
        c19.verified_passthrough(ctx, "doc")


def _run(ctx):
    db = ctx.db
    ctx.explanation = (
        "Decides structurally: completeness of the Formatter override set against the locked serde_json's hook list; floats "
        "rejected on all paths; byte-ordered buffering of object members and emission by map iteration; NFC applied to string "
        "fragments; all pass-through hooks delegate to the same-named CompactFormatter hook via the context writer. Byte-level "
        "idempotence of decode/encode is not decided.")
    ctx.not_decided = "encode(decode(encode(v))) == encode(v) as a behavioural fact"
    ctx.assumptions = ["serialized values contain no 128-bit integers", "serde_json is built without arbitrary_precision/raw_value changing hook usage"]
    ctx.rule_text = "EXH(trait hooks) + TABLE + TYPE + REQ + SIB(delegation) + WHO"
    im = [i for i in db.impls if i.get("trait") == FMT and i.get("self") == CF]
    if len(im) != 1:
        ctx.violated("anchor:impl", "impl Formatter for CanonicalFormatter not found (anchor missing)")
        return
    im = im[0]
    hooks = [t[0] for t in im["trait_items"] if t[1] == "AssocFn"]
    over = {i["n"] for i in im["items"]}
    ctx.floor("exh:hooks", len(hooks), 31, "Formatter hooks of the locked serde_json")
    for h in hooks:
        if h in NOT_REQUIRED:
            ctx.ob("exh:%s" % h, "assumed" if "assumption" in NOT_REQUIRED[h] else "held",
                   "hook %s need not be overridden: %s" % (h, NOT_REQUIRED[h]), "%s:%s" % (im["file"], im["line"]))
            continue
        ctx.check("exh:%s" % h, h in over, "hook %s is overridden (its default writes to the raw writer)" % h, "%s:%s" % (im["file"], im["line"]))

    def hook(n):
        return db.one(r"^<radicle::canonical::formatter::CanonicalFormatter as serde_json::ser::Formatter>::%s$" % n)
    # floats
    for h in ("write_f32", "write_f64"):
        f = hook(h)
        if f is None:
            continue
        oks = rules.agg_sites(f, r"^core::result::Result$", "Ok")
        calls = [c.get("n") for _, _, c in db.calls(f) if "Formatter" in (c.get("n") or "")]
        ctx.check("table:%s" % h, not oks and not calls, "%s never succeeds (floats rejected)" % h, rules.where(f), fn=f)
    f = hook("write_number_str")
    if f is not None:
        dl = [bb for bb, t, c in db.calls(f) if _compact(c) == "write_number_str"]
        ok, a, bad = rules.dom_check(db, f, dl, rules.is_bool(r"Iterator::any$", False))
        chars = set()
        for x in db.closures_of.get(f["n"], []):
            for b in x["blocks"]:
                for s in b["s"]:
                    if s[0] == "=" and s[2][0] == "bin" and s[2][1] == "Eq":
                        for o in (s[2][2], s[2][3]):
                            if o[0] == "k" and o[1].get("t") == "char" and "v" in o[1]:
                                chars.add(chr(int(o[1]["v"])))
        ctx.check("table:write_number_str", bool(ok and a and dl) and chars == {".", "e", "E"},
                  "number strings are written only if they contain none of '.', 'e', 'E' (tested: %s)" % sorted(chars), rules.where(f), fn=f)
    # members are emitted sorted by key bytes and each key once.  Mechanisms recognised: an ordered map keyed by the key
    # bytes (sorted and unique by construction), or a vector that end_object sorts *and* de-duplicates by key.
    obj = db.adts.get("radicle::canonical::formatter::Object")
    fty = [x["ty"] for x in obj["variants"][0]["fields"] if x["n"] == "obj"] if obj else []
    eo = hook("end_object")
    if not fty:
        ctx.violated("mech:object:ordered-unique", "Object.obj not found (anchor missing)")
    elif re.match(r"^alloc::collections::btree::map::BTreeMap<alloc::vec::Vec<u8>, ", fty[0]):
        ctx.held("mech:object:ordered-unique", "object members are buffered in a BTreeMap keyed by the key bytes: emitted in byte order, each key once (%s)" % fty[0])
    elif re.match(r"^alloc::vec::Vec<\(alloc::vec::Vec<u8>, ", fty[0]) and eo is not None:
        srt = [bb for bb, t, c in db.calls(eo) if re.search(r"slice::.*sort(_unstable)?(_by|_by_key|_by_cached_key)?$|::sort(_unstable)?(_by|_by_key)?$", c.get("n") or "")]
        ddp = [bb for bb, t, c in db.calls(eo) if re.search(r"Vec::dedup(_by|_by_key)?$", c.get("n") or "")]
        if not srt:
            ctx.violated("mech:object:ordered-unique", "object members are buffered in a vector that end_object does not sort: member order follows the serializer", rules.where(eo), fn=eo)
        elif not ddp:
            ctx.violated("mech:object:ordered-unique",
                         "object members are buffered in a vector that is sorted but not de-duplicated: two members whose keys are equal after "
                         "normalisation are both emitted, so the output is not the single byte representation of the value (decoding and "
                         "re-encoding changes it)", rules.where(eo, srt[0]), fn=eo)
        else:
            ctx.ob("mech:object:ordered-unique", "inconclusive", "object members are sorted and de-duplicated in a vector; which duplicate survives is not decided here", rules.where(eo), fn=eo)
    else:
        ctx.ob("mech:object:ordered-unique", "inconclusive", "object members are buffered in %s: not a mechanism this rule recognises" % fty[0], "")
    f = hook("end_object")
    if f is not None:
        it = [bb for bb, t, c in db.calls(f) if (c.get("dn") or "").endswith("IntoIterator::into_iter") and nshow(base_value(expr_operand(f, t[2][0]))).endswith(".obj")
              or ((c.get("dn") or "").endswith("IntoIterator::into_iter") and ".obj" in nshow(expr_operand(f, t[2][0])))]
        wa = rules.call_blocks(f, r"Write::write_all$")
        ctx.check("flow:end_object", bool(it) and len(wa) >= 2, "end_object emits members by iterating the ordered map (key bytes, then value bytes)",
                  rules.where(f), fn=f)
        names = [_compact(c) for _, _, c in db.calls(f) if _compact(c)]
        ctx.check("sib:end_object", names == ["begin_object_key", "end_object_key", "begin_object_value", "end_object_value", "end_object"],
                  "end_object uses CompactFormatter's separators in order (%s)" % names, rules.where(f), fn=f)
    f = hook("end_object_value")
    if f is not None:
        ins = [bb for bb, callee in rules.field_mut_calls(f, "obj") if re.search(r"(BTreeMap::insert|Vec::push)$", callee)]
        okk = False
        for bb in ins:
            t = f["blocks"][bb]["t"]
            args = " | ".join(nshow(expr_operand(f, a)) for a in t[2][1:])
            okk = "next_key" in args and "next_value" in args
        ctx.check("flow:end_object_value", okk, "a finished member is stored as (next_key, next_value)", rules.where(f), fn=f)
    # NFC
    f = hook("write_string_fragment")
    if f is not None:
        nfc = [bb for bb, t, c in db.calls(f) if (c.get("n") or "").endswith("UnicodeNormalization::nfc") or (c.get("dn") or "").endswith("UnicodeNormalization::nfc")]
        okn = bool(nfc) and all(nshow(peel_calls(expr_operand(f, f["blocks"][bb]["t"][2][0]))) == "arg3" for bb in nfc)
        raw = [bb for bb, t, c in db.calls(f) if (c.get("n") or "").endswith("write_all") and "arg3" in nshow(expr_operand(f, t[2][1]))]
        ctx.check("req:nfc", okn and not raw, "string fragments are NFC-normalised before being written (and never written raw)", rules.where(f), fn=f)
    # delegation
    n = 0
    for h in sorted(over - OWN_LOGIC):
        f = hook(h)
        if f is None:
            continue
        n += 1
        cs = [(bb, t, c) for bb, t, c in db.calls(f) if (c.get("dn") or "").startswith("serde_json::ser::Formatter::")]
        ok = len(cs) == 1 and _compact(cs[0][2]) == h
        if ok:
            w = base_value(expr_operand(f, cs[0][1][2][1]))
            ok = cfg.callee_is(w, re.compile(r"CanonicalFormatter::writer$"))
        ctx.check("sib:%s" % h, ok, "%s delegates to CompactFormatter::%s through the context writer" % (h, h), rules.where(f), fn=f)
    ctx.floor("sib:wrappers", n, 10, "pass-through hooks")
    # writer()
    w = db.one(r"^radicle::canonical::formatter::CanonicalFormatter::writer$")
    if w is None:
        ctx.violated("anchor:writer", "CanonicalFormatter::writer not found")
    else:
        boxes = []
        for bb, t, c in db.calls(w):
            if (c.get("n") or "").endswith("Box::new"):
                boxes.append((bb, nshow(expr_operand(w, t[2][0]))))
        kinds = sorted("value" if "next_value" in s else "key" if "next_key" in s else "raw" if s == "arg2" else s for _, s in boxes)
        okw = kinds == ["key", "raw", "value"]
        raw = [bb for bb, s in boxes if s == "arg2"]
        ok, a, bad = rules.dom_check(db, w, raw, lambda f: f[0] == "variant" and f[4] and f[3] == "None" and "last_mut" in nshow(f[1]))
        kb = [bb for bb, s in boxes if "next_key" in s]
        ok2, a2, _ = rules.dom_check(db, w, kb, lambda f: (f[0] == "bool" and f[2] is False and nshow(f[1]).endswith("key_done")))
        ctx.check("table:writer", okw and bool(ok and a) and bool(ok2 and a2),
                  "writer(): raw writer only outside objects; inside an object the key buffer until key_done, then the value buffer (%s)" % kinds,
                  rules.where(w), fn=w)
    # users
    sites = [(fn, bb, None) for fn, bb in db.call_sites(r"^radicle::canonical::formatter::CanonicalFormatter::new$")
             if not fn["key"].startswith("<radicle::canonical::formatter::CanonicalFormatter")]
    users = sorted({rules.root_key(db, fn) for fn, _, _ in sites})
    ctx.check("who:users", "radicle::identity::doc::Doc::encode" in users and "radicle::cob::store::encoding::encode" in users,
              "identity documents and COB changes are encoded with the canonical formatter (%s)" % users)
    ctx.sample({"canonical formatter users": users})


def _compact(c):
    """Name of the Formatter hook if the call is `CompactFormatter.<hook>(..)`, else None."""
    dn = c.get("dn") or ""
    if dn.startswith("serde_json::ser::Formatter::") and (c.get("ga") or [""])[0] == "serde_json::ser::CompactFormatter":
        return dn.rsplit("::", 1)[1]
    return None
