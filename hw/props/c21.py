"""C21 — textual identifiers (partial).

Decided: (PANIC) the text parsers of PublicKey, Did, RepoId, Alias, UserAgent,
Signature (FromStr / TryFrom<String|&str> and the functions they call in the
workspace) contain no unreviewed panic source; (REQ, weak) printer and parser of
each type refer to the same prefix / multicodec / multibase constants.
Not decided: the print/parse round trip and canonical form."""
import re

from .. import cfg, rules, flow, panic
from ..cfg import expr_operand, show, nshow, peel, peel_calls, walk
from ..panic import Review

ENTRIES = [
    r"^<radicle_crypto::PublicKey as core::str::traits::FromStr>::from_str$",
    r"^<radicle_crypto::PublicKey as core::convert::TryFrom<alloc::string::String>>::try_from$",
    r"^<radicle_crypto::Signature as core::str::traits::FromStr>::from_str$",
    r"^<radicle_crypto::Signature as core::convert::TryFrom<alloc::string::String>>::try_from$",
    r"^radicle::identity::did::Did::decode$",
    r"^<radicle::identity::did::Did as core::str::traits::FromStr>::from_str$",
    r"^<radicle::identity::did::Did as core::convert::TryFrom<alloc::string::String>>::try_from$",
    r"^radicle::identity::doc::id::RepoId::(from_urn|from_canonical)$",
    r"^<radicle::identity::doc::id::RepoId as core::str::traits::FromStr>::from_str$",
    r"^<radicle::node::Alias as core::str::traits::FromStr>::from_str$",
    r"^<radicle::node::Alias as core::convert::TryFrom<alloc::string::String>>::try_from$",
    r"^<radicle::node::UserAgent as core::str::traits::FromStr>::from_str$",
]


def consts_of(fn):
    """named constants, string literals and format-template bytes mentioned by fn"""
    out = set()
    for b in fn["blocks"]:
        ops = []
        for s in b["s"]:
            if s[0] == "=":
                ops.extend(rules._rv_operands(s[2]))
        t = b["t"]
        if t[0] == "call":
            ops.extend(t[2])
        for o in ops:
            if o[0] == "k":
                k = o[1]
                if k.get("cn"):
                    out.add("const:" + k["cn"])
                if k.get("s") is not None:
                    out.add("str:" + k["s"])
                if k.get("b") is not None:
                    out.add("bytes:" + re.sub("�+", "|", k["b"]).strip("|"))
    for b in fn["blocks"]:
        for s in b["s"]:
            if s[0] == "=" and s[2][0] == "agg" and isinstance(s[2][1], dict) and s[2][1].get("adt", "").endswith("multibase::base::Base"):
                out.add("base:" + s[2][1]["var"])
    return out


def run(ctx):
    _run(ctx)
    printers_agree(ctx)


def _run(ctx):
    db = ctx.db
    ctx.explanation = (
        "Decides structurally: no unreviewed panic source in the identifier parsers (every source reachable from the FromStr/"
        "TryFrom entry points inside the workspace is enumerated; today none exists); printers and parsers use the same "
        "prefix/multicodec constants and Base58btc. The round trip and canonical-form equality are not decided.")
    ctx.not_decided = "parse(print(x)) == x; that printing uses the canonical form; behaviour of multibase/ed25519 dependencies"
    ctx.rule_text = "PANIC(entries, empty review table) + REQ(shared constants)"
    review = Review([])
    fns, scoped = panic.run_panic(ctx, ENTRIES, lambda f: True, review, "c21", floor_fns=9, floor_sources=0)
    ctx.sample({"parser closure": sorted(f["key"] for f in fns)[:40]})

    def one(p):
        f = db.one(p)
        if f is None:
            ctx.violated("anchor:%s" % p, "function %s not found (anchor missing)" % p)
        return f
    # RepoId
    urn, furn = one(r"^radicle::identity::doc::id::RepoId::urn$"), one(r"^radicle::identity::doc::id::RepoId::from_urn$")
    if urn and furn:
        a, b = consts_of(urn), consts_of(furn)
        ok = "const:radicle::identity::doc::id::RAD_PREFIX" in a and "const:radicle::identity::doc::id::RAD_PREFIX" in b
        ctx.check("req:RepoId:prefix", ok, "RepoId::urn and from_urn use the same RAD_PREFIX constant", rules.where(urn), detail=[sorted(a), sorted(b)], fn=urn)
        c = db.consts.get("radicle::identity::doc::id::RAD_PREFIX")
        ctx.check("const:RAD_PREFIX", bool(c) and c.get("s") == "rad:", "RAD_PREFIX == \"rad:\"", "%s:%s" % (c["file"], c["line"]) if c else "")
    can, fcan = one(r"^radicle::identity::doc::id::RepoId::canonical$"), one(r"^radicle::identity::doc::id::RepoId::from_canonical$")
    if can and fcan:
        ok = "base:Base58Btc" in consts_of(can) and bool(rules.call_blocks(fcan, r"^multibase::decode$"))
        ctx.check("req:RepoId:multibase", ok, "RepoId is printed as multibase Base58btc and parsed with multibase::decode", rules.where(can), fn=can)
    # PublicKey
    th, fs = one(r"^radicle_crypto::PublicKey::to_human$"), one(r"^<radicle_crypto::PublicKey as core::str::traits::FromStr>::from_str$")
    if th and fs:
        a, b = consts_of(th), consts_of(fs)
        mc = "const:radicle_crypto::PublicKey::MULTICODEC_TYPE"
        ctx.check("req:PublicKey:multicodec", mc in a and mc in b, "PublicKey printer and parser use the same MULTICODEC_TYPE", rules.where(th),
                  detail=[sorted(a), sorted(b)], fn=th)
        ctx.check("req:PublicKey:multibase", "base:Base58Btc" in a and bool(rules.call_blocks(fs, r"^multibase::decode$")),
                  "PublicKey is printed as Base58btc multibase and parsed with multibase::decode", rules.where(th), fn=th)
    # Did
    enc, dec = one(r"^radicle::identity::did::Did::encode$"), one(r"^radicle::identity::did::Did::decode$")
    if enc and dec:
        a, b = consts_of(enc), consts_of(dec)
        pa = [x for x in a if x.startswith("bytes:")]
        pb = [x for x in b if x.startswith("str:")]
        ok = any("did:key:" in x for x in pa) and "str:did:key:" in pb
        ctx.check("req:Did:prefix", ok, "Did::encode writes and Did::decode strips the same `did:key:` prefix", rules.where(enc), detail=[pa, pb], fn=enc)
        ctx.check("req:Did:key", bool(rules.call_blocks(enc, r"PublicKey::to_human$")) and bool(rules.call_blocks(dec, r"PublicKey as core::str::traits::FromStr>::from_str$|FromStr::from_str$")),
                  "Did delegates the key part to PublicKey::to_human / from_str", rules.where(dec), fn=dec)
    # Signature
    sd, sp = one(r"^<radicle_crypto::Signature as core::fmt::Display>::fmt$"), one(r"^<radicle_crypto::Signature as core::str::traits::FromStr>::from_str$")
    if sd and sp:
        ctx.check("req:Signature:multibase", "base:Base58Btc" in consts_of(sd) and bool(rules.call_blocks(sp, r"^multibase::decode$")),
                  "Signature is printed as Base58btc multibase and parsed with multibase::decode", rules.where(sd), fn=sd)


def printers_agree(ctx):
    """"Printing always uses the canonical form": every printer of a repository id — Display, Serialize and the SQL bind,
    which is the text rows are keyed and looked up by — goes through `RepoId::urn()`.  A printer that uses another
    rendering (the bare multibase string) gives one id two texts; the parser accepts both, the database does not."""
    db = ctx.db
    import re as _re
    fns = [f for f in db.all_fns() if _re.search(
        r"^<&?radicle::identity::doc::id::RepoId as (core::fmt::Display|serde::ser::Serialize|sqlite::statement::BindableWithIndex)>::", f["key"])]
    ctx.floor("printers:RepoId", len(fns), 3, "printers of RepoId (Display, Serialize, SQL bind)")
    for f in fns:
        names = [(c.get("n") or c.get("dn") or "") for bb, t, c in db.calls(f)]
        urn = any(n.endswith("RepoId::urn") or n.endswith("RepoId as core::fmt::Display>::fmt") or n.endswith("ToString>::to_string") for n in names)
        other = [n for n in names if _re.search(r"RepoId::canonical$|multibase::encode$", n)]
        ctx.check("sib:printers:RepoId:%s" % cfg.short(f["key"]), urn and not other,
                  "%s prints the repository id in its canonical URN form (RepoId::urn), like the other printers%s" % (
                      cfg.short(f["key"]), (" — it uses %s" % cfg.short(other[0])) if other else ""), rules.where(f), fn=f)
