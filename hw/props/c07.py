"""C07 — issue and patch actions obey the authorization rules (partial).

TABLE rule: the decision table of Issue::authorization and Patch::authorization is
extracted from MIR (per action variant: the set of outcomes and the comparison
each `Authorization::from(bool)` is built from) and compared with the reference
table transcribed from the property statement.  DOM/EXCL: the mutators
(`T::action`) run only under `Allow`; `Deny` is an error, `Unknown` is a no-op;
who may call the mutators; the delegate set consulted is the one of the identity
document the op refers to; the matches have no wildcard arm. 
The author accessors the table compares with (`Comment::author`, `Issue::author`,
`Revision::author`, ..) return a field written only where the object is created.
Equality on the workspace types the tables compare (labels, DIDs, keys) is the derived,
structural one."""
import re

from .. import cfg, rules, flow, table
from ..cfg import expr_operand, show, nshow, peel, peel_calls, base_value, walk, graph

AUTHZ = r"common::Authorization$"

OBJ, CMT, REV, RVN = "object-author", "comment-author", "review-author", "revision-author"
A, D, U, E = "Allow", "Deny", "Unknown", "Err"


def T(consts=(), frm=None, noop_field=None, all_eq=None):
    return {"consts": set(consts), "from": frm, "noop": noop_field, "all_eq": all_eq}


ISSUE = {
    "Assign": T({A, D}, noop_field="assignees"),
    "Label": T({A, D}, noop_field="labels"),
    "Edit": T(frm={OBJ}),
    "Lifecycle": T(frm={OBJ}),
    "Comment": T({A}),
    "CommentReact": T({A}),
    "CommentEdit": T({U, E}, frm={CMT}),
    "CommentRedact": T({U, E}, frm={CMT}),
}
PATCH = {
    "Edit": T(frm={OBJ}),
    "Lifecycle": T(frm={OBJ}),
    "Label": T({A, D}, noop_field="labels"),
    "Assign": T({D}),
    "Merge": T({D}),
    "Review": T({A}), "ReviewComment": T({A}), "ReviewCommentReact": T({A}), "Revision": T({A}),
    "RevisionReact": T({A}), "RevisionComment": T({A}), "RevisionCommentReact": T({A}),
    "ReviewEdit": T({U, E}, frm={REV}), "ReviewRedact": T({U, E}, frm={REV}),
    "ReviewCommentEdit": T({U, E}, frm={CMT}), "ReviewCommentRedact": T({U, E}, frm={CMT}),
    "ReviewCommentResolve": T({U, E}, frm={RVN}, all_eq={CMT, REV, RVN}),
    "ReviewCommentUnresolve": T({U, E}, frm={RVN}, all_eq={CMT, REV, RVN}),
    "RevisionEdit": T({U, E}, frm={RVN}), "RevisionRedact": T({U, E}, frm={RVN}),
    "RevisionCommentEdit": T({U, E}, frm={CMT}), "RevisionCommentRedact": T({U, E}, frm={CMT}),
}


def classify_eq(e):
    """eq(actor, X) -> class of X, or None"""
    e = peel(e)
    if e[0] != "call" or not (e[1].get("dn") or "").endswith("PartialEq::eq") or len(e[2]) != 2:
        return None
    a, b = nshow(peel_calls(e[2][0])), nshow(e[2][1])
    if a != "arg3":
        a, b = nshow(peel_calls(e[2][1])), nshow(e[2][0])
    if a != "arg3":
        return None
    b = b.replace("<core::result::Result<T, E> as core::ops::try_trait::Try>::branch", "?")
    if re.search(r"(Issue|Patch)::author\(arg1\)", b):
        return OBJ
    if "Comment::author(" in b:
        return CMT
    if "lookup::review(arg1" in b and re.search(r"Some\.0\.1\.author\)*$", b):
        return REV
    if "lookup::review(arg1" in b and re.search(r"Some\.0\.0\.author\)*$", b):
        return RVN
    if "lookup::revision(arg1" in b and re.search(r"Some\.0\.author\)*$", b):
        return RVN
    return "other:" + b[:80]


def check_table(ctx, db, fn, ref, tname):
    sw = table.variant_switch(db, fn, "arg2")
    if sw is None:
        ctx.violated("table:%s:switch" % tname, "no match on the action in %s::authorization (anchor missing)" % tname, rules.where(fn), fn=fn)
        return
    bb, tg, wild, names = sw
    ctx.check("exh:%s::authorization" % tname, not wild and len(tg) == len(names),
              "the match on the action has no wildcard arm (%d of %d variants explicit)" % (len(tg), len(names)), rules.where(fn, bb), fn=fn)
    # delegate prelude
    ok, a, bad = rules.dom_check(db, fn, [bb], rules.is_bool(r"^radicle::identity::doc::Doc::is_delegate$", False))
    ctx.check("dom:%s::authorization:non-delegate" % tname, bool(ok and a),
              "the per-action rules are reached only for non-delegates", rules.where(fn, bb), fn=fn)
    for b2 in rules.call_blocks(fn, r"^radicle::identity::doc::Doc::is_delegate$"):
        t = fn["blocks"][b2]["t"]
        d_, w_ = nshow(peel_calls(expr_operand(fn, t[2][0]))), nshow(peel_calls(expr_operand(fn, t[2][1])))
        ctx.check("flow:%s::authorization:delegate-test" % tname, d_ == "arg4" and w_ == "arg3",
                  "delegate status of the acting key is read from the document passed in (%s, %s)" % (d_, w_), rules.where(fn, b2), fn=fn)
    regs, common = table.regions(fn, tg)
    for v in sorted(set(tg) | set(ref)):
        key = "table:%s:%s" % (tname, v)
        if v not in ref:
            ctx.violated(key, "action variant %s is not in the reference table (a new action needs an authorization decision)" % v, rules.where(fn), fn=fn)
            continue
        if v not in tg:
            ctx.violated(key, "reference variant %s has no arm" % v, rules.where(fn), fn=fn)
            continue
        exp = ref[v]
        sites = table.outcome_sites(db, fn, regs[v], AUTHZ)
        consts = {s["name"] for s in sites if s["kind"] == "const"} | ({E} if any(s["kind"] == "err" for s in sites) else set())
        froms = [s for s in sites if s["kind"] == "from"]
        problems = []
        classes = set()
        expanded = False
        if exp["from"] and not froms and {A, D} <= consts:
            # `if actor == x { Allow } else { Deny }` is Authorization::from(actor == x) written out
            allow_b = [s["bb"] for s in sites if s["kind"] == "const" and s["name"] == A]
            deny_b = [s["bb"] for s in sites if s["kind"] == "const" and s["name"] == D]

            def eq_cls(f, pos):
                if f[0] == "bool" and f[2] is pos:
                    return classify_eq(f[1])
                return None
            got = set()
            okx = True
            for blocks_, pos in ((allow_b, True), (deny_b, False)):
                for b2 in blocks_:
                    found = None
                    for (e0, e1, lab, facts) in cfg.all_edge_facts(db, fn):
                        for f in facts:
                            c = eq_cls(f, pos)
                            if c and not c.startswith("other:"):
                                okd, al, _ = rules.dom_check(db, fn, [b2], lambda g_, c=c, pos=pos: eq_cls(g_, pos) == c)
                                if okd and al:
                                    found = c
                    if found:
                        got.add(found)
                    else:
                        okx = False
            if okx and got:
                expanded = True
                classes |= got
                consts = consts - {A, D}
        if consts != exp["consts"]:
            problems.append("outcomes %s, expected %s" % (sorted(consts), sorted(exp["consts"])))
        if bool(froms or expanded) != bool(exp["from"]):
            problems.append("%s actor comparison" % ("unexpected" if froms else "missing"))
        for s in froms:
            for leaf in table.bool_leaves(fn, s["cond"]):
                leaf = peel(leaf)
                if leaf[0] == "const":
                    if leaf[1].get("v") != "1":
                        problems.append("a comparison is combined with constant false (conjunction instead of disjunction)")
                    continue
                c = classify_eq(leaf)
                if c is None:
                    problems.append("authorization derives from %s, not from an equality with the acting key" % nshow(leaf)[:100])
                else:
                    classes.add(c)
        if exp["from"] and (froms or expanded) and not (classes and classes <= (exp["all_eq"] or exp["from"]) and classes >= exp["from"]):
            problems.append("actor is compared with %s, expected %s" % (sorted(classes), sorted(exp["from"])))
        if exp["all_eq"]:
            alleq = set()
            for b2 in regs[v]:
                t = fn["blocks"][b2]["t"]
                if t[0] == "call" and (t[1].get("dn") or "").endswith("PartialEq::eq"):
                    c = classify_eq(("call", t[1], [expr_operand(fn, x) for x in t[2]], b2))
                    if c:
                        alleq.add(c)
                elif t[0] == "call" and (t[1].get("dn") or "").endswith("PartialEq::ne"):
                    problems.append("inequality used in an authorization rule")
            if alleq != exp["all_eq"]:
                problems.append("actor is compared with %s, expected exactly %s" % (sorted(alleq), sorted(exp["all_eq"])))
        for b2 in regs[v]:
            t = fn["blocks"][b2]["t"]
            if t[0] == "call" and (t[1].get("dn") or "").endswith("PartialEq::ne"):
                problems.append("inequality used in an authorization rule")
        if exp["noop"]:
            allow = [s["bb"] for s in sites if s["kind"] == "const" and s["name"] == A]

            def same(f):
                if f[0] != "cmp" or f[1] != "Eq":
                    return False
                x, y = nshow(f[2]), nshow(f[3])
                return ("arg2 as %s.%s" % (v, exp["noop"]) in x + y) and ("arg1.%s" % exp["noop"] in x + y)
            ok, a, bad = rules.dom_check(db, fn, allow, same)
            if not (ok and a and allow):
                problems.append("Allow is not restricted to the no-op case (payload == current %s)" % exp["noop"])
        # lookups use the action's own payload
        for b2 in regs[v]:
            t = fn["blocks"][b2]["t"]
            if t[0] == "call" and re.search(r"lookup::(review|revision)$|BTreeMap::get$|Thread::comment$", t[1].get("n") or "") and len(t[2]) > 1:
                k = peel_calls(expr_operand(fn, t[2][1]))
                ds = [k] if k[0] != "phi" else flow.def_exprs(fn, k[1])
                if not all(nshow(peel_calls(d_)).startswith("arg2 as ") for d_ in ds):
                    problems.append("lookup key %s is not the action's payload" % nshow(k)[:60])
        ctx.check(key, not problems, "%s::authorization(%s) for non-delegates matches the reference table%s" % (
            tname, v, "" if not problems else ": " + "; ".join(sorted(set(problems)))), rules.where(fn, tg[v][0]), fn=fn)
        ctx.sample({"type": tname, "action": v, "outcomes": sorted(consts), "compared_with": sorted(classes)})


def check_dispatch(ctx, db, tname, modpath):
    oa = db.one(r"^radicle::cob::%s::%s::op_action$" % (modpath, tname))
    act = r"^radicle::cob::%s::%s::action$" % (modpath, tname)
    if oa is None:
        ctx.violated("anchor:%s::op_action" % tname, "%s::op_action not found" % tname)
        return
    eff = rules.call_blocks(oa, act)
    ctx.floor("%s::op_action:action" % tname, len(eff), 1, "call of %s::action in op_action" % tname)
    az = r"^radicle::cob::%s::%s::authorization$" % (modpath, tname)

    def is_(var):
        def p(f):
            return f[0] == "variant" and f[4] and f[3] == var and cfg.callee_is(base_value(f[1]), re.compile(az))
        return p
    ok, a, bad = rules.dom_check(db, oa, eff, is_("Allow"))
    ctx.check("dom:%s::op_action:allow" % tname, bool(ok and a and eff), "the mutator runs only if authorization() returned Allow",
              rules.where(oa, eff[0] if eff else None), detail={"path": list(bad.values())[:1]}, fn=oa)
    for var in ("Deny", "Unknown"):
        ok, d, bad = rules.excl_check(db, oa, eff, is_(var))
        ctx.check("excl:%s::op_action:%s" % (tname, var), bool(ok and d), "the mutator never runs after authorization() returned %s" % var,
                  rules.where(oa), detail={"path": list(bad.values())[:1]}, fn=oa)
    # Deny => Err ; Unknown => Ok(())
    g = graph(oa)
    for var, want in (("Deny", "Err"), ("Unknown", "Ok")):
        es = rules.edges_where(db, oa, is_(var))
        okv = bool(es)
        for (b0, tb, lab) in es:
            reach = g.reach([tb])
            kinds = {k["var"] for bb, j, k, ops in rules.agg_sites(oa, r"^core::result::Result$") if bb in reach}
            okv = okv and kinds == {want}
        ctx.check("table:%s::op_action:%s" % (tname, var), okv, "authorization %s yields %s" % (var, "an error" if want == "Err" else "a no-op Ok(())"),
                  rules.where(oa), fn=oa)
    # same action/author/doc
    for bb in rules.call_blocks(oa, az):
        t = oa["blocks"][bb]["t"]
        a_, k_, d_ = (nshow(peel_calls(expr_operand(oa, x))) for x in t[2][1:4])
        ctx.check("flow:%s::op_action:args" % tname, (a_, k_, d_) == ("arg2", "arg4", "arg7"),
                  "authorization is asked about the action, author and document of this op (%s, %s, %s)" % (a_, k_, d_), rules.where(oa, bb), fn=oa)
    for bb in eff:
        t = oa["blocks"][bb]["t"]
        a_, k_ = nshow(peel_calls(expr_operand(oa, t[2][1]))), nshow(peel_calls(expr_operand(oa, t[2][3])))
        ctx.check("flow:%s::op_action:same" % tname, a_ == "arg2" and k_ == "arg4", "the authorized action and author are the ones applied (%s, %s)" % (a_, k_),
                  rules.where(oa, bb), fn=oa)
    sites = [(fn, bb, None) for fn, bb in db.call_sites(act)]
    rules.who(ctx, "who:%s::action" % tname, "call of %s::action" % tname, sites,
              [r"^radicle::cob::%s::%s::op_action$" % (modpath, tname), r"Cob>::from_root$"])
    # op(): the document handed to op_action is op.identity_doc(repo)
    op = db.one(r"^<radicle::cob::%s::%s as radicle::cob::store::Cob>::op$" % (modpath, tname))
    if op is None:
        ctx.violated("anchor:%s::op" % tname, "%s::op not found" % tname)
    else:
        for bb in rules.call_blocks(op, r"::op_action$"):
            d_ = nshow(base_value(expr_operand(op, op["blocks"][bb]["t"][2][6])))
            ctx.check("flow:%s::op:doc" % tname, "identity_doc" in d_ and "arg2" in d_,
                      "the delegate set consulted is that of the identity document the op refers to (%s)" % d_[:80], rules.where(op, bb), fn=op)
    # exhaustive match in action()
    fa = db.one(act)
    if fa is not None:
        sw = table.variant_switch(db, fa, "arg2")
        ctx.check("exh:%s::action" % tname, bool(sw) and not sw[2] and len(sw[1]) == len(sw[3]),
                  "the match on the action in %s::action has no wildcard arm" % tname, rules.where(fa), fn=fa)


def check_authors(ctx, db):
    """The table compares the acting key with `x.author()`: that is meaningful only if an author is fixed when the item
    is created.  (a) the accessors are plain projections of a field named `author` (Issue::author: the author of the
    *first* comment); (b) no function other than a constructor assigns an `author` field of these types."""
    ACC = [("Comment", r"^radicle::cob::thread::Comment::author$"), ("Patch", r"^radicle::cob::patch::Patch::author$"),
           ("Revision", r"^radicle::cob::patch::Revision::author$"), ("Review", r"^radicle::cob::patch::Review::author$")]
    for nm, pat in ACC:
        f = db.one(pat)
        if f is None:
            ctx.violated("anchor:%s::author" % nm, "%s::author not found (anchor missing)" % nm)
            continue
        calls = [c.get("n") or c.get("dn") or "" for _, _, c in db.calls(f)]
        calls = [c for c in calls if not re.search(r"Deref::deref$|Clone::clone$|AsRef::as_ref$|Borrow::borrow$", c)]
        rets = rules.ret_defs(f)
        proj = False
        for bb, kind, val in rets:
            if kind == "expr":
                e = val
                while e[0] in ("ref", "deref"):
                    e = e[1]
                proj = e[0] == "field" and e[2] == "author" and nshow(e[1]) in ("arg1", "")
                s_ = nshow(val)
                proj = proj or s_ == "arg1.author"
        ctx.check("acc:%s::author" % nm, proj and not calls and len(rets) == 1,
                  "%s::author() is the `author` field recorded when the item was created (no computation: %s)" % (nm, calls or "none"),
                  rules.where(f), fn=f)
    ia = db.one(r"^radicle::cob::issue::Issue::author$")
    if ia is None:
        ctx.violated("anchor:Issue::author", "Issue::author not found (anchor missing)")
    else:
        fam = [ia] + db.closures_of.get(ia["n"], [])
        calls = [c.get("n") or c.get("dn") or "" for f in fam for _, _, c in db.calls(f)]
        first = any(c.endswith("Iterator::next") or c.endswith("::next") for c in calls) and any("comments" in c for c in calls)
        other = [c for c in calls if re.search(r"::(last|next_back|rev|nth|max|min|max_by|min_by|max_by_key|min_by_key|skip|last_mut)$", c)]
        uses = any(re.search(r"thread::Comment::author$", c) for c in calls)
        ctx.check("acc:Issue::author", first and uses and not other, "Issue::author() is the author of the thread's first (root) comment", rules.where(ia), fn=ia)
    # who assigns an author field
    sites = []
    for f in db.all_fns():
        if f["crate"] != "radicle" or "cob" not in f["file"]:
            continue
        for bb, j, s_ in rules.field_writes(f, "author", r"cob::(thread::Comment|patch::(Patch|Revision|Review)|thread::Edit)"):
            sites.append((f, bb, j))
    for f, bb, j in sites:
        ctx.violated("who:author-write:%s" % cfg.short(rules.root_key(db, f)), "an `author` field is reassigned after creation", rules.where(f, bb, j), fn=f)
    ctx.held("who:author-write", "no function assigns an `author` field of a comment, patch, revision or review after construction (%d sites)" % len(sites), "")


def run(ctx):
    db = ctx.db
    ctx.explanation = (
        "Decides structurally: the authorization decision table of every Issue/Patch action variant equals the reference "
        "table (outcome sets, which author the acting key is compared with, no-op exception for label/assign, lookups keyed "
        "by the action payload); mutators run only under Allow, Deny is an error, Unknown a no-op; the delegate set "
        "consulted is that of the document the op refers to; matches are wildcard-free. Effects of the mutators beyond "
        "that (C06/C08) are not decided here.")
    ctx.not_decided = "behaviour of the mutators themselves; histories as a whole"
    ctx.rule_text = "TABLE(authorization per variant) + DOM/EXCL(dispatch) + WHO + FLOW + EXH"
    ia = db.one(r"^radicle::cob::issue::Issue::authorization$")
    pa = db.one(r"^radicle::cob::patch::Patch::authorization$")
    if ia is None or pa is None:
        ctx.violated("anchor:authorization", "Issue/Patch::authorization not found (anchor missing)")
        return
    check_table(ctx, db, ia, ISSUE, "Issue")
    check_table(ctx, db, pa, PATCH, "Patch")
    check_dispatch(ctx, db, "Issue", "issue")
    check_dispatch(ctx, db, "Patch", "patch")
    check_authors(ctx, db)
    check_equality(ctx, db, [f for f in (ia, pa) if f is not None])


def check_equality(ctx, db, fns):
    """The authorization table compares actors, authors and label/assignee sets with `==`.  Those comparisons mean what
    the table says only if equality on the compared types is structural: a hand-written `PartialEq` (case-insensitive
    labels, say) makes two different values "equal", and the "no change" exemption then lets a non-delegate change one
    into the other."""
    seen = {}
    for fn in fns:
        fam = [fn] + [f for f in db.closures_of.get(db.root_of(fn)["n"], []) if f is not fn]
        for f in fam:
            for bb, t, c in db.calls(f):
                dn = c.get("dn") or ""
                if not re.search(r"cmp::PartialEq::(eq|ne)$", dn):
                    continue
                for ty in c.get("ga") or []:
                    for m in re.finditer(r"(radicle[\w]*::[\w:]+)", ty):
                        seen.setdefault(m.group(1), (f, bb))
    ctx.floor("eq:types", len(seen), 1, "workspace types compared by the authorization functions")
    for ty, (f, bb) in sorted(seen.items()):
        eqf = [x for x in db.all_fns() if x["key"] == "<%s as core::cmp::PartialEq>::eq" % ty]
        if not eqf:
            continue
        e = eqf[0]
        derived = "derive(PartialEq" in (e.get("exp") or "")
        if derived:
            ctx.held("eq:structural:%s" % cfg.short(ty), "equality on %s is the derived, structural one" % cfg.short(ty), rules.where(e), fn=e)
        elif re.search(r"^radicle_crypto::PublicKey$|^radicle::identity::did::Did$", ty):
            ctx.held("eq:structural:%s" % cfg.short(ty), "equality on %s compares the key bytes (reviewed)" % cfg.short(ty), rules.where(e), fn=e)
        else:
            ctx.violated("eq:structural:%s" % cfg.short(ty),
                         "the authorization rules compare values of %s with `==`, but its PartialEq is hand-written (not structural): values that differ can "
                         "compare equal, so a change between them passes the \"nothing changed\" / \"is the author\" tests" % cfg.short(ty), rules.where(e), fn=e)
