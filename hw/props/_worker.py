"""Shared by C11 and C12: what the fetch worker hands back after a successful fetch.

`Worker::is_authorized` (C12) and `Service::announce_refs` / relay (C11) do not evaluate the identity COB themselves:
the first reads the canonical `refs/rad/id` through `identity_doc()`, the second uses `FetchResult.doc`.  Both are only
as fresh as the last `set_identity_head()`.  So after *every* successful fetch the worker recomputes the identity head,
and the document it returns is loaded after that."""
import re

from .. import cfg, rules
from ..cfg import graph, nshow, expr_operand, peel_calls


def identity_refresh(ctx, prefix):
    db = ctx.db
    fn = db.one(r"^radicle_node::worker::fetch::Handle::fetch$")
    if fn is None:
        ctx.violated("%s:anchor:worker-fetch" % prefix, "worker::fetch::Handle::fetch not found (anchor missing)")
        return
    g = graph(fn)
    sih = [bb for bb, t, c in db.calls(fn) if (c.get("n") or "").endswith("WriteRepository::set_identity_head") or (c.get("n") or "").endswith("WriteRepository>::set_identity_head")]
    doc = [bb for bb, t, c in db.calls(fn) if re.search(r"ReadRepository(>)?::identity_doc$", c.get("n") or "")]
    res = [bb for bb, j, k, ops in rules.agg_sites(fn, r"^radicle_node::worker::fetch::FetchResult$")]
    ctx.floor("%s:worker-fetch:sites" % prefix, min(len(sih), len(res)), 1, "set_identity_head call and FetchResult construction in the fetch worker")
    if not sih or not res:
        return
    ok1 = all(any(g.dominates(s, r) for s in sih) for r in res)
    ctx.check("%s:order:fetch:identity-head" % prefix, ok1,
              "every successful fetch recomputes the canonical identity head (set_identity_head dominates the result): the authorization of later "
              "fetches and the visibility used for announcements read the identity through that reference, so a skipped recomputation keeps serving / "
              "announcing under a superseded document", rules.where(fn, sih[0]), fn=fn)
    # the document returned is loaded after the recomputation
    srcs = []
    for bb, j, k, ops in rules.agg_sites(fn, r"^radicle_node::worker::fetch::FetchResult$"):
        fields = k.get("fields") or []
        for i, o in enumerate(ops):
            if i < len(fields) and fields[i] == "doc":
                e = peel_calls(expr_operand(fn, o))
                for x in cfg.walk(e):
                    if x[0] == "call" and re.search(r"identity_doc$", x[1].get("n") or "") and len(x) > 3 and x[3] is not None:
                        srcs.append(x[3])
    if not srcs:
        ctx.ob("%s:order:fetch:doc-after-identity-head" % prefix, "inconclusive", "where FetchResult.doc comes from was not recognised", rules.where(fn), fn=fn)
        return
    ok2 = all(any(g.dominates(s, d) for s in sih) for d in srcs)
    ctx.check("%s:order:fetch:doc-after-identity-head" % prefix, ok2,
              "the identity document handed back to the service (used for the visibility of the refs announcement that follows the fetch) is loaded "
              "after the identity head was recomputed — loaded before, it is the document from before the fetch", rules.where(fn, srcs[0]), fn=fn)
