"""Silence test: apply the behaviour-preserving refactors of /verif/silence/refactors.py to a scratch copy of /repo,
re-extract, run every claimed check and require that none reports a violation it does not report on the unchanged tree.

usage: python3 -m hw.silence [group ...]"""
import importlib
import json
import os
import shutil
import sys
import tempfile

from . import extract, mutate
from .facts import DB
from .report import Ctx, VERIF, load_known


def plan_rounds(refactors, groups):
    """Partition the groups into rounds such that the groups of one round apply together (two refactors of the same
    site cannot)."""
    order = []
    for g, *_ in refactors.REFACTORS:
        if (not groups or g in groups) and g not in order:
            order.append(g)
    rounds = []
    left = order
    while left:
        files = {}
        took, rest = [], []
        for g in left:
            trial = dict(files)
            ok = True
            for g2, rel, old, new, cnt in refactors.REFACTORS:
                if g2 != g:
                    continue
                s = trial.get(rel)
                if s is None:
                    s = open(os.path.join(extract.REPO, rel)).read()
                if s.count(old) != cnt:
                    ok = False
                    break
                trial[rel] = s.replace(old, new)
            if ok:
                files = trial
                took.append(g)
            else:
                rest.append(g)
        if not took:
            print("silence: refactors %s do not apply to the tree" % rest)
            return None
        rounds.append(took)
        left = rest
    return rounds


def run_round(refactors, groups):
    root = mutate.make_scratch()
    out = tempfile.mkdtemp(prefix="hw-facts-", dir=mutate.SCRATCH_BASE)
    try:
        n = 0
        for g, rel, old, new, cnt in refactors.REFACTORS:
            if g not in groups:
                continue
            p = os.path.join(root, rel)
            s = open(p).read()
            if s.count(old) != cnt:
                print("silence: refactor %s does not apply to %s (%d occurrences, expected %d)" % (g, rel, s.count(old), cnt))
                return 2
            open(p, "w").write(s.replace(old, new))
            n += 1
        rc, log, secs = extract.run_extraction(root, out)
        if rc != 0:
            print(log[-3000:])
            print("silence: refactored tree does not compile")
            return 2
        man = json.load(open(os.path.join(VERIF, "MANIFEST.json")))
        known = load_known()
        bad = 0
        db = DB(out)
        d0, h0 = extract.ensure_facts()
        db0 = DB(d0)
        for c in man["checks"]:
            pid = c["property_id"]
            mod = importlib.import_module("hw.props.%s" % pid.lower())
            ctx0 = Ctx(pid, "quick", db0, h0)
            mod.run(ctx0)
            base = set(o["key"] for o in ctx0.obs if o["status"] == "violated")
            ctx = Ctx(pid, "quick", db, "silence")
            mod.run(ctx)
            viol = [o for o in ctx.obs if o["status"] == "violated" and o["key"] not in base and (pid, o["key"]) not in known]
            inc0 = sum(1 for o in ctx0.obs if o["status"] == "inconclusive")
            inc = sum(1 for o in ctx.obs if o["status"] == "inconclusive")
            print("  %s: %d obligations (%d on the unchanged tree), %d new violations, inconclusive %d -> %d" % (
                pid, len(ctx.obs), len(ctx0.obs), len(viol), inc0, inc))
            for o in viol:
                bad += 1
                print("     FALSE ALARM %s\n        %s\n        at %s" % (o["key"], o["what"][:300], o["where"]))
        print("silence round %s: %d refactor edits applied, %d false alarms" % (",".join(groups), n, bad))
        return 1 if bad else 0
    finally:
        shutil.rmtree(root, ignore_errors=True)
        shutil.rmtree(out, ignore_errors=True)


def main(argv):
    sys.path.insert(0, os.path.join(VERIF, "silence"))
    import refactors
    rounds = plan_rounds(refactors, set(argv) or None)
    if rounds is None:
        return 2
    rc = 0
    for r in rounds:
        rc = max(rc, run_round(refactors, r))
    print("silence test: %d round(s), %s" % (len(rounds), "silent" if rc == 0 else "NOT silent (rc %d)" % rc))
    return rc


if __name__ == "__main__":
    sys.exit(main(sys.argv[1:]))
