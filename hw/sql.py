"""SQL lints over string constants that reach `Connection::prepare` (taken from MIR
constants of the analysed build, not from source text)."""
import re

from . import cfg, rules
from .cfg import expr_operand, peel_calls

PREPARE = re.compile(r"^sqlite::connection::Connection::prepare$|^sqlite::connection::ConnectionThreadSafe::prepare$|::prepare$")

KW = {"INSERT", "INTO", "VALUES", "ON", "CONFLICT", "DO", "UPDATE", "SET", "WHERE", "RETURNING", "DELETE",
      "SELECT", "FROM", "GROUP", "ORDER", "BY", "AND", "OR", "NOT", "IS", "NULL", "AS", "LIMIT", "IN", "NOTHING",
      "OFFSET", "JOIN", "LEFT", "INNER", "HAVING", "LIKE", "BETWEEN", "CASE", "WHEN", "THEN", "ELSE", "END", "REPLACE"}

TOK = re.compile(r"\s*(`[^`]*`|'[^']*'|\"[^\"]*\"|\?\d*|<>|!=|<=|>=|==|->>|->|\|\||[A-Za-z_][A-Za-z_0-9.$]*|\d+|[(),;*<>=+\-/.])")


def tokenize(s):
    out = []
    i = 0
    while i < len(s):
        m = TOK.match(s, i)
        if not m:
            if s[i].isspace():
                i += 1
                continue
            out.append(s[i])
            i += 1
            continue
        t = m.group(1)
        i = m.end()
        if t.upper() in KW:
            t = t.upper()
        elif t.startswith("`"):
            t = t[1:-1]
        out.append(t)
    return out


def statements(db, units=None, file_filter=None):
    """[(fn, bb, sql)] for every prepare() call with a constant SQL string."""
    out = []
    for fn in db.all_fns():
        if file_filter and not file_filter(fn["file"]):
            continue
        for bb, t, c in db.calls(fn):
            n = c.get("n") or ""
            if not n.endswith("::prepare") or "sqlite" not in n:
                continue
            if len(t[2]) < 2:
                continue
            sqls = const_strs(fn, t[2][1])
            for s in sqls:
                out.append((fn, bb, s))
            if not sqls:
                out.append((fn, bb, None))
    return out


def const_strs(fn, op, depth=0):
    """String constants an operand may hold (follows locals and format-free branches)."""
    if op[0] == "k":
        s = op[1].get("s")
        return [s] if s is not None else []
    e = peel_calls(expr_operand(fn, op))
    if e[0] == "const" and "s" in e[1]:
        return [e[1]["s"]]
    if e[0] == "phi":
        from .flow import def_exprs
        res = []
        for d in def_exprs(fn, e[1]):
            d = peel_calls(d)
            if d[0] == "const" and "s" in d[1]:
                res.append(d[1]["s"])
        return res
    return []


def split_clauses(toks):
    """Return dict of clause name -> token list for the top-level clauses of one statement."""
    heads = ("INSERT", "VALUES", "ON CONFLICT", "DO UPDATE", "SET", "WHERE", "RETURNING", "DELETE", "SELECT",
             "FROM", "GROUP", "ORDER", "UPDATE", "LIMIT")
    clauses = []
    cur = None
    depth = 0
    i = 0
    while i < len(toks):
        t = toks[i]
        if t == "(":
            depth += 1
        elif t == ")":
            depth -= 1
        head = None
        if depth == 0:
            two = "%s %s" % (t, toks[i + 1]) if i + 1 < len(toks) else ""
            if two in ("ON CONFLICT", "DO UPDATE"):
                head = two
                i += 1
            elif t in heads and not (t == "UPDATE" and cur and cur[0] == "DO UPDATE"):
                head = t
        if head:
            cur = (head, [])
            clauses.append(cur)
        elif cur:
            cur[1].append(t)
        i += 1
    return clauses


def conjuncts(toks):
    """Split a WHERE token list on top-level AND."""
    out = []
    cur = []
    depth = 0
    for t in toks:
        if t == "(":
            depth += 1
        elif t == ")":
            depth -= 1
        if depth == 0 and t == "AND":
            out.append(cur)
            cur = []
        else:
            cur.append(t)
    if cur:
        out.append(cur)
    return out


def upsert_info(sql):
    """For `INSERT .. ON CONFLICT DO UPDATE SET .. WHERE ..` return
    {"table", "set": {col: expr tokens}, "where": [conjunct tokens]} or None."""
    toks = tokenize(sql)
    cl = split_clauses(toks)
    names = [c[0] for c in cl]
    if "DO UPDATE" not in names:
        return None
    table = None
    for h, body in cl:
        if h == "INSERT" and body and body[0] == "INTO" and len(body) > 1:
            table = body[1]
    i = names.index("DO UPDATE")
    sets = {}
    where = []
    for h, body in cl[i + 1:]:
        if h == "SET":
            for part in _split_commas(body):
                if len(part) >= 3 and part[1] == "=":
                    sets[part[0]] = part[2:]
        elif h == "WHERE":
            where = conjuncts(body)
        elif h in ("RETURNING",):
            break
    return {"table": table, "set": sets, "where": where}


def _split_commas(toks):
    out, cur, depth = [], [], 0
    for t in toks:
        if t == "(":
            depth += 1
        elif t == ")":
            depth -= 1
        if t == "," and depth == 0:
            out.append(cur)
            cur = []
        else:
            cur.append(t)
    if cur:
        out.append(cur)
    return out


def lint_monotone_upsert(sql, col="timestamp"):
    """B1: `SET .. <col> = ?k .. WHERE <col> < ?k` (strict, same placeholder).
    Returns (ok, message)."""
    info = upsert_info(sql)
    if info is None:
        return None, "not an upsert"
    if col not in info["set"]:
        return None, "upsert does not set %s" % col
    ph = info["set"][col]
    if len(ph) != 1 or not ph[0].startswith("?"):
        return False, "%s is set to a non-placeholder expression %s" % (col, " ".join(ph))
    k = ph[0]
    for c in info["where"]:
        c2 = [t for t in c if t not in ("(", ")")]
        if c2 == [col, "<", k] or c2 == [k, ">", col]:
            return True, "WHERE %s < %s" % (col, k)
    return False, "DO UPDATE lacks the strict guard `WHERE %s < %s` (found: %s)" % (
        col, k, " AND ".join(" ".join(c) for c in info["where"]) or "no WHERE")


def lint_value_change(sql, col):
    """B2: `AND <col> <> ?v` with ?v the placeholder assigned to <col> in SET."""
    info = upsert_info(sql)
    if info is None or col not in info["set"]:
        return None, "not an upsert setting %s" % col
    ph = info["set"][col]
    if len(ph) != 1 or not ph[0].startswith("?"):
        return False, "%s is set to %s" % (col, " ".join(ph))
    v = ph[0]
    for c in info["where"]:
        c2 = [t for t in c if t not in ("(", ")")]
        if c2 in ([col, "<>", v], [col, "!=", v], [v, "<>", col], [v, "!=", col]):
            return True, "AND %s <> %s" % (col, v)
    return False, "DO UPDATE lacks the value-change guard `%s <> %s`" % (col, v)


def binds(fn):
    """`stmt.bind((k, value))` calls of fn -> [(k:int, value expr, bb)]"""
    out = []
    for i, b in enumerate(fn["blocks"]):
        if b.get("c"):
            continue
        t = b["t"]
        if t[0] != "call":
            continue
        n = t[1].get("n") or ""
        if not n.endswith("::bind") or "sqlite" not in n:
            continue
        if len(t[2]) < 2:
            continue
        e = cfg.peel(expr_operand(fn, t[2][1]))
        if e[0] == "agg" and e[1] == "tuple" and len(e[2]) == 2:
            k = cfg.peel(e[2][0])
            if k[0] == "const" and "v" in k[1]:
                out.append((int(k[1]["v"]), e[2][1], i))
    return out
