"""Per-function control-flow graph utilities over hwx facts: successors without
unwind edges, dominators, def-use, symbolic expressions of operands, and the
facts implied by taking a conditional edge."""
import re

from .facts import strip_generics, strip_type_args

MAXD = 14


class G:
    def __init__(self, fn):
        self.fn = fn
        bl = fn["blocks"]
        n = len(bl)
        self.n = n
        self.succ = [[] for _ in range(n)]      # [(target, label)]
        self.pred = [[] for _ in range(n)]
        for i, b in enumerate(bl):
            if b.get("c"):
                continue
            t = b["t"]
            k = t[0]
            outs = []
            if k == "goto":
                outs.append((t[1], None))
            elif k == "switch":
                for v, tb in t[2]:
                    outs.append((tb, int(v)))
                outs.append((t[3], "otherwise"))
            elif k == "call":
                if t[4] is not None:
                    outs.append((t[4], None))
            elif k == "drop":
                outs.append((t[2], None))
            elif k == "assert":
                outs.append((t[4], None))
            for tb, lab in outs:
                self.succ[i].append((tb, lab))
                self.pred[tb].append((i, lab))
        self._idom = None
        self._defs = None
        self._reach0 = None

    # ---------------------------------------------------------- reachability
    def reach(self, starts, avoid_blocks=(), avoid_edges=()):
        """Blocks reachable from `starts` (inclusive) without entering
        avoid_blocks and without taking avoid_edges {(src, dst, label)} or {(src,dst)}."""
        avoid_blocks = set(avoid_blocks)
        avoid_edges = set(avoid_edges)
        seen = set()
        work = [s for s in starts if s not in avoid_blocks]
        while work:
            b = work.pop()
            if b in seen:
                continue
            seen.add(b)
            for tb, lab in self.succ[b]:
                if tb in avoid_blocks or tb in seen:
                    continue
                if (b, tb, lab) in avoid_edges or (b, tb) in avoid_edges:
                    continue
                work.append(tb)
        return seen

    # ------------------------------------------------ feasibility-aware reachability
    def switch_place(self, bb):
        """If block bb switches on `discriminant(P)`, return P as a hashable key."""
        cache = self.__dict__.setdefault("_swp", {})
        if bb in cache:
            return cache[bb]
        t = self.fn["blocks"][bb]["t"]
        res = None
        if t[0] == "switch" and t[1][0] in ("c", "m") and not t[1][1][1]:
            l = t[1][1][0]
            ds = self.defs().get(l, [])
            if len(ds) == 1 and ds[0][0] == "stmt" and ds[0][3][0] == "discr":
                pl = ds[0][3][1]
                res = (pl[0], tuple(pl[1]))
            elif ds and all(d[0] == "stmt" and d[4] and d[3][0] == "use" and d[3][1][0] == "k" and "v" in d[3][1][1] for d in ds):
                # a flag local only ever assigned constants (`matches!`, drop flags): track its value
                res = (l, ("const",))
        cache[bb] = res
        return res

    def const_sets(self, bb):
        """[(place key, value)] for constant assignments to flag locals in block bb (last wins)."""
        cache = self.__dict__.setdefault("_csets", {})
        if bb in cache:
            return cache[bb]
        out = {}
        for s in self.fn["blocks"][bb]["s"]:
            if s[0] == "=" and not s[1][1] and s[2][0] == "use" and s[2][1][0] == "k" and "v" in s[2][1][1]:
                l = s[1][0]
                ds = self.defs().get(l, [])
                if ds and all(d[0] == "stmt" and d[4] and d[3][0] == "use" and d[3][1][0] == "k" and "v" in d[3][1][1] for d in ds):
                    out[(l, ("const",))] = int(s[2][1][1]["v"])
        tc = self.tested()
        res = [(k, v) for k, v in out.items() if tc.get(k, 0) >= 1]
        cache[bb] = res
        return res

    def kills(self, bb):
        """Locals wholly (re)assigned in block bb."""
        cache = self.__dict__.setdefault("_kills", {})
        if bb in cache:
            return cache[bb]
        ks = set()
        b = self.fn["blocks"][bb]
        for s in b["s"]:
            if s[0] == "=" and not s[1][1]:
                ks.add(s[1][0])
            elif s[0] == "sd":
                ks.add(s[1][0])
        t = b["t"]
        if t[0] == "call":
            ks.add(t[3][0])
        cache[bb] = ks
        return ks

    def tested(self):
        """place key -> number of (non-cleanup) switch blocks that test it.  Knowledge about a place that
        is tested only once can never contradict a later test, so it is not tracked (keeps the state space small)."""
        tc = self.__dict__.get("_tested")
        if tc is None:
            tc = {}
            for i, b in enumerate(self.fn["blocks"]):
                if b.get("c") or b["t"][0] != "switch":
                    continue
                pl = self.switch_place(i)
                if pl is not None:
                    tc[pl] = tc.get(pl, 0) + 1
            self.__dict__["_tested"] = tc
        return tc

    def edge_know(self, b, tb, lab, know):
        """Knowledge after taking edge b->tb, or None if the edge contradicts `know`
        (a re-test of a discriminant whose value is already fixed on this path)."""
        pl = self.switch_place(b)
        if pl is None:
            return know
        if self.tested().get(pl, 0) < 2 and pl[1] != ("const",):
            return know
        t = self.fn["blocks"][b]["t"]
        if lab == "otherwise":
            listed = frozenset(int(v) for v, _ in t[2])
            cur = dict(know).get(pl)
            if cur is not None and cur[0] == "is" and cur[1] in listed:
                return None
            if cur is not None:
                return know
            return know | {(pl, ("not", listed))}
        cur = dict(know).get(pl)
        if cur is not None:
            if cur[0] == "is" and cur[1] != lab:
                return None
            if cur[0] == "not" and lab in cur[1]:
                return None
        return frozenset(x for x in know if x[0] != pl) | {(pl, ("is", lab))}

    def reach_k(self, starts, avoid_blocks=(), avoid_edges=()):
        """Like reach(), but starts = [(block, knowledge)] and paths that re-test a
        discriminant with a contradicting outcome are not followed.  Returns
        {block: predecessor-state} for path reconstruction via path_k()."""
        avoid_blocks = set(avoid_blocks)
        avoid_edges = set(avoid_edges)
        seen = {}
        work = []
        for b, k in starts:
            if b in avoid_blocks:
                continue
            k = frozenset(x for x in k if x[0][0] not in self.kills(b))
            cs = self.const_sets(b)
            if cs:
                k = frozenset(x for x in k if x[0] not in dict(cs)) | frozenset((pk, ("is", v)) for pk, v in cs)
            work.append(((b, k), None))
        blocks = {}
        while work:
            st, prev = work.pop()
            if st in seen:
                continue
            seen[st] = prev
            b, know = st
            blocks.setdefault(b, st)
            for tb, lab in self.succ[b]:
                if tb in avoid_blocks:
                    continue
                if (b, tb, lab) in avoid_edges or (b, tb) in avoid_edges:
                    continue
                k2 = self.edge_know(b, tb, lab, know)
                if k2 is None:
                    continue
                kl = self.kills(tb)
                if kl:
                    k2 = frozenset(x for x in k2 if x[0][0] not in kl)
                cs = self.const_sets(tb)
                if cs:
                    k2 = frozenset(x for x in k2 if x[0] not in dict(cs)) | frozenset((pk, ("is", v)) for pk, v in cs)
                st2 = (tb, k2)
                if st2 not in seen:
                    work.append((st2, st))
        self._last_seen = seen
        return blocks

    def path_k(self, blocks, dst):
        st = blocks.get(dst)
        out = []
        seen = self._last_seen
        while st is not None:
            out.append(st[0])
            st = seen.get(st)
        return out[::-1]

    def can_return(self):
        """Blocks from which a `return` is reachable (others end in panic/abort/unreachable)."""
        cr = self.__dict__.get("_canret")
        if cr is None:
            cr = set()
            work = [i for i, b in enumerate(self.fn["blocks"]) if b["t"][0] == "ret" and not b.get("c")]
            while work:
                b = work.pop()
                if b in cr:
                    continue
                cr.add(b)
                for p, _ in self.pred[b]:
                    if p not in cr:
                        work.append(p)
            self.__dict__["_canret"] = cr
        return cr

    def is_assertion_edge(self, b, t):
        """Edge b->t is the passing side of an assertion: every other real successor of b diverges."""
        sib = [x for x, _ in self.succ[b] if x != t]
        real = [x for x in sib if not (self.fn["blocks"][x]["t"][0] == "unreachable" and not self.fn["blocks"][x]["s"])]
        if not real:
            return False
        cr = self.can_return()
        return all(x not in cr for x in real)

    def reachable_blocks(self):
        if self._reach0 is None:
            self._reach0 = self.reach([0])
        return self._reach0

    def path(self, src, dst, avoid_blocks=(), avoid_edges=()):
        """One block path src..dst (BFS) honouring the same restrictions, or None."""
        avoid_blocks = set(avoid_blocks)
        avoid_edges = set(avoid_edges)
        from collections import deque
        prev = {src: None}
        q = deque([src])
        while q:
            b = q.popleft()
            if b == dst:
                out = []
                while b is not None:
                    out.append(b)
                    b = prev[b]
                return out[::-1]
            for tb, lab in self.succ[b]:
                if tb in prev or tb in avoid_blocks:
                    continue
                if (b, tb, lab) in avoid_edges or (b, tb) in avoid_edges:
                    continue
                prev[tb] = b
                q.append(tb)
        return None

    # ---------------------------------------------------------- dominators
    def idom(self):
        if self._idom is not None:
            return self._idom
        order = []
        seen = set()
        stack = [(0, iter(self.succ[0]))]
        seen.add(0)
        while stack:
            b, it = stack[-1]
            adv = False
            for tb, _ in it:
                if tb not in seen:
                    seen.add(tb)
                    stack.append((tb, iter(self.succ[tb])))
                    adv = True
                    break
            if not adv:
                order.append(b)
                stack.pop()
        rpo = order[::-1]
        idx = {b: i for i, b in enumerate(rpo)}
        idom = {0: 0}
        changed = True
        while changed:
            changed = False
            for b in rpo[1:]:
                new = None
                for p, _ in self.pred[b]:
                    if p in idom:
                        if new is None:
                            new = p
                        else:
                            a, c = p, new
                            while a != c:
                                while idx[a] > idx[c]:
                                    a = idom[a]
                                while idx[c] > idx[a]:
                                    c = idom[c]
                            new = a
                if new is not None and idom.get(b) != new:
                    idom[b] = new
                    changed = True
        self._idom = idom
        return idom

    def dominates(self, a, b):
        idom = self.idom()
        if b not in idom:
            return False
        while True:
            if a == b:
                return True
            if b == 0:
                return False
            b = idom[b]

    # ---------------------------------------------------------- defs
    def defs(self):
        """local -> list of defs; def = ('stmt', bb, idx, rvalue, whole) |
        ('call', bb, term) ; `whole` False when the lhs has projections."""
        if self._defs is not None:
            return self._defs
        d = {}
        for i, b in enumerate(self.fn["blocks"]):
            if b.get("c"):
                continue
            for j, s in enumerate(b["s"]):
                if s[0] == "=":
                    pl = s[1]
                    d.setdefault(pl[0], []).append(("stmt", i, j, s[2], not pl[1]))
                elif s[0] == "sd":
                    d.setdefault(s[1][0], []).append(("sd", i, j, None, False))
            t = b["t"]
            if t[0] == "call":
                pl = t[3]
                d.setdefault(pl[0], []).append(("call", i, t, None, not pl[1]))
        self._defs = d
        return d


def graph(fn):
    g = getattr(fn, "_g", None)
    if g is None:
        g = G(fn)
        fn._g = g
    return g


# ---------------------------------------------------------------- expressions
# ('const', dict) ('arg', n) ('phi', local) ('call', callee, [args], bb)
# ('ref', e) ('deref', e) ('field', e, name, idx) ('down', e, variant)
# ('bin', op, a, b) ('un', op, a) ('cast', kind, e, ty) ('discr', e, ty)
# ('agg', kind, [e]) ('index', e) ('unknown', text)

def expr_local(fn, local, depth=0, seen=None):
    g = graph(fn)
    if seen is None:
        seen = frozenset()
    if local in seen or depth > MAXD:
        return ("phi", local)
    ds = g.defs().get(local, [])
    whole = [x for x in ds if x[4]]
    if len(ds) == 1 and len(whole) == 1:
        x = whole[0]
        seen2 = seen | {local}
        if x[0] == "stmt":
            return expr_rvalue(fn, x[3], depth + 1, seen2)
        if x[0] == "call":
            t = x[2]
            return ("call", t[1], [expr_operand(fn, a, depth + 1, seen2) for a in t[2]], x[1])
    if not whole and 1 <= local <= fn["nargs"]:
        return ("arg", local)
    return ("phi", local)


def expr_place(fn, place, depth=0, seen=None):
    local, proj = place
    e = expr_local(fn, local, depth, seen)
    for p in proj:
        if p == "*":
            if e[0] == "ref":
                e = e[1]
            else:
                e = ("deref", e)
        elif p.startswith("."):
            idx, _, name = p[1:].partition(":")
            if e[0] == "agg" and int(idx) < len(e[2]) and e[1] != "array":
                e = e[2][int(idx)]
            else:
                e = ("field", e, name, int(idx))
        elif p.startswith("@"):
            idx, _, name = p[1:].partition(":")
            e = ("down", e, name)
        else:
            e = ("index", e)
    return e


def expr_operand(fn, op, depth=0, seen=None):
    if op[0] == "k":
        return ("const", op[1])
    if op[0] in ("c", "m"):
        return expr_place(fn, op[1], depth, seen)
    return ("unknown", str(op))


def expr_rvalue(fn, rv, depth=0, seen=None):
    k = rv[0]
    if k == "use":
        return expr_operand(fn, rv[1], depth, seen)
    if k == "ref":
        return ("ref", expr_place(fn, rv[2], depth, seen))
    if k == "raw":
        return ("ref", expr_place(fn, rv[2], depth, seen))
    if k == "cast":
        return ("cast", rv[1], expr_operand(fn, rv[2], depth, seen), rv[3])
    if k == "bin":
        return ("bin", rv[1], expr_operand(fn, rv[2], depth, seen), expr_operand(fn, rv[3], depth, seen))
    if k == "un":
        return ("un", rv[1], expr_operand(fn, rv[2], depth, seen))
    if k == "discr":
        return ("discr", expr_place(fn, rv[1], depth, seen), rv[2] if len(rv) > 2 else "", rv[3] if len(rv) > 3 else None)
    if k == "agg":
        return ("agg", rv[1], [expr_operand(fn, o, depth, seen) for o in rv[2]])
    return ("unknown", k)


def peel(e):
    """Strip ref/deref/copy-like wrappers."""
    while e[0] in ("ref", "deref") or (e[0] == "cast" and e[1] in ("PointerCoercion", "PtrToPtr")):
        e = e[1] if e[0] != "cast" else e[2]
    return e


TRANSPARENT = (
    "core::ops::deref::Deref::deref", "core::ops::deref::DerefMut::deref_mut",
    "core::clone::Clone::clone", "core::convert::AsRef::as_ref", "core::borrow::Borrow::borrow",
    "core::convert::Into::into", "core::convert::From::from", "core::option::Option::as_ref",
    "core::result::Result::as_ref", "core::option::Option::as_deref", "core::borrow::ToOwned::to_owned",
    "core::option::Option::copied", "core::option::Option::cloned",
)


def peel_calls(e, extra=()):
    """Strip wrappers including value-preserving calls (deref/clone/as_ref/into)."""
    while True:
        e = peel(e)
        if e[0] == "call" and e[1].get("dn") in TRANSPARENT + tuple(extra) and e[2]:
            e = e[2][0]
            continue
        return e


def callee_is(e, rx):
    """e is a call expression whose callee name matches regex rx (resolved or declared)."""
    if e[0] != "call":
        return False
    c = e[1]
    n = c.get("n")
    if n and rx.search(n):
        return True
    d = c.get("dn")
    return bool(d and rx.search(d))


def show(e, depth=0):
    if depth > 6:
        return "…"
    k = e[0]
    if k == "const":
        c = e[1]
        if "v" in c:
            return "%s" % c["v"]
        if "s" in c:
            return repr(c["s"])
        if "fn" in c:
            return "fn:" + strip_generics(c["fn"])
        if "static" in c:
            return "static:" + c["static"]
        return "const(%s)" % c.get("t")
    if k == "arg":
        return "arg%d" % e[1]
    if k == "phi":
        return "_%d" % e[1]
    if k == "call":
        n = e[1].get("n") or "indirect"
        return "%s(%s)" % (short(n), ", ".join(show(a, depth + 1) for a in e[2]))
    if k == "ref":
        return "&" + show(e[1], depth)
    if k == "deref":
        return "*" + show(e[1], depth)
    if k == "field":
        return "%s.%s" % (show(e[1], depth), e[2] or e[3])
    if k == "down":
        return "%s as %s" % (show(e[1], depth), e[2])
    if k == "bin":
        return "(%s %s %s)" % (show(e[2], depth + 1), e[1], show(e[3], depth + 1))
    if k == "un":
        return "%s(%s)" % (e[1], show(e[2], depth + 1))
    if k == "cast":
        return "(%s as %s)" % (show(e[2], depth + 1), short(e[3]))
    if k == "discr":
        return "discr(%s)" % show(e[1], depth + 1)
    if k == "agg":
        kind = e[1]
        if isinstance(kind, dict):
            kn = kind.get("adt") or kind.get("closure") or "?"
            if kind.get("var") and kind.get("adt"):
                kn = short(kn) + "::" + kind["var"]
        else:
            kn = kind
        return "%s{%s}" % (short(kn), ", ".join(show(a, depth + 1) for a in e[2]))
    if k == "index":
        return show(e[1], depth) + "[..]"
    if k == "upd":
        return "%s with .%s = %s" % (show(e[1], depth + 1), e[2] or e[3], show(e[4], depth + 1))
    return "?%s" % (e[1:],)


def short(n):
    n = strip_generics(n)
    if n.startswith("<") and " as " in n:
        return n
    parts = n.split("::")
    return "::".join(parts[-2:]) if len(parts) > 2 else n


# ---------------------------------------------------------------- edge facts
STD_VARIANTS = {
    "core::option::Option": {0: "None", 1: "Some"},
    "core::result::Result": {0: "Ok", 1: "Err"},
    "core::ops::control_flow::ControlFlow": {0: "Continue", 1: "Break"},
    "core::cmp::Ordering": {-1: "Less", 0: "Equal", 1: "Greater", 255: "Less"},
}

NEG = {"Eq": "Ne", "Ne": "Eq", "Lt": "Ge", "Ge": "Lt", "Gt": "Le", "Le": "Gt"}


def type_head(ty):
    """`a::B<..>` -> `a::B`; qualified-path types (`<T as Tr>::X`) are returned unchanged."""
    t = ty.strip()
    if t.startswith("<"):
        return t
    i = t.find("<")
    return t if i == -1 else t[:i]


def adt_of_type(ty):
    t = ty
    while t.startswith("&"):
        t = t[1:].lstrip()
        if t.startswith("mut "):
            t = t[4:]
        if t.startswith("'"):
            t = t.split(" ", 1)[1] if " " in t else t
    return type_head(t)


def variant_names(db, ty):
    """discriminant value -> variant name for the enum type string `ty`."""
    a = adt_of_type(ty)
    if a in STD_VARIANTS:
        return dict(STD_VARIANTS[a]), a
    rec = db.adts.get(a)
    if rec and rec["kind"] == "Enum":
        return {int(v["discr"]): v["n"] for v in rec["variants"]}, a
    return None, a


def decompose(db, e, val, out, depth=0):
    """`e` evaluates to `val` = ('is', n) | ('not', {n..}).  Append atomic facts:
       ('variant', inner_expr, adt, name, positive)
       ('bool', expr, True|False)
       ('cmp', op, a, b)
    """
    if depth > 10:
        return
    e0 = e
    e = peel(e)
    k = e[0]

    def as_bool():
        if val[0] == "is":
            return val[1] != 0
        if val[0] == "not" and val[1] == {0}:
            return True
        if val[0] == "not" and val[1] == {1}:
            return False
        return None

    if k == "un" and e[1] == "Not":
        b = as_bool()
        if b is not None:
            decompose(db, e[2], ("is", 0 if b else 1), out, depth + 1)
        return
    if k == "bin" and e[1] in NEG:
        b = as_bool()
        if b is not None:
            out.append(("cmp", e[1] if b else NEG[e[1]], e[2], e[3]))
        return
    if k == "bin" and e[1] in ("BitAnd", "BitOr"):
        b = as_bool()
        if b is not None:
            if (e[1] == "BitAnd" and b) or (e[1] == "BitOr" and not b):
                decompose(db, e[2], ("is", 1 if b else 0), out, depth + 1)
                decompose(db, e[3], ("is", 1 if b else 0), out, depth + 1)
            else:
                out.append(("bool", e, b))
        return
    if k == "discr":
        names, adt = variant_names(db, e[2])
        if len(e) > 3 and e[3]:
            names = {}
            for v, nme in e[3]:
                iv = int(v)
                names[iv] = nme
                if iv >= (1 << 127):
                    names[iv - (1 << 128)] = nme
        inner = e[1]
        if names is None:
            out.append(("discrval", inner, val))
            return
        if val[0] == "is":
            vs = [(names.get(val[1]), True)]
        else:
            rest = [n for v, n in names.items() if v not in val[1]]
            if len(set(rest)) == 1:
                vs = [(rest[0], True)]
            else:
                vs = [(names.get(v), False) for v in val[1]]
        for name, pos in vs:
            if name is None:
                continue
            out.append(("variant", inner, adt, name, pos))
            if pos:
                refine_variant(db, inner, adt, name, out, depth + 1)
        return
    if k == "call":
        c = e[1]
        dn = c.get("dn") or ""
        b = as_bool()
        if b is None:
            out.append(("value", e, val))
            return
        args = e[2]
        if dn in ("core::result::Result::is_ok", "core::result::Result::is_err",
                  "core::option::Option::is_some", "core::option::Option::is_none") and args:
            pos = {"is_ok": "Ok", "is_err": "Err", "is_some": "Some", "is_none": "None"}[dn.rsplit("::", 1)[1]]
            other = {"Ok": "Err", "Err": "Ok", "Some": "None", "None": "Some"}[pos]
            adt = "core::result::Result" if pos in ("Ok", "Err") else "core::option::Option"
            name = pos if b else other
            inner = peel(args[0])
            out.append(("variant", inner, adt, name, True))
            refine_variant(db, inner, adt, name, out, depth + 1)
            return
        if dn in ("core::cmp::PartialEq::eq", "core::cmp::PartialEq::ne") and len(args) == 2:
            op = "Eq" if dn.endswith("eq") else "Ne"
            out.append(("cmp", op if b else NEG[op], peel(args[0]), peel(args[1])))
            out.append(("bool", e, b))
            return
        if dn in ("core::cmp::PartialOrd::lt", "core::cmp::PartialOrd::le",
                  "core::cmp::PartialOrd::gt", "core::cmp::PartialOrd::ge") and len(args) == 2:
            op = {"lt": "Lt", "le": "Le", "gt": "Gt", "ge": "Ge"}[dn.rsplit("::", 1)[1]]
            out.append(("cmp", op if b else NEG[op], peel(args[0]), peel(args[1])))
            out.append(("bool", e, b))
            return
        if dn == "core::ops::bit::Not::not" and args:
            decompose(db, args[0], ("is", 0 if b else 1), out, depth + 1)
            return
        # `(a..=b).contains(&x)` / `(a..b).contains(&x)`: when true, x is within the bounds
        if re.search(r"^core::ops::range::(RangeInclusive|Range|RangeFrom|RangeTo|RangeToInclusive)::contains$", dn) and len(args) == 2:
            out.append(("bool", e, b))
            if b:
                r_ = peel(args[0])
                x = peel(args[1])
                lo = hi = None
                incl = "Inclusive" in dn
                if r_[0] == "call" and (r_[1].get("dn") or "").endswith("RangeInclusive::new") and len(r_[2]) == 2:
                    lo, hi = peel(r_[2][0]), peel(r_[2][1])
                elif r_[0] == "agg" and isinstance(r_[1], dict) and "range::Range" in (r_[1].get("adt") or ""):
                    names = r_[1].get("fields") or []
                    for nm, op in zip(names, r_[2]):
                        if nm == "start":
                            lo = peel(op)
                        elif nm == "end":
                            hi = peel(op)
                if lo is not None:
                    out.append(("cmp", "Ge", x, lo))
                if hi is not None:
                    out.append(("cmp", "Le" if incl else "Lt", x, hi))
            return
        # `opt.is_some_and(|v| p(v))`: when true, opt is Some and the closure's result is true
        if dn in ("core::option::Option::is_some_and", "core::result::Result::is_ok_and") and len(args) == 2:
            out.append(("bool", e, b))
            if b:
                nm = "Some" if dn.endswith("is_some_and") else "Ok"
                adt = "core::option::Option" if nm == "Some" else "core::result::Result"
                out.append(("variant", peel(args[0]), adt, nm, True))
                c_ = peel(args[1])
                if c_[0] == "agg" and isinstance(c_[1], dict) and c_[1].get("closure") and db is not None:
                    for cf in db.by_key.get(strip_generics(c_[1]["closure"]), []):
                        rets = []
                        for i_, b_ in enumerate(cf["blocks"]):
                            if b_.get("c"):
                                continue
                            t_ = b_["t"]
                            if t_[0] == "call" and t_[3][0] == 0 and not t_[3][1]:
                                rets.append(("call", t_[1], [expr_operand(cf, a_) for a_ in t_[2]], i_))
                            for s_ in b_["s"]:
                                if s_[0] == "=" and s_[1][0] == 0 and not s_[1][1]:
                                    rets.append(expr_rvalue(cf, s_[2]))
                        if len(rets) == 1:
                            decompose(db, rets[0], ("is", 1), out, depth + 1)
                        break
            return
        out.append(("bool", e, b))
        return
    b = as_bool()
    if b is not None:
        out.append(("bool", e, b))
    else:
        out.append(("value", e, val))


def refine_variant(db, inner, adt, name, out, depth):
    """Knowing `inner` is variant `name`, derive facts about what it was computed from."""
    inner = peel(inner)
    if inner[0] != "call":
        return
    dn = inner[1].get("dn") or ""
    args = inner[2]
    if dn == "core::ops::try_trait::Try::branch" and args:
        ga = inner[1].get("ga") or [""]
        selfty = type_head(ga[0]) if ga else ""
        x = peel(args[0])
        if selfty == "core::result::Result":
            nm = "Ok" if name == "Continue" else "Err"
            out.append(("variant", x, selfty, nm, True))
            refine_variant(db, x, selfty, nm, out, depth + 1)
        elif selfty == "core::option::Option":
            nm = "Some" if name == "Continue" else "None"
            out.append(("variant", x, selfty, nm, True))
            refine_variant(db, x, selfty, nm, out, depth + 1)
        return
    # value-preserving adapters on Result/Option: same variant as the receiver
    SAME = ("core::result::Result::map_err", "core::result::Result::map", "core::option::Option::map",
            "core::result::Result::as_ref", "core::option::Option::as_ref", "core::option::Option::as_mut",
            "core::result::Result::as_mut", "core::option::Option::as_deref", "core::option::Option::copied",
            "core::option::Option::cloned", "core::result::Result::copied", "core::result::Result::cloned",
            "core::option::Option::take", "core::result::Result::inspect_err", "core::result::Result::inspect")
    if dn in SAME and args:
        x = peel(args[0])
        out.append(("variant", x, adt, name, True))
        refine_variant(db, x, adt, name, out, depth + 1)
        return
    if dn == "core::result::Result::ok" and args:
        x = peel(args[0])
        nm = "Ok" if name == "Some" else "Err"
        out.append(("variant", x, "core::result::Result", nm, True))
        refine_variant(db, x, "core::result::Result", nm, out, depth + 1)
        return
    if dn == "core::result::Result::err" and args:
        x = peel(args[0])
        nm = "Err" if name == "Some" else "Ok"
        out.append(("variant", x, "core::result::Result", nm, True))
        refine_variant(db, x, "core::result::Result", nm, out, depth + 1)
        return
    if dn in ("core::option::Option::ok_or", "core::option::Option::ok_or_else") and args:
        x = peel(args[0])
        nm = "Some" if name == "Ok" else "None"
        out.append(("variant", x, "core::option::Option", nm, True))
        refine_variant(db, x, "core::option::Option", nm, out, depth + 1)
        return


def edge_facts(db, fn, bb, tb, label):
    """Atomic facts implied by taking the edge bb -> tb (label from G.succ)."""
    t = fn["blocks"][bb]["t"]
    if t[0] != "switch":
        return []
    if label == "otherwise":
        val = ("not", {int(v) for v, _ in t[2]})
    else:
        # several values may go to the same target; fact holds per label
        val = ("is", label)
    e = expr_operand(fn, t[1])
    out = []
    decompose(db, e, val, out)
    return out


def all_edge_facts(db, fn):
    """[(bb, tb, label, facts)] for every switch edge of fn."""
    g = graph(fn)
    cached = g.__dict__.get("_aef")
    if cached is not None and cached[0] is db:
        return cached[1]
    res = []
    for bb in range(g.n):
        t = fn["blocks"][bb]["t"]
        if t[0] != "switch" or fn["blocks"][bb].get("c"):
            continue
        for tb, lab in g.succ[bb]:
            res.append((bb, tb, lab, edge_facts(db, fn, bb, tb, lab)))
    g.__dict__["_aef"] = (db, res)
    return res


# ---------------------------------------------------------------- pretty print
def fmt_place(fn, pl):
    l, proj = pl
    nm = fn["locals"][l][1]
    s = "_%d" % l + ("(%s)" % nm if nm else "")
    for p in proj:
        if p == "*":
            s = "(*%s)" % s
        elif p.startswith("."):
            idx, _, name = p[1:].partition(":")
            s += "." + (name or idx)
        elif p.startswith("@"):
            s = "(%s as %s)" % (s, p[1:].partition(":")[2])
        else:
            s += p
    return s


def fmt_op(fn, op):
    if op[0] == "k":
        return show(("const", op[1]))
    if op[0] in ("c", "m"):
        return ("move " if op[0] == "m" else "") + fmt_place(fn, op[1])
    return str(op)


def fmt_rv(fn, rv):
    k = rv[0]
    if k == "use":
        return fmt_op(fn, rv[1])
    if k == "ref":
        return "&%s%s" % ("mut " if rv[1] == "mut" else "", fmt_place(fn, rv[2]))
    if k == "cast":
        return "%s as %s [%s]" % (fmt_op(fn, rv[2]), short(rv[3]), rv[1])
    if k == "bin":
        return "%s(%s, %s)" % (rv[1], fmt_op(fn, rv[2]), fmt_op(fn, rv[3]))
    if k == "un":
        return "%s(%s)" % (rv[1], fmt_op(fn, rv[2]))
    if k == "discr":
        return "discriminant(%s)" % fmt_place(fn, rv[1])
    if k == "agg":
        kind = rv[1]
        if isinstance(kind, dict):
            kn = kind.get("adt") or kind.get("closure") or "?"
            if kind.get("adt"):
                kn = short(kn) + "::" + kind["var"]
        else:
            kn = kind
        return "%s{%s}" % (kn, ", ".join(fmt_op(fn, o) for o in rv[2]))
    return str(rv)


def dump(fn):
    lines = ["fn %s  [%s:%d]" % (fn["n"], fn["file"], fn["line"])]
    for i, (ty, nm) in enumerate(fn["locals"]):
        if nm:
            lines.append("  let _%d: %s  // %s" % (i, ty, nm))
    for i, b in enumerate(fn["blocks"]):
        lines.append(" bb%d%s:" % (i, " (cleanup)" if b.get("c") else ""))
        for s in b["s"]:
            if s[0] == "=":
                lines.append("    %s = %s   // L%d" % (fmt_place(fn, s[1]), fmt_rv(fn, s[2]), s[3]))
            else:
                lines.append("    %s" % (s,))
        t = b["t"]
        if t[0] == "call":
            c = t[1]
            nm = c.get("n") or ("indirect " + str(c.get("ind")))
            lines.append("    %s = %s(%s) -> bb%s   // L%d %s" % (
                fmt_place(fn, t[3]), nm, ", ".join(fmt_op(fn, a) for a in t[2]), t[4], t[6], t[7] or ""))
        elif t[0] == "switch":
            lines.append("    switch %s [%s, otherwise: bb%d]   // L%d" % (
                fmt_op(fn, t[1]), ", ".join("%s: bb%d" % (v, tb) for v, tb in t[2]), t[3], t[5]))
        elif t[0] == "assert":
            lines.append("    assert(%s == %s, %s) -> bb%d   // L%d" % (fmt_op(fn, t[1]), t[2], t[3], t[4], t[6]))
        elif t[0] == "drop":
            lines.append("    drop(%s) -> bb%d" % (fmt_place(fn, t[1]), t[2]))
        else:
            lines.append("    %s" % (" ".join(str(x) for x in t)))
    return "\n".join(lines)


def base_value(e, through=()):
    """Strip wrappers, field/downcast projections and `?` (Try::branch) to reach the
    expression a value was unpacked from."""
    for _ in range(24):
        e = peel_calls(e, through)
        if e[0] in ("field", "down", "index"):
            e = e[1]
            continue
        if e[0] == "call" and e[1].get("dn") == "core::ops::try_trait::Try::branch" and e[2]:
            e = e[2][0]
            continue
        return e
    return e


def nshow(e):
    """show() without reference/dereference noise."""
    return show(e).replace("&", "").replace("*", "")


def walk(e, depth=0):
    """All sub-expressions of e."""
    if depth > 40 or not isinstance(e, tuple):
        return
    yield e
    for x in e[1:]:
        if isinstance(x, tuple):
            yield from walk(x, depth + 1)
        elif isinstance(x, list):
            for y in x:
                if isinstance(y, tuple):
                    yield from walk(y, depth + 1)
