"""BOUNDARY: classify usize locals used as `str` range bounds.
Class B = byte offset known to be a char boundary (0, str/String len, char::len_utf8,
results of find/rfind/char_indices/match_indices offsets, sums/differences... of B only sums);
class N = anything else (B + constant, arbitrary arithmetic).  Flow-insensitive: the class
of a local is the join over all its definitions (N absorbs)."""
import re

from .cfg import graph
from .facts import strip_generics as strip

B_CALLS = re.compile(r"^core::str::len$|^alloc::string::String::len$|^core::char::methods::len_utf8$|"
                     r"^core::str::(find|rfind)$|floor_char_boundary$|ceil_char_boundary$")


def classify(fn):
    """local -> 'B' | 'N'"""
    g = graph(fn)
    cls = {}
    defs = g.defs()

    def op_class(op):
        if op[0] == "k":
            v = op[1].get("v")
            return "B" if v == "0" else "N"
        if op[0] in ("c", "m"):
            l, proj = op[1]
            if not proj or all(p.startswith(".") for p in proj):
                return cls.get(l, "?")
            if proj == ["*"]:
                return cls.get(l, "?")
        return "N"

    for _ in range(20):
        changed = False
        for l, ds in defs.items():
            res = None
            for d in ds:
                if d[0] == "stmt":
                    rv = d[3]
                    if rv[0] == "use":
                        c = op_class(rv[1])
                    elif rv[0] == "bin" and rv[1] in ("Add", "AddWithOverflow", "AddUnchecked"):
                        a, b = op_class(rv[2]), op_class(rv[3])
                        c = "B" if a == "B" and b == "B" else ("?" if "?" in (a, b) and "N" not in (a, b) else "N")
                    elif rv[0] == "ref":
                        c = cls.get(rv[2][0], "?") if not rv[2][1] else "N"
                    else:
                        c = "N"
                elif d[0] == "call":
                    t = d[2]
                    n = t[1].get("n") or ""
                    if B_CALLS.search(n):
                        c = "B"
                    elif re.search(r"^core::option::Option::(map_or|unwrap_or)$", n):
                        # `opt.map_or(B, B-producing fn)` / `opt.unwrap_or(B)`
                        parts = []
                        for a in t[2][1:]:
                            if a[0] == "k" and "fn" in a[1]:
                                parts.append("B" if B_CALLS.search(strip(a[1].get("r") or a[1]["fn"])) else "N")
                            else:
                                parts.append(op_class(a))
                        if n.endswith("unwrap_or"):
                            parts.append(op_class(t[2][0]))
                        c = "B" if parts and all(x == "B" for x in parts) else ("?" if "?" in parts and "N" not in parts else "N")
                    elif re.search(r"^core::option::Option::map$", n) and len(t[2]) > 1 and t[2][1][0] == "k" and "fn" in t[2][1][1]:
                        c = "B" if B_CALLS.search(strip(t[2][1][1].get("r") or t[2][1][1]["fn"])) else "N"
                    elif (t[1].get("dn") or "") in ("core::ops::deref::Deref::deref", "core::clone::Clone::clone") and t[2]:
                        c = op_class(t[2][0])
                    else:
                        c = "N"
                else:
                    c = "N"
                if c == "?":
                    continue
                res = c if res is None else ("B" if res == "B" and c == "B" else "N")
            if res is not None and cls.get(l) != res:
                # monotone: B -> N only
                if cls.get(l) == "N":
                    continue
                cls[l] = res
                changed = True
        if not changed:
            break
    return cls


def str_index_sinks(fn):
    """[(bb, [(bound operand, role)])] for `str` Index<Range*> calls."""
    out = []
    for i, b in enumerate(fn["blocks"]):
        if b.get("c"):
            continue
        t = b["t"]
        if t[0] != "call":
            continue
        c = t[1]
        if (c.get("dn") or "") not in ("core::ops::index::Index::index", "core::ops::index::IndexMut::index_mut"):
            continue
        ga = c.get("ga", [])
        if not ga or ga[0].lstrip("&") not in ("str", "alloc::string::String"):
            continue
        out.append((i, t[2][1]))
    return out
