"""Generic rule primitives (WHO / DOM / EXCL / PAIR / PASS / REQ / FLOW helpers)."""
import re

from . import cfg
from .cfg import graph, peel, peel_calls, callee_is, show
from .facts import strip_generics, strip_type_args


def rx(p):
    return p if hasattr(p, "search") else re.compile(p)


# ---------------------------------------------------------------- site finders
def call_blocks(fn, pattern):
    """Blocks of fn whose terminator calls a callee matching pattern."""
    r = rx(pattern)
    out = []
    for i, b in enumerate(fn["blocks"]):
        if b.get("c"):
            continue
        t = b["t"]
        if t[0] == "call":
            c = t[1]
            n = c.get("n")
            if (n and r.search(n)) or (c.get("dn") and r.search(c["dn"])):
                out.append(i)
    return out


def agg_sites(fn, adt_pattern, variant=None):
    """(bb, stmt_idx, kind, operands) for aggregate constructions of the ADT."""
    r = rx(adt_pattern)
    out = []
    for i, b in enumerate(fn["blocks"]):
        if b.get("c"):
            continue
        for j, s in enumerate(b["s"]):
            if s[0] == "=" and s[2][0] == "agg" and isinstance(s[2][1], dict):
                k = s[2][1]
                if k.get("adt") and r.search(k["adt"]) and (variant is None or k.get("var") == variant):
                    out.append((i, j, k, s[2][2]))
    return out


def ctor_fn_uses(fn, adt_pattern):
    """Uses of a tuple-struct/variant constructor as a function (called or passed)."""
    r = rx(adt_pattern)
    out = []
    for i, b in enumerate(fn["blocks"]):
        if b.get("c"):
            continue
        t = b["t"]
        ops = []
        if t[0] == "call":
            c = t[1]
            if c.get("ctor") and r.search(c.get("ctor_of", "")):
                out.append((i, "call", c.get("ctor_of")))
            ops = list(t[2])
        for s in b["s"]:
            if s[0] == "=":
                ops.extend(_rv_operands(s[2]))
        for o in ops:
            if o[0] == "k" and o[1].get("ctor") and r.search(o[1].get("ctor_of", "")):
                out.append((i, "value", o[1].get("ctor_of")))
    return out


def _rv_operands(rv):
    k = rv[0]
    if k in ("use",):
        return [rv[1]]
    if k == "cast":
        return [rv[2]]
    if k == "bin":
        return [rv[2], rv[3]]
    if k == "un":
        return [rv[2]]
    if k == "agg":
        return list(rv[2])
    if k == "repeat":
        return [rv[1]]
    return []


def place_has_field(place, field):
    for p in place[1]:
        if p.startswith(".") and p.partition(":")[2] == field:
            return True
    return False


_DB = None     # set by report.Ctx: lets the field helpers look up ADT field types


def _strip_ref(ty):
    ty = ty.strip()
    while True:
        m = re.match(r"^&(?:'\w+ )?(?:mut )?(.*)$", ty)
        if m:
            ty = m.group(1).strip()
            continue
        m = re.match(r"^(?:alloc::boxed::Box|alloc::rc::Rc|alloc::sync::Arc)<(.*)>$", ty)
        if m:
            ty = m.group(1).split(",")[0].strip()
            continue
        return ty


def field_owner(fn, place, field):
    """Type of the struct whose `.field` the place goes through, following the projections from the root local's type
    through the ADT facts.  None if it cannot be followed (unknown generic, enum payload, ...)."""
    from .facts import strip_type_args
    ty = _strip_ref(fn["locals"][place[0]][0])
    for p in place[1]:
        if p == "*":
            ty = _strip_ref(ty)
            continue
        if p.startswith("."):
            idx, _, name = p[1:].partition(":")
            if name == field:
                return ty
            adt = _DB.adt(strip_type_args(ty)) if _DB is not None else None
            if not adt or not adt.get("variants"):
                return None
            nxt = None
            for v in adt["variants"]:
                for f in v["fields"]:
                    if f["n"] == name:
                        nxt = f["ty"]
            if nxt is None:
                return None
            ty = _strip_ref(nxt)
            continue
        if p.startswith("@"):
            continue
        return None
    return None


def _owner_ok(fn, place, field, r):
    """base type filter: the owner of `.field` matches r — or, when the owner cannot be determined, the root local does."""
    if r is None:
        return True
    own = field_owner(fn, place, field)
    if own is not None:
        return r.search(own) is not None
    return r.search(fn["locals"][place[0]][0]) is not None


def field_writes(fn, field, base_ty=None):
    """Direct assignments whose lhs goes through `.field` -> [(bb, idx, stmt)]."""
    out = []
    r = rx(base_ty) if base_ty else None
    for i, b in enumerate(fn["blocks"]):
        if b.get("c"):
            continue
        for j, s in enumerate(b["s"]):
            if s[0] == "=" and place_has_field(s[1], field):
                if not _owner_ok(fn, s[1], field, r):
                    continue
                out.append((i, j, s))
        t = b["t"]
        if t[0] == "call" and place_has_field(t[3], field):
            if not _owner_ok(fn, t[3], field, r):
                continue
            out.append((i, "term", t))
    return out


def field_mut_borrows(fn, field, base_ty=None):
    """Locals assigned `&mut <place through .field>` -> {local: (bb, idx)}"""
    out = {}
    r = rx(base_ty) if base_ty else None
    for i, b in enumerate(fn["blocks"]):
        if b.get("c"):
            continue
        for j, s in enumerate(b["s"]):
            if s[0] == "=" and s[2][0] in ("ref", "raw") and s[2][1] in ("mut", "Mut") \
                    and place_has_field(s[2][2], field):
                if not _owner_ok(fn, s[2][2], field, r):
                    continue
                out[s[1][0]] = (i, j)
    return out


def field_mut_calls(fn, field, base_ty=None):
    """Calls that receive a `&mut` to (a place through) `.field` -> [(bb, callee name)]"""
    bor = field_mut_borrows(fn, field, base_ty)
    out = []
    if not bor:
        return out
    # propagate through simple moves/reborrows
    changed = True
    while changed:
        changed = False
        for i, b in enumerate(fn["blocks"]):
            if b.get("c"):
                continue
            for j, s in enumerate(b["s"]):
                if s[0] != "=":
                    continue
                rv = s[2]
                src = None
                if rv[0] == "use" and rv[1][0] in ("c", "m") and not rv[1][1][1]:
                    src = rv[1][1][0]
                elif rv[0] == "ref" and rv[1] == "mut" and rv[2][1] == ["*"]:
                    src = rv[2][0]
                if src in bor and s[1][0] not in bor and not s[1][1]:
                    bor[s[1][0]] = (i, j)
                    changed = True
    for i, b in enumerate(fn["blocks"]):
        if b.get("c"):
            continue
        t = b["t"]
        if t[0] == "call":
            for a in t[2]:
                if a[0] in ("c", "m") and a[1][0] in bor and not a[1][1]:
                    out.append((i, t[1].get("n") or "indirect"))
                    break
    return out


# ---------------------------------------------------------------- fact predicates
def is_variant(callee_pattern, variant, through=()):
    """Fact: result of a call matching callee_pattern is `variant`."""
    r = rx(callee_pattern)

    def pred(f):
        if f[0] != "variant" or not f[4] or f[3] != variant:
            return False
        e = peel_calls(f[1], through)
        return callee_is(e, r)
    return pred


def is_bool(callee_pattern, value, through=()):
    r = rx(callee_pattern)

    def pred(f):
        if f[0] != "bool" or f[2] != value:
            return False
        e = peel_calls(f[1], through)
        return callee_is(e, r)
    return pred


def any_of(*preds):
    def pred(f):
        return any(p(f) for p in preds)
    return pred


def edges_where(db, fn, pred):
    """Switch edges (bb, tb, label) one of whose implied facts satisfies pred."""
    out = []
    for bb, tb, lab, facts in cfg.all_edge_facts(db, fn):
        if any(pred(f) for f in facts):
            out.append((bb, tb, lab))
    return out


# ---------------------------------------------------------------- path rules
def dom_check(db, fn, effect_blocks, pred):
    """Every (feasible) path entry -> effect passes an edge implying pred.
    Returns (ok, allow_edges, offending {effect_bb: path})."""
    g = graph(fn)
    # an assertion is not a guard: the passing side of `assert!(cond)` (whose other side only panics) does not count
    allow = [e for e in edges_where(db, fn, pred) if not g.is_assertion_edge(e[0], e[1])]
    blocks = g.reach_k([(0, frozenset())], avoid_edges=allow)
    bad = {}
    for e in effect_blocks:
        if e in blocks:
            bad[e] = g.path_k(blocks, e)
    return (not bad), allow, bad


def excl_check(db, fn, effect_blocks, deny_pred, reeval_blocks=()):
    """No (feasible) path from an edge implying deny_pred reaches an effect block
    without re-passing reeval_blocks.  Returns (ok, deny_edges, offending)."""
    g = graph(fn)
    deny = edges_where(db, fn, deny_pred)
    bad = {}
    g.reach_k([(0, frozenset())])
    entry_states = list(g._last_seen.keys())
    for (bb, tb, lab) in deny:
        if tb in reeval_blocks:
            continue
        starts = []
        for (b0, know) in entry_states:
            if b0 != bb:
                continue
            k = g.edge_know(bb, tb, lab, know)
            if k is not None:      # the deny edge itself is feasible in this state
                starts.append((tb, k))
        if not starts:
            continue
        blocks = g.reach_k(starts, avoid_blocks=reeval_blocks)
        for e in effect_blocks:
            if e in blocks:
                bad[(bb, tb, e)] = [bb] + g.path_k(blocks, e)
    return (not bad), deny, bad


def pass_check(db, fn, edges, through_blocks, exits):
    """Must-pass-through: every feasible path entry -> (one of `edges`) -> (a block in `exits`)
    passes a block of `through_blocks` (before or after the edge).  Paths are followed with
    discriminant knowledge, so a later re-test of the same discriminant (drop glue) cannot flip.
    Returns (ok, n_edges_feasible, offending paths)."""
    g = graph(fn)
    through = set(through_blocks)
    g.reach_k([(0, frozenset())], avoid_blocks=through)
    states = list(g._last_seen.keys())
    bad = []
    nfeas = 0
    for (b0, tb, lab) in edges:
        starts = []
        for (b, know) in states:
            if b != b0:
                continue
            k = g.edge_know(b0, tb, lab, know)
            if k is not None:
                starts.append((tb, k))
        if not starts:
            continue
        nfeas += 1
        blocks = g.reach_k(starts, avoid_blocks=through)
        for e in exits:
            if e in blocks:
                bad.append([b0] + g.path_k(blocks, e))
                break
    return (not bad), nfeas, bad


def err_dropped(db, fn, cb):
    """For the call at block cb of fn (a callee returning Result): is there a path on which the call's result is `Err` and fn
    nevertheless returns a value that does not carry that error?  The error is carried when the value assigned to the return
    place on that path derives from the call's result (`Err(e)` re-wrapped, `Some(Err(e))`, `?`, or the result returned as is).
    Returns None if every Err path propagates, else the offending block path."""
    g = graph(fn)
    t = fn["blocks"][cb]["t"]
    if t[4] is None:
        return None
    seen = set()
    work = [(t[4], False, None, [cb])]      # block, on_err_side, last _0 assignment carries the error?, path
    while work:
        b, on_err, carries, path = work.pop()
        key = (b, on_err, carries)
        if key in seen:
            continue
        seen.add(key)
        blk = fn["blocks"][b]
        for st in blk["s"]:
            if st[0] == "=" and st[1][0] == 0 and not st[1][1]:
                e = cfg.expr_rvalue(fn, st[2])
                carries = any(x[0] == "call" and len(x) > 3 and x[3] == cb for x in cfg.walk(e))
        tt = blk["t"]
        if tt[0] == "call" and tt[3][0] == 0 and not tt[3][1]:
            e = ("call", tt[1], [cfg.expr_operand(fn, a) for a in tt[2]], b)
            carries = any(x[0] == "call" and len(x) > 3 and x[3] == cb for x in cfg.walk(e))
        if tt[0] == "ret":
            if on_err and not carries:
                return path + [b]
            continue
        for tb, lab in g.succ[b]:
            nerr = on_err
            dead = False
            if tt[0] == "switch":
                for f in cfg.edge_facts(db, fn, b, tb, lab):
                    if f[0] != "variant" or not f[4]:
                        continue
                    bv = cfg.base_value(f[1])
                    if bv[0] == "call" and len(bv) > 3 and bv[3] == cb:
                        inner = cfg.peel(f[1])
                        is_payload = inner[0] == "field"
                        if f[3] in ("Ok", "Continue") and not is_payload:
                            dead = True
                        elif f[3] in ("Err", "Break") and not is_payload:
                            nerr = True
            if dead and not on_err:
                continue
            if dead:
                continue
            work.append((tb, nerr, carries, path + [b]))
    return None


POP = re.compile(r"^alloc::vec::Vec::pop$|^alloc::collections::vec_deque::VecDeque::(pop_front|pop_back)$|"
                 r"^alloc::collections::btree::set::BTreeSet::(pop_first|pop_last)$|^alloc::collections::binary_heap::BinaryHeap::pop$")
PUSH = re.compile(r"^alloc::vec::Vec::(push|extend|append|extend_from_slice)$|^alloc::collections::vec_deque::VecDeque::(push_back|push_front|extend)$|"
                  r"^alloc::collections::btree::set::BTreeSet::insert$|^alloc::collections::binary_heap::BinaryHeap::push$|Extend<.*>>::extend$")


def worklists(db, fn):
    """Worklist loops of fn: a loop whose header pops from a local container that is pushed to inside the loop.
    -> [(header block, container local, body blocks, bad exit edges)] where a bad exit edge leaves the loop other than
    through the `None` outcome of the pop and does not lead only to error returns / panics."""
    from . import flow
    g = graph(fn)
    out = []
    cr = g.can_return()
    for hb, t, c in db.calls(fn):
        if not POP.search(c.get("n") or "") or not t[2]:
            continue
        r = flow.root_place(fn, t[2][0])
        if r is None or r[1]:
            continue
        w = r[0]
        # the switch on the pop result
        sw = t[4]
        some = none = None
        for bb2, tb, lab, facts in cfg.all_edge_facts(db, fn):
            for f in facts:
                if f[0] == "variant" and f[4] and f[3] in ("Some", "None"):
                    e = cfg.base_value(f[1])
                    if e[0] == "call" and len(e) > 3 and e[3] == hb:
                        if f[3] == "Some":
                            some = (bb2, tb)
                        else:
                            none = (bb2, tb)
        if some is None:
            continue
        fwd = g.reach([some[1]], avoid_blocks=[hb])
        body = set(b for b in fwd if hb in g.reach([b]))
        body.add(hb)
        if sw is not None:
            body |= set(b for b in g.reach([sw], avoid_blocks=[some[1]] + ([none[1]] if none else [])) if b in g.reach([hb]) and some[0] in g.reach([b]))
        # pushed to inside the loop?
        pushes = []
        for bb2 in body:
            t2 = fn["blocks"][bb2]["t"]
            if t2[0] == "call" and PUSH.search(t2[1].get("n") or "") and t2[2]:
                r2 = flow.root_place(fn, t2[2][0])
                if r2 is not None and r2[0] == w and not r2[1]:
                    pushes.append(bb2)
        if not pushes:
            continue
        bad = []
        errs = set(bb for bb, j, k, ops in agg_sites(fn, r"^core::result::Result$", "Err"))
        for b in body:
            for tb, lab in g.succ[b]:
                if tb in body or tb not in cr:
                    continue
                if none and (b, tb) == none:
                    continue
                # exits that only return an error are not "dropped work": the whole result is discarded
                reach = g.reach([tb])
                rets = [x for x in ret_blocks(fn) if x in reach]
                only_err = bool(rets) and all(any(e_ in g.reach([tb]) and x in g.reach([e_]) for e_ in errs) and
                                              not _ok_between(fn, g, tb, x) for x in rets)
                if only_err:
                    continue
                bad.append((b, tb))
        out.append((hb, w, body, bad))
    return out


def _ok_between(fn, g, a, ret):
    """Is there an `Ok(..)` assignment to the return place on some path a -> ret?"""
    oks = set(bb for bb, j, k, ops in agg_sites(fn, r"^core::result::Result$", "Ok") if fn["blocks"][bb]["s"][j][1][0] == 0)
    ra = g.reach([a])
    return any(o in ra and ret in g.reach([o]) for o in oks)


def line_of(fn, bb, idx=None):
    b = fn["blocks"][bb]
    if idx is not None and idx != "term":
        return b["s"][idx][3]
    t = b["t"]
    if t[0] == "call":
        return t[6]
    if t[0] == "switch":
        return t[5]
    if t[0] == "assert":
        return t[6]
    for s in reversed(b["s"]):
        if s[0] in ("=", "sd"):
            return s[3]
    return fn["line"]


def where(fn, bb=None, idx=None):
    if bb is None:
        return "%s:%d (%s)" % (fn["file"], fn["line"], cfg.short(fn["key"]))
    return "%s:%d (%s bb%d)" % (fn["file"], line_of(fn, bb, idx), cfg.short(fn["key"]), bb)


def ret_blocks(fn):
    return [i for i, b in enumerate(fn["blocks"]) if b["t"][0] == "ret" and not b.get("c")]


def root_key(db, fn):
    return db.root_of(fn)["key"]


def who(ctx, key, what, sites, allowed, db=None):
    """sites: [(fn, bb, idx_or_None)]; every enclosing (root) fn key must match one allowed regex."""
    db = db or ctx.db
    allowed = [rx(a) for a in allowed]
    ok = True
    for fn, bb, idx in sites:
        rk = root_key(db, fn)
        if any(a.search(rk) for a in allowed):
            ctx.held("%s:%s" % (key, rk), what, where(fn, bb, idx), fn=fn)
        else:
            ok = False
            ctx.violated("%s:%s" % (key, rk), "%s — not an allowed site" % what, where(fn, bb, idx), fn=fn)
    return ok


def who_inherit(ctx, key, what, sites, allowed, db=None, depth=2):
    """WHO with inheritance (DESIGN §2.4): an effect site outside the allowed functions is accepted when its function is
    a helper all of whose call sites (in the workspace) lie in allowed functions (or in such helpers, up to `depth`).
    Returns {helper fn key: [(caller fn, bb)]} for the helpers that were accepted."""
    db = db or ctx.db
    allowed_rx = [rx(a) for a in allowed]
    helpers = {}

    def ok_fn(fn, d):
        rk = root_key(db, fn)
        if any(a.search(rk) for a in allowed_rx):
            return True
        if d <= 0:
            return False
        callers = [(f, bb) for f, bb in db.call_sites("^" + re.escape(db.root_of(fn)["key"]) + "$")]
        if not callers:
            return False
        if all(ok_fn(f, d - 1) for f, bb in callers):
            helpers[db.root_of(fn)["key"]] = callers
            return True
        return False
    ok = True
    for fn, bb, idx in sites:
        rk = root_key(db, fn)
        if ok_fn(fn, depth):
            via = "" if any(a.search(rk) for a in allowed_rx) else " (helper called only from allowed sites)"
            ctx.held("%s:%s" % (key, rk), what + via, where(fn, bb, idx), fn=fn)
        else:
            ok = False
            ctx.violated("%s:%s" % (key, rk), "%s — not an allowed site" % what, where(fn, bb, idx), fn=fn)
    return helpers


def ret_defs(fn):
    """Definitions of the return place: [(bb, kind, payload)], kind in const|expr|call."""
    out = []
    for i, b in enumerate(fn["blocks"]):
        if b.get("c"):
            continue
        for j, s in enumerate(b["s"]):
            if s[0] == "=" and s[1][0] == 0 and not s[1][1]:
                rv = s[2]
                if rv[0] == "use" and rv[1][0] == "k" and "v" in rv[1][1]:
                    out.append((i, "const", int(rv[1][1]["v"])))
                else:
                    out.append((i, "expr", cfg.expr_rvalue(fn, rv)))
        t = b["t"]
        if t[0] == "call" and t[3][0] == 0 and not t[3][1]:
            out.append((i, "call", ("call", t[1], [cfg.expr_operand(fn, a) for a in t[2]], i)))
    return out


def true_only_if(db, fn, preds, allowed_calls=()):
    """Bool function: `true` is returned only on paths implying one of preds, or as the
    value of a call matching allowed_calls.  Returns (ok, problems[list of str], n_sites)."""
    problems = []
    n = 0
    allowed = [rx(a) for a in allowed_calls]
    for bb, kind, val in ret_defs(fn):
        n += 1
        if kind == "const":
            if val == 0:
                continue
            ok, allow, bad = dom_check(db, fn, [bb], any_of(*preds))
            if not ok or not allow:
                problems.append("returns true at %s without an allowing condition" % where(fn, bb))
        elif kind == "call":
            if not any(callee_is(val, a) for a in allowed):
                problems.append("returns the value of %s at %s" % (show(val), where(fn, bb)))
        else:
            e = peel(val)
            if e[0] == "call" and any(callee_is(e, a) for a in allowed):
                continue
            problems.append("returns %s at %s" % (show(val), where(fn, bb)))
    return (not problems), problems, n
