"""Fact base management: hash /repo's working tree, run the hwx extractor when
no fact base for that hash exists, fail closed on anything missing."""
import fcntl
import hashlib
import json
import os
import re
import shutil
import subprocess
import sys
import time

VERIF = os.path.dirname(os.path.dirname(os.path.abspath(__file__)))
REPO = os.environ.get("HW_REPO", "/repo")
CACHE = os.path.join(VERIF, ".cache")
HWX = os.path.join(VERIF, "extractor", "target", "release", "hwx")

# crates whose fact files must exist after an extraction (fail closed otherwise)
REQUIRED = [
    "radicle.rlib", "radicle_node.rlib", "radicle_node.executable", "radicle_fetch.rlib",
    "radicle_cob.rlib", "radicle_dag.rlib", "radicle_crypto.rlib", "radicle_ssh.rlib",
    "radicle_term.rlib", "radicle_cli.rlib", "radicle_crdt.rlib",
    "radicle_remote_helper.rlib", "radicle_signals.rlib", "radicle_systemd.rlib",
    "rad.executable", "git_remote_rad.executable",
]
# test-harness member: it switches on radicle's `test` feature for the whole
# build (feature unification) and is not shipped code.
EXCLUDE = ["radicle-cli-test"]


def sysroot():
    return subprocess.check_output(["rustc", "+nightly", "--print", "sysroot"], text=True).strip()


def tree_hash(repo=REPO):
    h = hashlib.sha256()
    paths = []
    for top in ("Cargo.toml", "Cargo.lock", "rust-toolchain.toml", "build.rs"):
        p = os.path.join(repo, top)
        if os.path.exists(p):
            paths.append(p)
    for root, dirs, files in os.walk(os.path.join(repo, "crates")):
        dirs[:] = sorted(d for d in dirs if d not in ("target", ".git"))
        for f in sorted(files):
            paths.append(os.path.join(root, f))
    for p in paths:
        try:
            with open(p, "rb") as fh:
                data = fh.read()
        except OSError:
            continue
        h.update(os.path.relpath(p, repo).encode())
        h.update(b"\0")
        h.update(hashlib.sha256(data).digest())
    # the extractor itself is part of the key
    for p in (os.path.join(VERIF, "extractor", "src", "main.rs"),):
        with open(p, "rb") as fh:
            h.update(hashlib.sha256(fh.read()).digest())
    return h.hexdigest()[:20]


def build_hwx():
    if os.path.exists(HWX) and os.path.getmtime(HWX) >= os.path.getmtime(
            os.path.join(VERIF, "extractor", "src", "main.rs")):
        return
    env = dict(os.environ, CARGO_NET_OFFLINE="true")
    r = subprocess.run(["cargo", "build", "--release", "--offline"],
                       cwd=os.path.join(VERIF, "extractor"), env=env,
                       stdout=subprocess.PIPE, stderr=subprocess.STDOUT, text=True)
    if r.returncode != 0:
        sys.stderr.write(r.stdout)
        raise SystemExit("hw: cannot build the extractor (exit 2)")


def members(repo):
    env = dict(os.environ, CARGO_NET_OFFLINE="true")
    out = subprocess.check_output(
        ["cargo", "+nightly", "metadata", "--offline", "--no-deps", "--format-version", "1"],
        cwd=repo, env=env, text=True, stderr=subprocess.DEVNULL)
    md = json.loads(out)
    return [p["name"] for p in md["packages"]]


def run_extraction(repo, out_dir, nodebug=False, target=None, packages=None):
    """Serialised by a file lock: two extractions must not manipulate the same target dir."""
    os.makedirs(CACHE, exist_ok=True)
    lk = open(os.path.join(CACHE, "cargo.lock"), "w")
    fcntl.flock(lk, fcntl.LOCK_EX)
    try:
        return _run_extraction(repo, out_dir, nodebug, target, packages)
    finally:
        fcntl.flock(lk, fcntl.LOCK_UN)
        lk.close()


def _run_extraction(repo, out_dir, nodebug=False, target=None, packages=None):
    build_hwx()
    target = target or os.path.join(CACHE, "target")
    os.makedirs(target, exist_ok=True)
    # cargo must not skip the wrapper: drop the members' fingerprints
    fp = os.path.join(target, "debug", ".fingerprint")
    if os.path.isdir(fp):
        names = set(members(repo))
        for d in os.listdir(fp):
            m = re.match(r"^(.*)-[0-9a-f]{16}$", d)
            if m and m.group(1) in names:
                shutil.rmtree(os.path.join(fp, d), ignore_errors=True)
    env = dict(os.environ)
    env.update({
        "CARGO_NET_OFFLINE": "true",
        "LD_LIBRARY_PATH": sysroot() + "/lib",
        "RUSTC_WORKSPACE_WRAPPER": HWX,
        "CARGO_TARGET_DIR": target,
        "HWX_OUT": out_dir,
        "HWX_NODEBUG": "1" if nodebug else "0",
    })
    env.pop("RUSTFLAGS", None)
    cmd = ["cargo", "+nightly", "check", "--offline"]
    if packages:
        for p in packages:
            cmd += ["-p", p]
    else:
        cmd += ["--workspace"]
        for e in EXCLUDE:
            cmd += ["--exclude", e]
    t = time.time()
    r = subprocess.run(cmd, cwd=repo, env=env, stdout=subprocess.PIPE,
                       stderr=subprocess.STDOUT, text=True)
    return r.returncode, r.stdout, time.time() - t


def ensure_facts(nodebug=False, repo=REPO, quiet=False):
    """Return the directory holding the fact base of repo's current tree."""
    os.makedirs(os.path.join(CACHE, "facts"), exist_ok=True)
    h = tree_hash(repo)
    mode = "rel" if nodebug else "dbg"
    d = os.path.join(CACHE, "facts", "%s-%s" % (h, mode))
    if os.path.exists(os.path.join(d, "OK")):
        return d, h
    lock = open(os.path.join(CACHE, "lock"), "w")
    fcntl.flock(lock, fcntl.LOCK_EX)
    try:
        if os.path.exists(os.path.join(d, "OK")):
            return d, h
        tmp = d + ".tmp"
        shutil.rmtree(tmp, ignore_errors=True)
        os.makedirs(tmp)
        if not quiet:
            print("hw: extracting facts for tree %s (%s) ..." % (h, mode), flush=True)
        rc, out, secs = run_extraction(repo, tmp, nodebug=nodebug)
        if rc != 0:
            sys.stdout.write(out[-6000:])
            shutil.rmtree(tmp, ignore_errors=True)
            print("hw: the tree does not build under the analysed configuration; no verdict")
            raise SystemExit(2)
        missing = [c for c in REQUIRED if not os.path.exists(os.path.join(tmp, c + ".jsonl"))]
        if missing:
            shutil.rmtree(tmp, ignore_errors=True)
            print("hw: extraction incomplete, missing fact files: %s" % missing)
            raise SystemExit(2)
        shutil.rmtree(d, ignore_errors=True)
        os.rename(tmp, d)
        with open(os.path.join(d, "OK"), "w") as f:
            f.write("%s %.1f\n" % (h, secs))
        if not quiet:
            print("hw: facts ready in %.0fs" % secs, flush=True)
        prune()
        return d, h
    finally:
        fcntl.flock(lock, fcntl.LOCK_UN)
        lock.close()


def prune(keep=6):
    base = os.path.join(CACHE, "facts")
    ds = [os.path.join(base, x) for x in os.listdir(base)]
    ds = [x for x in ds if os.path.isdir(x)]
    ds.sort(key=lambda x: os.path.getmtime(x), reverse=True)
    for x in ds[keep:]:
        shutil.rmtree(x, ignore_errors=True)


if __name__ == "__main__":
    d, h = ensure_facts(nodebug="--rel" in sys.argv)
    print(d)
