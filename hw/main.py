"""./check <Cxx> [--tier quick|thorough] [--replay path]"""
import importlib
import json
import os
import sys
import time

from .extract import ensure_facts
from .facts import DB
from .report import Ctx


def selftest(ctx, pid):
    """Thorough tier: replay the canned mutations of this property on a scratch copy;
    each must be reported.  A miss means the checker is weaker than claimed: it is
    reported as broken machinery for that rule (an obligation of kind selftest)."""
    from .mutations import MUTATIONS
    from . import mutate
    muts = [m for m in MUTATIONS if m["prop"] == pid]
    if not muts:
        return
    base = {pid: [o["key"] for o in ctx.obs if o["status"] == "violated"]}
    res = mutate.replay(muts, verbose=False, baseline_keys=base)
    for mid, hit, keys, note in res:
        if note:
            ctx.ob("selftest:%s" % mid, "inconclusive", "canned mutation not applicable to this tree: %s" % note, sites=0)
        elif hit:
            ctx.held("selftest:%s" % mid, "canned mutation %s is reported (%s)" % (mid, ", ".join(keys[:2])), sites=1)
        else:
            ctx.ob("selftest:%s" % mid, "inconclusive", "canned mutation %s was NOT reported by the rule it targets" % mid, sites=1)


def main(argv):
    if not argv:
        print("usage: check Cxx [--tier quick|thorough] [--replay path]")
        return 2
    pid = argv[0]
    tier = os.environ.get("VERIF_TIER", "quick")
    only = None
    i = 1
    while i < len(argv):
        if argv[i] == "--tier":
            tier = argv[i + 1]
            i += 2
        elif argv[i] == "--replay":
            with open(argv[i + 1]) as f:
                only = json.load(f)["key"]
            i += 2
        else:
            i += 1
    if tier not in ("quick", "thorough"):
        tier = "quick"
    try:
        mod = importlib.import_module("hw.props.%s" % pid.lower())
    except ModuleNotFoundError:
        print("no check for %s" % pid)
        return 2
    d, h = ensure_facts()
    db = DB(d)
    dbrel = None
    if tier == "thorough" and getattr(mod, "WANTS_REL", True):
        d2, _ = ensure_facts(nodebug=True)
        dbrel = DB(d2)
    ctx = Ctx(pid, tier, db, h, dbrel=dbrel, only_key=only)
    try:
        mod.run(ctx)
        if dbrel is not None:
            # re-evaluate on the debug-assertions=off fact base: no obligation may be
            # discharged by a check that exists only as a debug assertion
            ctx.db, save = dbrel, ctx.db
            ctx.phase = "rel"
            n0 = len(ctx.obs)
            mod.run(ctx)
            for o in ctx.obs[n0:]:
                o["key"] = o["key"] + "@rel" if o["status"] != "violated" else o["key"]
            ctx.db = save
        if tier == "thorough":
            selftest(ctx, pid)
    except Exception as e:  # machinery failure: no verdict
        import traceback
        traceback.print_exc()
        print("hw: internal error in the checker for %s: no verdict (exit 2)" % pid)
        return 2
    return ctx.finish()


if __name__ == "__main__":
    sys.exit(main(sys.argv[1:]))
