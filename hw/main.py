"""./check <Cxx> [--tier quick|thorough] [--replay path]"""
import importlib
import json
import os
import sys
import time

from .extract import ensure_facts
from .facts import DB
from .report import Ctx


def main(argv):
    if not argv:
        print("usage: check Cxx [--tier quick|thorough] [--replay path]")
        return 2
    pid = argv[0]
    tier = os.environ.get("VERIF_TIER", "quick")
    only = None
    i = 1
    while i < len(argv):
        if argv[i] == "--tier":
            tier = argv[i + 1]
            i += 2
        elif argv[i] == "--replay":
            with open(argv[i + 1]) as f:
                only = json.load(f)["key"]
            i += 2
        else:
            i += 1
    if tier not in ("quick", "thorough"):
        tier = "quick"
    try:
        mod = importlib.import_module("hw.props.%s" % pid.lower())
    except ModuleNotFoundError:
        print("no check for %s" % pid)
        return 2
    d, h = ensure_facts()
    db = DB(d)
    dbrel = None
    if tier == "thorough" and getattr(mod, "WANTS_REL", True):
        d2, _ = ensure_facts(nodebug=True)
        dbrel = DB(d2)
    ctx = Ctx(pid, tier, db, h, dbrel=dbrel, only_key=only)
    try:
        mod.run(ctx)
        if dbrel is not None:
            # re-evaluate on the debug-assertions=off fact base: no obligation may be
            # discharged by a check that exists only as a debug assertion
            ctx.db, save = dbrel, ctx.db
            ctx.phase = "rel"
            n0 = len(ctx.obs)
            mod.run(ctx)
            for o in ctx.obs[n0:]:
                o["key"] = o["key"] + "@rel" if o["status"] != "violated" else o["key"]
            ctx.db = save
    except Exception as e:  # machinery failure: no verdict
        import traceback
        traceback.print_exc()
        print("hw: internal error in the checker for %s: no verdict (exit 2)" % pid)
        return 2
    return ctx.finish()


if __name__ == "__main__":
    sys.exit(main(sys.argv[1:]))
