"""DBREAD: sqlite's panicking column accessor `Row::read::<T>(col)` (= `try_read(col).unwrap()`).

The read panics when `<T as TryFrom<&Value>>::try_from` rejects what the column holds.  For a value that a peer chose
(address, features, agent, ...) and that this node stored earlier, that is a remotely triggered crash on read-back —
after a restart as well, since the row is persistent.  Classification of a read of T, recomputed from the code:

  prim     T is a storage-class primitive (i64, f64, &str, String, Vec<u8>, Option of those): assumed safe — the storage
           class of a column is fixed by this code base's own schema and typed binds, no peer-chosen value changes it.
  total    the parser returns Ok on every path of the one Value variant it accepts (e.g. an `as` cast): nothing stored
           under that storage class can be rejected.
  keywords the parser accepts a finite set of string constants and the writer (`BindableWithIndex for T`) binds only
           constants of that set.
  partial  anything else: the parser can reject some stored values.  Allowed only with a reviewed reason why every
           value the writer can store re-parses (REVIEWED below); otherwise reported.
"""
import re

from . import cfg, pathsum
from .cfg import nshow, peel

PRIM = re.compile(r"^(core::option::Option<)?(i64|f64|&str|alloc::string::String|alloc::vec::Vec<u8>|&\[u8\])>?$")

# T (regex) -> why every stored value re-parses although the parser is partial
REVIEWED = [
    (r"^radicle_crypto::PublicKey$", "Display/FromStr are inverse text encodings of the key's 32 bytes; every PublicKey value prints to text that parses back"),
    (r"^radicle_crypto::Signature$", "Display/FromStr are inverse text encodings of the signature's 64 bytes"),
    (r"^radicle::identity::doc::id::RepoId$", "urn()/from_urn are inverse text encodings of the 20-byte object id"),
    (r"^radicle::node::timestamp::Timestamp$", "the writer binds i64::try_from(u64) and returns an error (no write) above i64::MAX, so stored integers are non-negative; the parser rejects only negative integers"),
    (r"^radicle::node::UserAgent$", "UserAgent values exist only through UserAgent::from_str / Default (constructor discipline, C21), from_str admits only ASCII graphic "
                                    "characters in every segment (verified below: text with a NUL comes back truncated from sqlite), and the writer stores that validated text"),
    (r"^radicle_node::service::gossip::store::GossipType$", "Display writes exactly the three keywords the parser accepts; the value is derived locally from the message variant, not chosen by a peer"),
    (r"^radicle::node::policy::(Policy|Scope)$", "Display prints exactly the keywords FromStr accepts (serde/strum-style keyword enum); values are local configuration, not peer data"),
]


def _ok_err(ret):
    e = peel(ret) if ret is not None else None
    if e is not None and e[0] == "agg" and isinstance(e[1], dict) and e[1].get("adt", "").endswith("result::Result"):
        return e[1].get("var")
    return None


def _const_str(e):
    e = peel(e)
    if e[0] == "const" and isinstance(e[1], dict) and e[1].get("t") in ("&str", "&'static str") and "s" in e[1]:
        return e[1]["s"]
    if e[0] == "const" and isinstance(e[1], dict) and "s" in e[1]:
        return e[1]["s"]
    return None


def parser_of(db, ty):
    fns = [f for f in db.all_fns() if f["key"] == "<%s as core::convert::TryFrom<&sqlite::value::Value>>::try_from" % ty]
    return fns[0] if len(fns) == 1 else None


def writer_consts(db, ty):
    """String constants bound by `BindableWithIndex for T` / `for &T` (None if there is no such impl or it binds
    something that is not a constant)."""
    out = set()
    found = False
    for f in db.all_fns():
        if re.match(r"^<&?%s as sqlite::statement::BindableWithIndex>::bind$" % re.escape(ty), f["key"]):
            found = True
            for bb, t, c in db.calls(f):
                n = c.get("n") or ""
                if n.endswith("BindableWithIndex>::bind") or n.endswith("BindableWithIndex::bind"):
                    s = _const_str(cfg.expr_operand(f, t[2][0]))
                    if s is None:
                        return None
                    out.add(s)
    return out if found else None


def classify(db, ty):
    """-> (class, detail)  class in prim | total | keywords | reviewed | partial | unknown"""
    if PRIM.match(ty):
        return "prim", "storage class fixed by the schema and typed binds"
    p = parser_of(db, ty)
    if p is None:
        return "unknown", "no `TryFrom<&sqlite::Value> for %s` found" % ty
    ss = pathsum.summaries(db, p, 512)
    if ss is None:
        return "unknown", "parser too large for path summaries"
    ok_variants = set()
    partial = []
    accepted = set()
    keyword_only = True
    for path, facts, ret in ss:
        var = [f[3] for f in facts if f[0] == "variant" and nshow(f[1]) == "arg1" and f[4]]
        v = var[0] if var else None
        r = _ok_err(ret)
        if r == "Ok":
            ok_variants.add(v)
            eqs = [(_const_str(f[2]) or _const_str(f[3])) for f in facts if f[0] == "cmp" and f[1] == "Eq"]
            eqs = [x for x in eqs if x is not None]
            if eqs:
                accepted.add(eqs[-1])
            else:
                keyword_only = False
        elif r == "Err":
            if v is not None and v in ("Integer", "String", "Float", "Binary") and any(f[0] == "variant" and nshow(f[1]) == "arg1" and f[4] for f in facts):
                partial.append((v, path))
        else:
            # result of a callee (from_str(..).map_err(..)): partial through that callee
            keyword_only = False
            if v is not None:
                ok_variants.add(v)
                partial.append((v, path))
    rejected_in_ok_variant = [x for x in partial if x[0] in ok_variants]
    if len(ok_variants) == 1 and not rejected_in_ok_variant:
        return "total", "the parser accepts every %s value" % sorted(ok_variants)[0]
    if accepted and keyword_only:
        w = writer_consts(db, ty)
        if w is not None and w and w <= accepted:
            return "keywords", "the writer binds only %s, all accepted by the parser" % sorted(w)
        if w is not None and w - accepted:
            return "partial", "the writer binds %s, which the parser does not accept" % sorted(w - accepted)
    for rx_, why in REVIEWED:
        if re.search(rx_, ty):
            if ty in INVERSE_PARSERS:
                rej = own_rejections(db, ty)
                if rej is None:
                    return "unknown", "the parser functions of %s were not found" % ty
                extra = rej - INVERSE_PARSERS[ty][1]
                if extra:
                    return "partial", ("the text parser of %s rejects values on its own (%s) beyond decoding errors: a value of that kind that was "
                                       "stored — the wire decoder builds the type from raw bytes and does not apply this check — cannot be read back"
                                       % (cfg.short(ty), ", ".join(sorted(extra))))
            if ty == "radicle::node::UserAgent" and not user_agent_charset(db):
                return "partial", ("UserAgent::from_str has a segment form whose characters are not restricted to ASCII graphic ones: a user agent with a "
                                   "control character (NUL) is stored and does not read back")
            return "reviewed", why
    return "partial", "`TryFrom<&Value> for %s` can reject stored values (%s) and no reviewed argument says that every value the writer stores re-parses" % (
        ty, p["file"] + ":" + str(p["line"]))


# Parsers of the "inverse encoding" kind: the functions the text goes through, and the error variants they may construct
# *themselves* (everything else must be a propagated decoding/length error).  A rejection the parser adds on the decoded value
# (e.g. "the null id is not a repository") makes stored values unreadable.
INVERSE_PARSERS = {
    "radicle::identity::doc::id::RepoId": ([r"^radicle::identity::doc::id::RepoId::(from_urn|from_canonical)$"], set()),
    "radicle_crypto::PublicKey": ([r"^<radicle_crypto::PublicKey as core::str::traits::FromStr>::from_str$"], {"Multicodec"}),
    "radicle_crypto::Signature": ([r"^<radicle_crypto::Signature as core::str::traits::FromStr>::from_str$"], set()),
}


def own_rejections(db, ty):
    """Error variants the parser functions of `ty` construct directly (not propagated with `?`); None if a function is missing."""
    pats, allowed = INVERSE_PARSERS[ty]
    out = set()
    for pat in pats:
        fns = db.find(pat)
        if not fns:
            return None
        for f in fns:
            ss = pathsum.summaries(db, f, 256)
            if ss is None:
                return None
            for p, facts, ret in ss:
                e = peel(ret) if ret is not None else None
                if e is not None and e[0] == "agg" and isinstance(e[1], dict) and e[1].get("adt", "").endswith("result::Result") and e[1].get("var") == "Err":
                    inner = peel(e[2][0]) if e[2] else None
                    name = "?"
                    if inner is not None and inner[0] == "agg" and isinstance(inner[1], dict):
                        name = inner[1].get("var") or inner[1].get("adt", "?").rsplit("::", 1)[-1]
                    out.add(name)
    return out


def user_agent_charset(db):
    """Every segment form accepted by UserAgent::from_str is behind `is_ascii_graphic` on all its characters: in the
    closure that classifies a segment, no path returns `true` (or a conjunction) without a call of an `all(is_ascii_graphic..)`
    test on the part it accepts.  Structural approximation: the segment closure has no constant-true return, and every
    `Iterator::all` predicate closure beneath it calls `char::is_ascii_graphic` combined with `&&` (not `||`) with the
    reserved-character test."""
    fs = db.find(r"^<radicle::node::UserAgent as core::str::traits::FromStr>::from_str")
    if not fs:
        return False
    root = [f for f in fs if "closure" not in f["key"]]
    clos = [f for f in fs if "closure" in f["key"]]
    if not root or not clos:
        return False
    from . import rules as _rules
    # the per-segment closure: the one that calls split_once
    seg = [f for f in clos if any((c.get("n") or "").endswith("str::split_once") for _, _, c in db.calls(f))]
    if len(seg) != 1:
        return False
    for bb, kind, val in _rules.ret_defs(seg[0]):
        if kind == "const" and val == 1:
            return False          # a segment accepted without looking at its characters
    # character predicates: closures calling is_ascii_graphic must not be disjunctions that let other characters through
    preds = [f for f in clos if any((c.get("n") or "").endswith("char::methods::is_ascii_graphic") for _, _, c in db.calls(f))]
    if not preds:
        return False
    for f in preds:
        for p, facts, ret in pathsum.summaries(db, f, 64) or []:
            ag = [x for x in facts if x[0] == "bool" and "is_ascii_graphic" in nshow(x[1])]
            if ag and ag[0][2] is False:
                # not ASCII graphic: must be rejected
                if pathsum.const_value(ret) != 0:
                    return False
    # every accepted part is tested: the number of `Iterator::all` calls under the segment closure covers client, version and bare name
    alls = sum(1 for f in [seg[0]] for _, _, c in db.calls(f) if (c.get("n") or "").endswith("Iterator::all"))
    return alls >= 3


def guard(ctx, fn, bb):
    """Review-table guard for `dbread:` sources."""
    t = fn["blocks"][bb]["t"]
    ga = t[1].get("ga") or []
    ty = ga[0] if ga else "?"
    cls, why = classify(ctx.db, ty)
    if cls in ("prim", "total", "keywords", "reviewed"):
        return True, ""
    if cls == "unknown":
        return False, "panicking column read of %s: %s" % (ty, why)
    return False, ("panicking column read `row.read::<%s>`: %s — a value a peer made this node store can crash it on read-back "
                   "(use try_read and handle the error)" % (cfg.short(ty), why))


if __name__ == "__main__":
    import sys
    from . import extract
    from .facts import DB
    d, h = extract.ensure_facts(quiet=True)
    db = DB(d)
    seen = set()
    for fn in db.all_fns():
        for bb, t, c in db.calls(fn):
            if (c.get("dn") or "") == "sqlite::cursor::Row::read":
                ty = (c.get("ga") or ["?"])[0]
                if ty not in seen:
                    seen.add(ty)
                    print("%-60s %s" % (ty, classify(db, ty)))
