"""CODEC engine: success-path traces of wire encoders/decoders.

A *trace* is what one success path of `encode`/`decode` does to the byte stream: the
ordered list of wire-level events (calls of `Encode::encode` / `Decode::decode` with
the instantiated Self type, byteorder primitive reads/writes, raw reads/writes) together
with the branch conditions that select the path (enum variants of `self`, of a decoded
tag, ...).  Error paths (`?` Break edges, `return Err`) are not followed; a loop is cut
at its back edge and reported as (pre, body, post).

Nothing is executed: the traces are read off the MIR control-flow graph."""
import re

from . import cfg
from .cfg import graph, expr_operand, nshow, peel, show
from .facts import strip_generics

ENC = "radicle_node::wire::Encode::encode"
DEC = "radicle_node::wire::Decode::decode"
MAXPATHS = 4000

PRIM_R = re.compile(r"(byteorder::(?:io::)?ReadBytesExt::read_(u8|u16|u32|u64|i8|i16|i32|i64))")
PRIM_W = re.compile(r"(byteorder::(?:io::)?WriteBytesExt::write_(u8|u16|u32|u64|i8|i16|i32|i64))")


def self_type(c):
    """Instantiated Self type of a trait-method callee record (`<T as Tr>::m::<..>` in 'da')."""
    da = c.get("da") or ""
    if not da.startswith("<"):
        ga = c.get("ga") or []
        return ga[0] if ga else None
    depth = 0
    for i, ch in enumerate(da):
        if ch == "<":
            depth += 1
        elif ch == ">" and da[i - 1] != "-":
            depth -= 1
        elif depth == 1 and da.startswith(" as ", i):
            return da[1:i]
    return None


def norm_type(t):
    """Normalise a wire type for comparison: strip references and lifetimes."""
    if t is None:
        return None
    t = t.strip()
    while t.startswith("&"):
        t = t[1:].strip()
        if t.startswith("'"):
            t = t.split(" ", 1)[1] if " " in t else t
        if t.startswith("mut "):
            t = t[4:]
    t = re.sub(r"'[a-z_]+ ?", "", t)
    t = re.sub(r"<'_>", "", t)
    return t


class Event(tuple):
    """(kind, wire type, expr text, block)"""
    __slots__ = ()

    @property
    def kind(self):
        return self[0]

    @property
    def ty(self):
        return self[1]

    @property
    def text(self):
        return self[2]

    @property
    def bb(self):
        return self[3]


def call_event(fn, bb, t):
    c = t[1]
    dn = c.get("dn") or ""
    n = c.get("n") or ""
    if dn == ENC:
        return Event(("enc", norm_type(self_type(c)), nshow(expr_operand(fn, t[2][0])) if t[2] else "", bb))
    if dn == DEC:
        return Event(("dec", norm_type(self_type(c)), "", bb))
    m = PRIM_R.search(dn) or PRIM_R.search(n)
    if m:
        return Event(("dec", m.group(2), "prim", bb))
    m = PRIM_W.search(dn) or PRIM_W.search(n)
    if m:
        return Event(("enc", m.group(2), nshow(expr_operand(fn, t[2][1])) if len(t[2]) > 1 else "", bb))
    if dn.endswith("io::Write::write_all") or dn.endswith("io::Write::write"):
        return Event(("enc", "raw", nshow(expr_operand(fn, t[2][1])) if len(t[2]) > 1 else "", bb))
    if dn.endswith("io::Read::read_exact") or dn.endswith("io::Read::read_to_end") or dn.endswith("io::Read::read"):
        return Event(("dec", "raw", "", bb))
    return None


def _ret_kind(fn, path):
    """Classify the value returned along `path` (list of blocks): 'ok' | 'err' | 'tail' | 'unknown'."""
    for bb in reversed(path):
        b = fn["blocks"][bb]
        t = b["t"]
        if t[0] == "call" and t[3][0] == 0 and not t[3][1]:
            dn = t[1].get("dn") or ""
            if dn.endswith("FromResidual::from_residual"):
                return "err"
            return "tail"
        for s in reversed(b["s"]):
            if s[0] == "=" and s[1][0] == 0 and not s[1][1]:
                rv = s[2]
                if rv[0] == "agg" and isinstance(rv[1], dict):
                    v = rv[1].get("var")
                    if v in ("Ok", "Some"):
                        return "ok"
                    if v in ("Err", "None"):
                        return "err"
                    return "ok"
                return "unknown"
    return "unknown"


class Trace:
    def __init__(self, conds, events, path, end, loop_at=None):
        self.conds = conds          # [(expr text, variant, positive)]
        self.events = events        # [Event]
        self.path = path            # [bb]
        self.end = end              # 'ok' | 'tail' | 'unknown' | 'loop'
        self.loop_at = loop_at      # header block when end == 'loop'

    def types(self):
        return [e.ty for e in self.events]

    def __repr__(self):
        return "Trace(%s | %s | %s)" % (self.conds, [(e.kind, e.ty) for e in self.events], self.end)


def traces(db, fn):
    """Success-path traces of fn, or None when the path budget is exceeded."""
    g = graph(fn)
    aef = {}
    for bb, tb, lab, facts in cfg.all_edge_facts(db, fn):
        aef[(bb, tb, lab)] = facts
    cr = g.can_return()
    out = []
    budget = [MAXPATHS]

    def go(bb, know, conds, events, path, onpath):
        if budget[0] <= 0:
            return
        while True:
            if bb in onpath:
                budget[0] -= 1
                out.append(Trace(list(conds), list(events), list(path), "loop", loop_at=bb))
                return
            onpath = onpath | {bb}
            path = path + [bb]
            b = fn["blocks"][bb]
            t = b["t"]
            kl = g.kills(bb)
            if kl:
                know = frozenset(x for x in know if x[0][0] not in kl)
            cs = g.const_sets(bb)
            if cs:
                know = frozenset(x for x in know if x[0] not in dict(cs)) | frozenset((pk, ("is", v)) for pk, v in cs)
            if t[0] == "call":
                ev = call_event(fn, bb, t)
                if ev is not None:
                    events = events + [ev]
            if t[0] == "ret":
                budget[0] -= 1
                k = _ret_kind(fn, path)
                if k != "err":
                    out.append(Trace(list(conds), list(events), list(path), k))
                return
            succ = g.succ[bb]
            if not succ:
                return
            if len(succ) == 1:
                bb = succ[0][0]
                continue
            for tb, lab in succ:
                if tb not in cr:
                    continue
                k2 = g.edge_know(bb, tb, lab, know)
                if k2 is None:
                    continue
                facts = aef.get((bb, tb, lab), [])
                # `?`: never follow the Break edge
                if any(f[0] == "variant" and f[4] and f[3] == "Break" for f in facts):
                    continue
                c2 = list(conds)
                for f in facts:
                    if f[0] == "variant" and f[3] not in ("Continue", "Break"):
                        c2.append((nshow(f[1]), f[3], bool(f[4])))
                    elif f[0] == "bool":
                        c2.append((nshow(f[1]), "true" if f[2] else "false", True))
                    elif f[0] == "cmp":
                        c2.append(("%s %s %s" % (nshow(f[2]), f[1], nshow(f[3])), "cmp", True))
                    elif f[0] in ("value", "discrval"):
                        c2.append((nshow(f[1]), "val:%s" % (f[2],), True))
                go(tb, k2, c2, events, path, onpath)
            return

    go(0, frozenset(), [], [], [], frozenset())
    if budget[0] <= 0:
        return None
    return out


def split_loops(trs):
    """Group traces: straight traces (end != 'loop') and, per loop header, the body traces.
    Returns (straight, {header: [Trace]})."""
    straight = [t for t in trs if t.end != "loop"]
    loops = {}
    for t in trs:
        if t.end == "loop":
            loops.setdefault(t.loop_at, []).append(t)
    return straight, loops


def body_events(tr):
    """Events of a loop trace from the first visit of its header onwards (one iteration)."""
    if tr.end != "loop":
        return []
    i = tr.path.index(tr.loop_at)
    blocks = set(tr.path[i:])
    return [e for e in tr.events if e.bb in blocks]


def pre_events(tr, header):
    if header not in tr.path:
        return list(tr.events)
    i = tr.path.index(header)
    blocks = set(tr.path[:i])
    return [e for e in tr.events if e.bb in blocks]


def impls(db):
    """{type key: {'enc': fn, 'dec': fn}} for wire::Encode / wire::Decode impls in radicle_node."""
    out = {}
    for fn in db.all_fns():
        k = fn["key"]
        m = re.match(r"^<(.*) as radicle_node::wire::(Encode|Decode)>::(encode|decode)$", k)
        if not m:
            continue
        ty = norm_type(m.group(1))
        out.setdefault(ty, {})["enc" if m.group(2) == "Encode" else "dec"] = fn
    return out


if __name__ == "__main__":
    import sys
    from .extract import ensure_facts
    from .facts import DB
    d, h = ensure_facts()
    db = DB(d)
    pat = re.compile(sys.argv[1]) if len(sys.argv) > 1 else None
    for ty, m in sorted(impls(db).items()):
        if pat and not pat.search(ty):
            continue
        for side in ("enc", "dec"):
            fn = m.get(side)
            if fn is None:
                print("%s %s: -" % (ty, side))
                continue
            trs = traces(db, fn)
            print("%s %s: %s traces" % (ty, side, len(trs) if trs is not None else "TOO MANY"))
            for t in (trs or [])[:40]:
                cs = ["%s%s" % ("" if p else "!", v) for e, v, p in t.conds]
                print("   [%s] %s -> %s" % (",".join(cs), [(e.ty) for e in t.events], t.end))
