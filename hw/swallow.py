"""SWALLOW: error-variant-sensitive extension of the TX rule.

A function that works on a snapshot (`let mut next = self.clone(); ... *self = next`) or
directly on `&mut self` may *swallow* some errors of a step it calls (match arms such as
`Err(ApplyError::Redacted) => {}`) and carry on to a success exit / to the commit.  That is
only sound if the step leaves no partial effect when it fails with one of the swallowed
errors.  For every swallow site this module computes

    swallowed(site)            the error variants whose arm continues towards Ok / commit
    dirty_err_variants(callee) the error variants the callee may return after having written
                               through the `&mut` it was given (from the TX error sites)

and reports a violation when they intersect.  `*` stands for "any variant" (an error whose
origin is not modelled); an intersection that exists only through `*` is inconclusive."""
import re

from . import cfg
from .cfg import graph, expr_operand, peel, base_value, walk, nshow
from .tx import TX


def err_type(fn):
    """Error type E of a function returning Result<T, E> (None otherwise)."""
    ty = fn["locals"][0][0]
    m = re.match(r"^core::result::Result<(.*)>$", ty)
    if not m:
        return None
    inner = m.group(1)
    depth = 0
    for i, ch in enumerate(inner):
        if ch in "<([":
            depth += 1
        elif ch in ">)]":
            depth -= 1
        elif ch == "," and depth == 0:
            return inner[i + 1:].strip()
    return None


class Swallow:
    def __init__(self, db, tx=None):
        self.db = db
        self.tx = tx or TX(db)
        self._ev = {}
        self._stack = set()

    # ------------------------------------------------------------ callee lookup
    def target(self, fn, c):
        n = c.get("n")
        if not n:
            return None
        t = [f for f in self.db.by_key.get(n, []) if f["unit"] == fn["unit"]] or self.db.by_key.get(n, [])
        t = [f for f in t if "blocks" in f]
        return t[0] if t else None

    # ------------------------------------------------------------ variants of an error value
    def _agg_variants(self, fn, e, E):
        out = set()
        for sub in walk(e):
            if sub[0] == "agg" and isinstance(sub[1], dict) and sub[1].get("adt") and E and sub[1]["adt"] == E.split("<")[0]:
                out.add(sub[1].get("var"))
            elif sub[0] == "const" and isinstance(sub[1], dict) and sub[1].get("pagg"):
                for a in sub[1]["pagg"]:
                    if E and a.startswith(E.split("<")[0] + "::"):
                        out.add(a.rsplit("::", 1)[1])
        return out

    def value_variants(self, fn, e, E, depth=0):
        """Variants of error type E that expression e (an error payload) may hold."""
        vs = self._agg_variants(fn, e, E)
        if vs:
            return vs
        b = base_value(e)
        if b[0] == "call":
            tg = self.target(fn, b[1])
            dn = b[1].get("dn") or ""
            if tg is not None and err_type(tg) == E:
                return self.err_variants(tg)
            if tg is not None and err_type(tg) is not None and err_type(tg) != E:
                return self.from_variants(fn, err_type(tg), E)
            # Option::ok_or(ApplyError::X) and friends: variants named in the arguments
            for a in b[2]:
                vs |= self._agg_variants(fn, a, E)
            if vs:
                return vs
        return {"*"}

    def from_variants(self, fn, src, E):
        """Variants built by `<E as From<src>>::from`."""
        pat = r"^<%s as core::convert::From<%s>>::from$" % (re.escape(E), re.escape(src))
        fs = self.db.find(pat)
        out = set()
        for f in fs:
            for b in f["blocks"]:
                for s in b["s"]:
                    if s[0] == "=" and s[2][0] == "agg" and isinstance(s[2][1], dict) and s[2][1].get("adt") == E.split("<")[0]:
                        out.add(s[2][1]["var"])
        return out or {"*"}

    def block_err_variants(self, fn, bb):
        """Variants of the Err value assigned to the return place in block bb."""
        E = err_type(fn)
        b = fn["blocks"][bb]
        t = b["t"]
        if t[0] == "call" and t[3][0] == 0 and not t[3][1]:
            dn = t[1].get("dn") or ""
            if dn.endswith("FromResidual::from_residual"):
                src = base_value(expr_operand(fn, t[2][0]))
                if src[0] == "call":
                    tg = self.target(fn, src[1])
                    if tg is not None:
                        Ec = err_type(tg)
                        if Ec == E:
                            return self.err_variants(tg)
                        if Ec is not None:
                            return self.from_variants(fn, Ec, E)
                    vs = set()
                    for a in src[2]:
                        vs |= self._agg_variants(fn, a, E)
                    # closures passed to map_err/ok_or_else: look inside them
                    for a in src[2]:
                        ea = peel(a)
                        if ea[0] == "agg" and isinstance(ea[1], dict) and ea[1].get("closure"):
                            for cf in self.db.by_key.get(cfg.strip_generics(ea[1]["closure"]), []):
                                for cb_ in cf["blocks"]:
                                    for s in cb_["s"]:
                                        if s[0] == "=" and s[2][0] == "agg" and isinstance(s[2][1], dict) and E and s[2][1].get("adt") == E.split("<")[0]:
                                            vs.add(s[2][1]["var"])
                    if vs:
                        return vs
                    # foreign error converted by `?`: the From impl decides
                    ga = t[1].get("ga") or []
                    m = re.search(r"Result<core::convert::Infallible, (.*)>$", ga[1]) if len(ga) > 1 else None
                    if m and m.group(1) != E:
                        return self.from_variants(fn, m.group(1), E)
                return {"*"}
            tg = self.target(fn, t[1])
            if tg is not None and err_type(tg) == E:
                return self.err_variants(tg)
            return {"*"}
        for s in reversed(b["s"]):
            if s[0] == "=" and s[1][0] == 0 and not s[1][1]:
                rv = s[2]
                if rv[0] == "agg" and isinstance(rv[1], dict) and rv[1].get("adt") == "core::result::Result":
                    if rv[1]["var"] != "Err":
                        return set()
                    return self.value_variants(fn, expr_operand(fn, rv[2][0]), E)
                return {"*"}
        return {"*"}

    def err_variants(self, fn):
        """All variants fn may return as Err."""
        k = fn["uid"]
        if k in self._ev:
            return self._ev[k]
        if k in self._stack:
            return {"*"}
        self._stack.add(k)
        try:
            out = set()
            for i, b in enumerate(fn["blocks"]):
                if b.get("c"):
                    continue
                t = b["t"]
                sets0 = any(s[0] == "=" and s[1][0] == 0 and not s[1][1] for s in b["s"]) or \
                    (t[0] == "call" and t[3][0] == 0 and not t[3][1])
                if sets0:
                    out |= self.block_err_variants(fn, i)
        finally:
            self._stack.discard(k)
        self._ev[k] = out
        return out

    def dirty_err_variants(self, fn, param):
        s = self.tx.summary(fn, param)
        if not s["dirty_err"]:
            return set()
        out = set()
        for kind, bb, dirty_before in s.get("errsites") or [("ret", None, True)]:
            if bb is None:
                out.add("*")
                continue
            if kind == "tail":
                t = fn["blocks"][bb]["t"]
                tg = self.target(fn, t[1])
                if tg is None:
                    out.add("*")
                    continue
                if dirty_before:
                    out |= self.err_variants(tg) if err_type(tg) == err_type(fn) else {"*"}
                else:
                    der = self.tx.derived_locals(fn, param)
                    idx = [i for i, a in enumerate(t[2]) if a[0] in ("c", "m") and a[1][0] in der]
                    for i in idx:
                        out |= self.dirty_err_variants(tg, i + 1)
            else:
                out |= self.block_err_variants(fn, bb)
        return out

    # ------------------------------------------------------------ swallow sites
    def tracked(self, fn, param):
        """Locals holding (references into) the object behind param or a snapshot that is committed to it."""
        der = set(self.tx.derived_locals(fn, param))
        snaps = set()
        for b in fn["blocks"]:
            if b.get("c"):
                continue
            for s in b["s"]:
                # (*p) = move L
                if s[0] == "=" and s[1][0] == param and s[1][1] == ["*"] and s[2][0] == "use" and s[2][1][0] in ("c", "m") and not s[2][1][1][1]:
                    snaps.add(s[2][1][1][0])
        # follow moves backwards: `_57 = move next`
        changed = True
        while changed:
            changed = False
            for b in fn["blocks"]:
                if b.get("c"):
                    continue
                for s in b["s"]:
                    if s[0] == "=" and s[1][0] in snaps and not s[1][1] and s[2][0] == "use" and s[2][1][0] in ("c", "m") and not s[2][1][1][1]:
                        if s[2][1][1][0] not in snaps:
                            snaps.add(s[2][1][1][0])
                            changed = True
        # &mut borrows of snapshots
        bor = set()
        changed = True
        while changed:
            changed = False
            for b in fn["blocks"]:
                if b.get("c"):
                    continue
                for s in b["s"]:
                    if s[0] != "=" or s[1][1]:
                        continue
                    rv = s[2]
                    src = None
                    if rv[0] in ("ref", "raw") and rv[1] in ("mut", "Mut"):
                        src = rv[2][0]
                    elif rv[0] == "use" and rv[1][0] in ("c", "m") and not rv[1][1][1]:
                        src = rv[1][1][0] if rv[1][1][0] in bor else None
                    if src is not None and (src in snaps or src in bor) and s[1][0] not in bor:
                        bor.add(s[1][0])
                        changed = True
        return der, snaps, bor

    def sites(self, fn, param):
        """[(call block, callee fn, callee param, swallowed variants set, how)]"""
        db = self.db
        g = graph(fn)
        der, snaps, bor = self.tracked(fn, param)
        refs = der | bor
        commits = set()
        for i, b in enumerate(fn["blocks"]):
            if b.get("c"):
                continue
            for s in b["s"]:
                if s[0] == "=" and s[1][0] == param and s[1][1] == ["*"]:
                    commits.add(i)
        out = []
        for cb, t, c in db.calls(fn):
            idx = [i for i, a in enumerate(t[2]) if a[0] in ("c", "m") and a[1][0] in refs and not a[1][1]]
            if not idx:
                continue
            tg = self.target(fn, c)
            if tg is None or err_type(tg) is None:
                continue
            E = err_type(tg)
            adt = db.adt(E) if E else None
            universe = frozenset(v["n"] for v in adt["variants"]) if adt else None
            # explore from the call's continuation
            start = t[4]
            if start is None:
                continue
            seen = set()
            work = [(start, None, None, False)]   # block, variant set (None = not yet on the error side), rk after the call, on_err_side
            found = {}
            while work:
                b, vs, rk, on_err = work.pop()
                key = (b, vs, rk, on_err)
                if key in seen:
                    continue
                seen.add(key)
                blk = fn["blocks"][b]
                for s in blk["s"]:
                    if s[0] == "=" and s[1][0] == 0 and not s[1][1]:
                        rv = s[2]
                        if rv[0] == "agg" and isinstance(rv[1], dict) and rv[1].get("adt") == "core::result::Result":
                            rk = rv[1]["var"]
                        else:
                            rk = "unknown"
                tt = blk["t"]
                if tt[0] == "call" and tt[3][0] == 0 and not tt[3][1]:
                    rk = "Err" if (tt[1].get("dn") or "").endswith("from_residual") else "call"
                if on_err:
                    how = None
                    if b == cb:
                        how = "the loop goes on to the next step"
                    elif b in commits:
                        how = "the state is committed"
                    elif tt[0] == "ret" and rk not in ("Err",):
                        how = "a non-error value is returned"
                    if how:
                        cur = found.setdefault(how, set())
                        cur |= (set(vs) if vs is not None else {"*"})
                        if b == cb or tt[0] == "ret":
                            continue
                if tt[0] == "ret":
                    continue
                for tb, lab in g.succ[b]:
                    nvs, nerr = vs, on_err
                    dead = False
                    if tt[0] == "switch":
                        for f in cfg.edge_facts(db, fn, b, tb, lab):
                            if f[0] != "variant":
                                continue
                            bv = base_value(f[1])
                            if not (bv[0] == "call" and len(bv) > 3 and bv[3] == cb):
                                continue
                            if f[3] in ("Ok", "Continue") and f[4]:
                                if not _is_payload(f[1]):
                                    dead = True       # success side: not a swallow path
                            elif f[3] in ("Err", "Break") and f[4] and not _is_payload(f[1]):
                                nerr = True
                                if nvs is None:
                                    nvs = universe
                            elif _is_payload(f[1]) and universe is not None and f[3] in universe:
                                base = nvs if nvs is not None else universe
                                nvs = frozenset([f[3]]) & base if f[4] else base - {f[3]}
                                nerr = True
                    if dead:
                        continue
                    work.append((tb, nvs, rk, nerr))
            for how, vs in found.items():
                for i in idx:
                    out.append((cb, tg, i + 1, vs, how))
        return out


def _is_payload(e):
    """Is e (the scrutinee of a variant fact) the error payload `(.. as Err).0` rather than the Result itself?"""
    e = peel(e)
    while e[0] in ("ref", "deref"):
        e = peel(e[1])
    if e[0] == "field":
        inner = peel(e[1])
        return inner[0] == "down" and inner[2] in ("Err", "Break")
    return False


def cob_functions(db):
    """(fn, 1) for every function of the COB layers whose first parameter is a `&mut` (state mutators)."""
    out = []
    for fn in db.all_fns():
        if fn["crate"] not in ("radicle", "radicle_cob"):
            continue
        if not re.search(r"radicle::cob::|radicle_cob::", fn["key"]):
            continue
        if len(fn["locals"]) < 2 or not fn["locals"][1][0].startswith("&mut ") or fn.get("argc", 1) < 1:
            continue
        out.append((fn, 1))
    return out


def check(ctx, fns, keyprefix, what):
    """Evaluate the swallow rule on the given (fn, param) pairs."""
    from . import rules
    sw = Swallow(ctx.db)
    n = 0
    for fn, param in fns:
        merged = {}
        for cb, tg, p, vs, how in sw.sites(fn, param):
            k = (cb, tg["uid"], p)
            if k in merged:
                merged[k][3].update(vs)
                merged[k][4].append(how)
            else:
                merged[k] = [cb, tg, p, set(vs), [how]]
        for cb, tg, p, vs, hows in merged.values():
            how = "; ".join(sorted(set(hows)))
            n += 1
            dv = sw.dirty_err_variants(tg, p)
            key = "%s:%s:%s" % (keyprefix, cfg.short(fn["key"]), cfg.short(tg["key"]))
            inter = (vs & dv) - {"*"}
            star = ("*" in vs and dv) or ("*" in dv and vs)
            desc = "%s: errors {%s} of %s are ignored (%s)" % (what, ", ".join(sorted(vs)), cfg.short(tg["key"]), how)
            if inter:
                ctx.violated(key, desc + " although it may return {%s} after having modified the state it was given: the partial effect of a "
                                        "failed step is kept" % ", ".join(sorted(inter)), rules.where(fn, cb), fn=fn)
            elif star:
                ctx.ob(key, "inconclusive", desc + "; the callee may fail after writing with an error whose variant is not modelled (%s)" % sorted(dv),
                       rules.where(fn, cb), fn=fn)
            else:
                ctx.held(key, desc + "; it never returns those after writing (after writing only: {%s})" % ", ".join(sorted(dv)), rules.where(fn, cb), fn=fn)
    return n
