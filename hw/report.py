"""Obligation bookkeeping, known findings, evidence and VIOLATION output."""
import hashlib
import json
import os
import re
import sys
import time

VERIF = os.path.dirname(os.path.dirname(os.path.abspath(__file__)))


def load_known():
    """known_findings.txt: `finding: property=Cxx key=<key> :: <what fails>`
    and `fixed: property=Cxx <commit> <what failed>` (suppresses nothing)."""
    known = {}
    p = os.path.join(VERIF, "known_findings.txt")
    if os.path.exists(p):
        for line in open(p):
            line = line.strip()
            m = re.match(r"^finding:\s+property=(\S+)\s+key=(\S+)\s+::\s+(.*)$", line)
            if m:
                known[(m.group(1), m.group(2))] = m.group(3)
    return known


class Ctx:
    def __init__(self, pid, tier, db, tree_hash, dbrel=None, only_key=None):
        from . import rules as _rules
        _rules._DB = db
        self.pid = pid
        self.tier = tier
        self.db = db
        self.dbrel = dbrel
        self.tree_hash = tree_hash
        self.t0 = time.time()
        self.obs = []          # dicts
        self.sites = 0
        self.fn_seen = set()
        self.samples = []
        self.assumptions = []
        self.explanation = ""
        self.not_decided = ""
        self.rule_text = ""
        self.only_key = only_key
        self.exhaustive = True

    # ------------------------------------------------------------
    def ob(self, key, status, what, where="", detail=None, sites=1, fn=None):
        """Record one obligation. status: held | violated | inconclusive | assumed"""
        assert status in ("held", "violated", "inconclusive", "assumed"), status
        key = "%s:%s" % (self.pid, key)
        self.obs.append({"key": key, "status": status, "what": what, "where": where,
                         "detail": detail})
        self.sites += sites
        if fn is not None:
            self.fn_seen.add(fn if isinstance(fn, str) else fn["key"])
        return status == "held"

    def held(self, key, what, where="", detail=None, sites=1, fn=None):
        return self.ob(key, "held", what, where, detail, sites, fn)

    def violated(self, key, what, where="", detail=None, sites=1, fn=None):
        return self.ob(key, "violated", what, where, detail, sites, fn)

    def check(self, key, ok, what, where="", detail=None, sites=1, fn=None):
        return self.ob(key, "held" if ok else "violated", what, where, detail, sites, fn)

    def floor(self, key, count, floor, what):
        """A rule must match at least the number of sites confirmed by reading."""
        ok = count >= floor
        return self.ob("floor:" + key, "held" if ok else "violated",
                       "%s: %d site(s) matched, floor %d%s" % (
                           what, count, floor, "" if ok else " — anchor missing or instance count below the confirmed floor"),
                       sites=0)

    def sample(self, s):
        if len(self.samples) < 12:
            self.samples.append(s)

    # ------------------------------------------------------------
    def finish(self):
        known = load_known()
        wall = time.time() - self.t0
        viol = [o for o in self.obs if o["status"] == "violated"]
        if self.only_key:
            viol = [o for o in viol if o["key"] == self.only_key]
        new = []
        kf = []
        for o in viol:
            if (self.pid, o["key"]) in known:
                kf.append(o)
            else:
                new.append(o)
        nheld = sum(1 for o in self.obs if o["status"] == "held")
        ninc = sum(1 for o in self.obs if o["status"] == "inconclusive")
        nass = sum(1 for o in self.obs if o["status"] == "assumed")
        print("== %s (%s): %d obligations, %d held, %d violated (%d known), %d inconclusive, %d assumed; %d sites; %.1fs" % (
            self.pid, self.tier, len(self.obs), nheld, len(viol), len(kf), ninc, nass, self.sites, wall))
        for o in self.obs:
            if o["status"] in ("inconclusive", "assumed"):
                print("  %s: %s — %s %s" % (o["status"].upper(), o["key"], o["what"], o["where"]))
        for o in kf:
            print("KNOWN-FINDING: property=%s %s — %s [%s] (%s)" % (
                self.pid, o["key"], o["what"], o["where"], known[(self.pid, o["key"])]))
        os.makedirs(os.path.join(VERIF, "replays"), exist_ok=True)
        for o in new:
            hsh = hashlib.sha1(o["key"].encode()).hexdigest()[:12]
            rp = os.path.join(VERIF, "replays", "%s-%s.json" % (self.pid, hsh))
            with open(rp, "w") as f:
                json.dump({"property": self.pid, "key": o["key"], "what": o["what"],
                           "where": o["where"], "detail": o["detail"],
                           "tree": self.tree_hash}, f, indent=1, default=str)
            print("  violated: %s\n     %s\n     at %s" % (o["key"], o["what"], o["where"]))
            if o["detail"]:
                d = o["detail"] if isinstance(o["detail"], str) else json.dumps(o["detail"], default=str)
                print("     %s" % d[:1500])
            print("VIOLATION property=%s replay=%s" % (self.pid, rp))
        self.write_evidence(wall, len(new), len(kf), nheld, ninc, nass)
        return 1 if new else 0

    def write_evidence(self, wall, nnew, nkf, nheld, ninc, nass):
        keys = set(o["key"] for o in self.obs if not o["key"].split(":", 1)[1].startswith("floor:"))
        samples = list(self.samples)
        if not samples:
            samples = [{"key": o["key"], "status": o["status"], "what": o["what"], "where": o["where"]}
                       for o in self.obs[:8]]
        try:
            seed = int(os.environ.get("VERIF_SEED", "0"))
        except ValueError:
            seed = 0
        ev = {
            "property_id": self.pid,
            "tier": self.tier,
            "seed": seed,
            "level": "other",
            "coverage": {
                "explanation": self.explanation,
                "not_decided": self.not_decided,
                "rule": self.rule_text,
                "obligations": len(self.obs),
                "discharged": nheld,
                "inconclusive": ninc,
                "assumed": nass,
                "known_findings_reported": nkf,
                "evaluations": self.sites,
                "distinct_nontrivial": len(keys),
                "samples": samples,
                "functions_analysed": len(self.fn_seen),
                "fact_base": {"tree_hash": self.tree_hash, "functions": sum(1 for _ in self.db.all_fns()),
                              "units": len(self.db.units)},
                "checker_cmd": "./check %s --tier %s" % (self.pid, self.tier),
                "trusted_base": ["rustc nightly MIR construction and Instance::try_resolve",
                                 "hwx extractor", "hw rule engine and its reference tables"],
                "exhaustive": bool(self.exhaustive),
                "obligation_list": [{"key": o["key"], "status": o["status"], "what": o["what"],
                                     "where": o["where"]} for o in self.obs][:400],
            },
            "assumptions": self.assumptions,
            "wall_s": round(wall, 2),
            "violations": nnew,
        }
        os.makedirs(os.path.join(VERIF, "evidence"), exist_ok=True)
        p = os.path.join(VERIF, "evidence", "%s.json" % self.pid)
        tmp = p + ".tmp%d" % os.getpid()
        with open(tmp, "w") as f:
            json.dump(ev, f, indent=1, default=str)
        os.replace(tmp, p)
