"""FLOW: local def-use provenance with inheritance through parameters."""
import re

from . import cfg
from .cfg import graph, peel_calls, expr_operand, expr_rvalue, show
from .facts import strip_generics


def def_exprs(fn, local):
    """Expressions of every whole-local definition of `local`."""
    g = graph(fn)
    out = []
    for d in g.defs().get(local, []):
        if not d[4]:
            out.append(("unknown", "partial"))
        elif d[0] == "stmt":
            out.append(expr_rvalue(fn, d[3], 1, frozenset([local])))
        elif d[0] == "call":
            t = d[2]
            out.append(("call", t[1], [expr_operand(fn, a, 1, frozenset([local])) for a in t[2]], d[1]))
        else:
            out.append(("unknown", d[0]))
    return out


def call_sites_of(db, target):
    """[(caller fn, bb, term)] whose resolved callee is `target` (by key, same crate family)."""
    out = []
    key = target["key"]
    for fn, bb in db.callers().get(key, []):
        out.append((fn, bb, fn["blocks"][bb]["t"]))
    return out


def derives(db, fn, e, pred, depth=3, through=(), trace=None, _seen=None):
    """True iff expression e (in fn) derives from a source accepted by pred(expr, fn).
    Follows value-preserving wrappers, multi-def locals (all defs must derive) and
    parameters (all callers must pass a deriving value)."""
    if trace is None:
        trace = []
    if _seen is None:
        _seen = set()
    e = peel_calls(e, through)
    if pred(e, fn):
        return True
    k = e[0]
    if k == "phi":
        key = (fn["uid"], "l", e[1])
        if key in _seen:
            return True   # cycle through a loop-carried local: decided by its other defs
        _seen.add(key)
        ds = def_exprs(fn, e[1])
        if not ds:
            trace.append("%s: local _%d has no definition" % (fn["key"], e[1]))
            return False
        return all(derives(db, fn, d, pred, depth, through, trace, _seen) for d in ds)
    if k == "arg":
        if depth <= 0:
            trace.append("%s: parameter %d (inheritance depth exhausted)" % (fn["key"], e[1]))
            return False
        key = (fn["uid"], "a", e[1])
        if key in _seen:
            return True
        _seen.add(key)
        if "root" in fn:
            trace.append("%s: closure parameter %d" % (fn["key"], e[1]))
            return False
        sites = call_sites_of(db, fn)
        if not sites:
            trace.append("%s: parameter %d has no workspace caller" % (fn["key"], e[1]))
            return False
        ok = True
        for cf, bb, t in sites:
            if e[1] - 1 >= len(t[2]):
                ok = False
                continue
            ae = expr_operand(cf, t[2][e[1] - 1])
            if not derives(db, cf, ae, pred, depth - 1, through, trace, _seen):
                trace.append("  via call at %s:%d in %s" % (cf["file"], t[6], cf["key"]))
                ok = False
        return ok
    if k == "field" or k == "down":
        # a projection of something that derives counts as deriving (tuple results)
        return derives(db, fn, e[1], pred, depth, through, trace, _seen)
    trace.append("%s: %s" % (fn["key"], show(e)))
    return False


def from_call(pattern):
    r = re.compile(pattern) if isinstance(pattern, str) else pattern

    def pred(e, fn):
        return cfg.callee_is(e, r)
    return pred


def root_place(fn, op, depth=0):
    """Follow an operand back through moves/copies, `&`/`&mut`/reborrows and
    Deref/AsRef calls to the place it ultimately refers to: (local, proj) or None."""
    from .cfg import TRANSPARENT
    if depth > 12 or op[0] not in ("c", "m"):
        return None
    local, proj = op[1]
    g = graph(fn)
    ds = g.defs().get(local, [])
    if len(ds) != 1 or not ds[0][4]:
        return (local, [p for p in proj if p != "*"])
    d = ds[0]
    rest = [p for p in proj if p != "*"]
    if d[0] == "stmt":
        rv = d[3]
        if rv[0] == "use" and rv[1][0] in ("c", "m"):
            r = root_place(fn, rv[1], depth + 1)
            return (r[0], r[1] + rest) if r else None
        if rv[0] in ("ref", "raw"):
            r = root_place(fn, ["c", rv[2]], depth + 1)
            return (r[0], r[1] + rest) if r else None
        if rv[0] == "cast":
            r = root_place(fn, rv[2], depth + 1)
            return (r[0], r[1] + rest) if r else None
        return (local, rest)
    if d[0] == "call":
        t = d[2]
        if t[1].get("dn") in TRANSPARENT and t[2]:
            r = root_place(fn, t[2][0], depth + 1)
            return (r[0], r[1] + rest) if r else None
    return (local, rest)


def upvar_source(db, clo, idx):
    """For closure `clo`, the operand captured as environment field `idx`:
    returns (parent fn, expression in the parent) or None."""
    pname = clo.get("parent")
    if not pname:
        return None
    for par in db.by_key.get(strip_generics(pname), []):
        if par["unit"] != clo["unit"]:
            continue
        for b in par["blocks"]:
            for s in b["s"]:
                if s[0] == "=" and s[2][0] == "agg" and isinstance(s[2][1], dict) \
                        and s[2][1].get("closure") and strip_generics(s[2][1]["closure"]) == clo["key"]:
                    ops = s[2][2]
                    if idx < len(ops):
                        return par, expr_operand(par, ops[idx])
    return None


def iter_chain(fn, e, depth=0):
    """Walk an iterator-adapter chain expression back to its source.
    Returns (source expr, [(adapter name, closure name or None)]) outermost adapter last."""
    ADAPT = re.compile(r"core::iter::traits::iterator::Iterator::(filter|map|filter_map|take|skip|cloned|copied|flat_map|chain|take_while|skip_while|inspect|peekable|enumerate|rev)$")
    steps = []
    for _ in range(24):
        e = cfg.peel(e)
        if e[0] == "call" and ADAPT.search(e[1].get("dn") or ""):
            clo = None
            if len(e[2]) > 1:
                a = cfg.peel(e[2][1])
                if a[0] == "agg" and isinstance(a[1], dict) and a[1].get("closure"):
                    clo = (a[1]["closure"], a[2])
            steps.append((e[1]["dn"].rsplit("::", 1)[1], clo))
            e = e[2][0]
            continue
        if e[0] == "call" and (e[1].get("dn") or "").endswith("IntoIterator::into_iter") and e[2]:
            e = e[2][0]
            continue
        break
    return e, steps[::-1]


def closure_family(db, fn, name):
    """The closure `name` (constructed in fn's unit) and all closures nested in it."""
    key = strip_generics(name)
    out = []
    for f in db.by_key.get(key, []):
        if f["unit"] == fn["unit"]:
            out.append(f)
    for k, fs in db.by_key.items():
        if k.startswith(key + "::{closure#"):
            out.extend(f for f in fs if f["unit"] == fn["unit"])
    return out
