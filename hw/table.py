"""TABLE helpers: per-variant regions of a `match` on an enum parameter and the
outcome-producing sites inside them."""
import re

from . import cfg, rules
from .cfg import graph, expr_operand, expr_place, peel, peel_calls, nshow, show, base_value, walk


def variant_switch(db, fn, what):
    """The block that switches on the discriminant of the expression whose nshow() is `what`
    (e.g. 'arg2').  Returns (bb, {variant name: [target blocks]}, has_wildcard)."""
    g = graph(fn)
    best = None
    for bb in sorted(g.reachable_blocks()):
        t = fn["blocks"][bb]["t"]
        if t[0] != "switch":
            continue
        e = peel(expr_operand(fn, t[1]))
        if e[0] != "discr":
            continue
        if nshow(peel_calls(e[1])) != what:
            continue
        names = {}
        if len(e) > 3 and e[3]:
            names = {int(v): n for v, n in e[3]}
        if not names:
            names, _ = cfg.variant_names(db, e[2])
            names = names or {}
        tgt = {}
        listed = set()
        for v, tb in t[2]:
            iv = int(v)
            listed.add(iv)
            tgt.setdefault(names.get(iv, str(iv)), []).append(tb)
        other = t[3]
        rest = [n for v, n in names.items() if v not in listed]
        wildcard = False
        ob = fn["blocks"][other]
        if ob["t"][0] != "unreachable" or ob["s"]:
            # `otherwise` is real code: it stands for the variants not listed
            if len(rest) == 1:
                tgt.setdefault(rest[0], []).append(other)
            elif rest:
                wildcard = True
                for n in rest:
                    tgt.setdefault(n, []).append(other)
        best = (bb, tgt, wildcard, names)
        break
    return best


def regions(fn, targets_by_variant):
    """variant -> set(blocks) reachable from its targets, minus blocks common to all variants."""
    g = graph(fn)
    reach = {v: g.reach(ts) for v, ts in targets_by_variant.items()}
    if len(reach) > 1:
        common = set.intersection(*reach.values())
    else:
        common = set()
    return {v: r - common for v, r in reach.items()}, common


def outcome_sites(db, fn, blocks, enum_pattern):
    """Sites in `blocks` that produce a value of the outcome enum or an error.
    -> list of dicts {kind: const|from|err, bb, name|cond}"""
    rx = re.compile(enum_pattern)
    out = []
    for bb in sorted(blocks):
        b = fn["blocks"][bb]
        for j, s in enumerate(b["s"]):
            if s[0] == "=" and s[2][0] == "agg" and isinstance(s[2][1], dict):
                k = s[2][1]
                if k.get("adt") and rx.search(k["adt"]):
                    out.append({"kind": "const", "bb": bb, "idx": j, "name": k["var"]})
                elif k.get("adt") == "core::result::Result" and k.get("var") == "Err":
                    out.append({"kind": "err", "bb": bb, "idx": j})
        t = b["t"]
        if t[0] == "call":
            c = t[1]
            if (c.get("dn") in ("core::convert::From::from", "core::convert::Into::into")) and \
                    any(rx.search(x) for x in c.get("ga", [])) and "bool" in c.get("ga", []):
                out.append({"kind": "from", "bb": bb, "cond": expr_operand(fn, t[2][0])})
            elif "from_residual" in (c.get("n") or "") and t[3][0] == 0:
                out.append({"kind": "err", "bb": bb, "idx": None})
    return out


def bool_leaves(fn, e, depth=0):
    """Leaves of a boolean expression built from phi/const/Not/BitOr/BitAnd: the calls
    (comparisons) and constants it can evaluate to."""
    from .flow import def_exprs
    e = peel(e)
    if depth > 8:
        return [e]
    if e[0] == "phi":
        out = []
        for d in def_exprs(fn, e[1]):
            out.extend(bool_leaves(fn, d, depth + 1))
        return out
    if e[0] == "bin" and e[1] in ("BitOr", "BitAnd"):
        return bool_leaves(fn, e[2], depth + 1) + bool_leaves(fn, e[3], depth + 1)
    return [e]
