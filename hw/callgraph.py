"""Workspace call graph over hwx facts.

Edges: resolved calls (Instance::try_resolve); unresolved trait-method calls and
virtual calls fan out to every workspace impl of that trait method; closures are
edges from the function that constructs them; function values mentioned as
operands are edges from the mentioning function."""
from .facts import strip_generics


class CallGraph:
    def __init__(self, db):
        self.db = db
        self.by_key = {}
        for fn in db.all_fns():
            self.by_key.setdefault(fn["key"], []).append(fn)
        # trait method impls: (trait path, method) -> [fn]
        self.impls = {}
        for fn in db.all_fns():
            im = fn.get("impl")
            if im and im.get("trait") and fn.get("assoc_name"):
                self.impls.setdefault((im["trait"], fn["assoc_name"]), []).append(fn)
            td = fn.get("trait_default_of")
            if td and fn.get("assoc_name"):
                self.impls.setdefault((td, fn["assoc_name"]), []).append(fn)
        self.out = {}      # uid -> set(uid)
        self.ext = {}      # uid -> set(external callee names)
        self.unresolved = 0
        self.resolved = 0
        self.edges = 0
        self.fn_by_uid = {fn["uid"]: fn for fn in db.all_fns()}
        for fn in db.all_fns():
            outs = set()
            ext = set()
            for b in fn["blocks"]:
                t = b["t"]
                ops = []
                if t[0] in ("call", "tailcall"):
                    c = t[1]
                    ops = list(t[2])
                    if "d" in c:
                        tgt = self._targets(fn, c)
                        if tgt:
                            outs.update(x["uid"] for x in tgt)
                            self.resolved += 1
                        else:
                            ext.add(c["n"])
                            if not c.get("rn"):
                                self.unresolved += 1
                for s in b["s"]:
                    if s[0] == "=":
                        rv = s[2]
                        if rv[0] == "agg":
                            k = rv[1]
                            if isinstance(k, dict) and k.get("closure"):
                                for x in self._same_unit(fn, strip_generics(k["closure"])):
                                    outs.add(x["uid"])
                            ops.extend(rv[2])
                        elif rv[0] in ("use", "cast"):
                            ops.append(rv[1] if rv[0] == "use" else rv[2])
                for o in ops:
                    if o[0] == "k" and "fn" in o[1]:
                        k = o[1]
                        nm = strip_generics(k.get("r") or k["fn"])
                        for x in self._same_unit(fn, nm) or self.by_key.get(nm, []):
                            outs.add(x["uid"])
                        if not self.by_key.get(nm):
                            # unresolved trait method value
                            pass
            self.out[fn["uid"]] = outs
            self.ext[fn["uid"]] = ext
            self.edges += len(outs)
        self._rev = None

    def _same_unit(self, fn, key):
        c = self.by_key.get(key, [])
        same = [x for x in c if x["unit"] == fn["unit"]]
        return same or c

    def _targets(self, fn, c):
        rn = c.get("rn")
        if rn and c.get("rk") in ("item", "once_shim", "reify", "fnptr_shim", "clone_shim"):
            t = self._same_unit(fn, rn)
            if t:
                return t
            if c.get("rk") == "item":
                return []
        # unresolved or virtual: fan out over the trait method's impls
        tr = c.get("tr")
        if tr:
            m = c["dn"].rsplit("::", 1)[1]
            t = self.impls.get((tr, m), [])
            if rn and c.get("rk") == "item":
                return []
            return t
        if rn:
            return self._same_unit(fn, rn)
        return self._same_unit(fn, c["dn"])

    def rev(self):
        if self._rev is None:
            r = {}
            for a, outs in self.out.items():
                for b in outs:
                    r.setdefault(b, set()).add(a)
            self._rev = r
        return self._rev

    def reachable_from(self, fns):
        seen = set()
        work = [f["uid"] for f in fns]
        while work:
            u = work.pop()
            if u in seen:
                continue
            seen.add(u)
            work.extend(self.out.get(u, ()))
        return seen

    def reaching(self, fns):
        """uids of functions that can (transitively) call one of fns."""
        rev = self.rev()
        seen = set()
        work = [f["uid"] for f in fns]
        while work:
            u = work.pop()
            if u in seen:
                continue
            seen.add(u)
            work.extend(rev.get(u, ()))
        return seen

    def callers_of(self, fn):
        return [self.fn_by_uid[u] for u in self.rev().get(fn["uid"], ())]


_CG = {}


def callgraph(db):
    cg = _CG.get(id(db))
    if cg is None:
        cg = CallGraph(db)
        _CG[id(db)] = cg
    return cg
