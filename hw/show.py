"""Debug helper: python3 -m hw.show <regex> [--facts]  — print MIR listing of matching fns."""
import sys
from .extract import ensure_facts
from .facts import DB
from . import cfg

def main():
    d, h = ensure_facts()
    db = DB(d)
    pat = sys.argv[1]
    for fn in db.find(pat):
        print(cfg.dump(fn))
        if "--facts" in sys.argv:
            for bb, tb, lab, facts in cfg.all_edge_facts(db, fn):
                for f in facts:
                    if f[0] == "variant":
                        print("  edge bb%d->bb%d [%s]: %s is %s%s" % (bb, tb, lab, cfg.show(f[1]), "" if f[4] else "not ", f[3]))
                    elif f[0] == "bool":
                        print("  edge bb%d->bb%d [%s]: %s == %s" % (bb, tb, lab, cfg.show(f[1]), f[2]))
                    elif f[0] == "cmp":
                        print("  edge bb%d->bb%d [%s]: %s %s %s" % (bb, tb, lab, cfg.show(f[2]), f[1], cfg.show(f[3])))
                    else:
                        print("  edge bb%d->bb%d [%s]: %s" % (bb, tb, lab, f[0]))
        print()
main()
