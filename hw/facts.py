"""Load the JSON-lines fact base written by hwx and index it."""
import glob
import json
import os
import re


def strip_generics(s):
    """Remove `::<...>` generic-argument segments (balanced), keep `<T as Tr>`."""
    if "::<" not in s:
        return s
    if "::<impl " in s:
        s = _impl_segments(s)
        if "::<" not in s:
            return s
    out = []
    i = 0
    n = len(s)
    while i < n:
        if s.startswith("::<", i):
            depth = 0
            j = i + 2
            while j < n:
                c = s[j]
                if c == "<":
                    depth += 1
                elif c == ">" and s[j - 1] != "-":
                    depth -= 1
                    if depth == 0:
                        break
                j += 1
            i = j + 1
            continue
        out.append(s[i])
        i += 1
    return "".join(out)


def _impl_segments(s):
    """`a::b::<impl Tr for Ty>::m` -> `<Ty as Tr>::m` (trait impls printed in their
    defining module); inherent `::<impl Ty>` segments are left for the generic stripper."""
    i = s.find("::<impl ")
    while i != -1:
        depth = 0
        j = i + 2
        while j < len(s):
            c = s[j]
            if c == "<":
                depth += 1
            elif c == ">" and s[j - 1] != "-":
                depth -= 1
                if depth == 0:
                    break
            j += 1
        body = s[i + 8:j]
        # split on the top-level " for "
        d = 0
        k = 0
        pos = -1
        while k < len(body):
            ch = body[k]
            if ch in "<([":
                d += 1
            elif ch in ">)]" and body[k - 1] != "-":
                d -= 1
            elif d == 0 and body.startswith(" for ", k):
                pos = k
                break
            k += 1
        if pos == -1:
            i = s.find("::<impl ", j)
            continue
        tr, ty = body[:pos], body[pos + 5:]
        # the prefix before `::<impl` is the defining module path: drop it (may be nested in `<.. as ..>`)
        start = i
        while start > 0 and (s[start - 1].isalnum() or s[start - 1] in "_:"):
            start -= 1
        s = s[:start] + "<" + ty + " as " + tr + ">" + s[j + 1:]
        i = s.find("::<impl ", start + 1)
    return s


_TYARG = re.compile(r"<[^<>]*>")


def strip_type_args(s):
    """`a::B<X, Y<Z>>` -> `a::B` (all angle groups that are not `<T as Tr>`)."""
    prev = None
    while prev != s:
        prev = s
        s = _TYARG.sub(lambda m: m.group(0) if " as " in m.group(0) else "", s)
    return s


class Fn(dict):
    __slots__ = ("_g",)

    @property
    def name(self):
        return self["n"]

    @property
    def key(self):
        return self["key"]

    def where(self, line=None):
        return "%s:%s" % (self["file"], line if line is not None else self["line"])

    def local_ty(self, l):
        return self["locals"][l][0]

    def local_name(self, l):
        return self["locals"][l][1]


class DB:
    def __init__(self, d):
        self.dir = d
        self.fns = {}        # full name -> Fn   (first wins; duplicates kept in by_key)
        self.by_key = {}     # generic-stripped name -> [Fn]
        self.adts = {}       # path -> adt record
        self.impls = []
        self.traits = {}
        self.consts = {}
        self.crates = {}
        self.closures_of = {}   # root fn name -> [closure Fn]
        self._callers = None
        files = sorted(glob.glob(os.path.join(d, "*.jsonl")))
        for f in files:
            unit = os.path.basename(f)[:-6]
            with open(f) as fh:
                for line in fh:
                    r = json.loads(line)
                    k = r["k"]
                    if k == "fn":
                        fn = Fn(r)
                        fn["unit"] = unit
                        fn["key"] = strip_generics(fn["n"])
                        uid = unit + "::" + fn["n"]
                        fn["uid"] = uid
                        # executables and their libs may define same-named items
                        if fn["n"] in self.fns:
                            self.fns[uid] = fn
                        else:
                            self.fns[fn["n"]] = fn
                        self.by_key.setdefault(fn["key"], []).append(fn)
                        if "root" in fn:
                            self.closures_of.setdefault(fn["root"], []).append(fn)
                        self._prep(fn)
                    elif k == "adt":
                        self.adts.setdefault(r["n"], r)
                    elif k == "impl":
                        r["unit"] = unit
                        self.impls.append(r)
                    elif k == "trait":
                        self.traits.setdefault(r["n"], r)
                    elif k == "const":
                        self.consts.setdefault(r["n"], r)
                    elif k == "crate":
                        self.crates[unit] = r
                    elif k == "end":
                        self.crates[unit]["fns"] = r["fns"]
        self.units = [os.path.basename(f)[:-6] for f in files]

    @staticmethod
    def _prep(fn):
        for b in fn["blocks"]:
            t = b["t"]
            if t[0] == "call" or t[0] == "tailcall":
                c = t[1]
                if "d" in c:
                    c["dn"] = strip_generics(c["d"])
                    r = c.get("r")
                    c["rn"] = strip_generics(r) if r else None
                    c["n"] = c["rn"] or c["dn"]
                else:
                    c["n"] = None

    # ------------------------------------------------------------ queries
    def all_fns(self):
        seen = set()
        for fn in self.fns.values():
            if id(fn) in seen:
                continue
            seen.add(id(fn))
            yield fn

    def find(self, pattern, crate=None):
        """Functions whose generic-stripped name matches the regex (search)."""
        rx = re.compile(pattern)
        out = []
        for fn in self.all_fns():
            if crate and fn["crate"] != crate:
                continue
            if rx.search(fn["key"]):
                out.append(fn)
        return out

    def one(self, pattern, crate=None):
        fs = self.find(pattern, crate)
        if len(fs) != 1:
            return None
        return fs[0]

    def root_of(self, fn):
        """Enclosing non-closure function of a closure (or fn itself)."""
        r = fn.get("root")
        if not r:
            return fn
        cands = [f for f in self.by_key.get(strip_generics(r), []) if f["unit"] == fn["unit"]]
        return cands[0] if cands else fn

    def calls(self, fn):
        """Yield (bb, term, callee) for call terminators of fn."""
        for i, b in enumerate(fn["blocks"]):
            t = b["t"]
            if t[0] == "call" and not b.get("c"):
                yield i, t, t[1]

    def callers(self):
        """callee name (resolved or def, generic-stripped) -> [(fn, bb)]"""
        if self._callers is None:
            m = {}
            for fn in self.all_fns():
                for bb, t, c in self.calls(fn):
                    if c.get("n"):
                        m.setdefault(c["n"], []).append((fn, bb))
                        if c.get("rn") and c["dn"] != c["rn"]:
                            m.setdefault("~" + c["dn"], []).append((fn, bb))
            self._callers = m
        return self._callers

    def call_sites(self, pattern, in_fns=None):
        """All call sites whose callee (resolved or declared) matches regex."""
        rx = re.compile(pattern)
        out = []
        fns = in_fns if in_fns is not None else self.all_fns()
        for fn in fns:
            for bb, t, c in self.calls(fn):
                n = c.get("n")
                if n and (rx.search(n) or (c.get("dn") and rx.search(c["dn"]))):
                    out.append((fn, bb))
        return out

    def adt(self, path):
        return self.adts.get(strip_type_args(strip_generics(path)))
