"""PANIC rule: enumerate panic sources reachable from entry points through the
workspace call graph and compare them with a committed review table."""
import re

from . import cfg, rules
from .callgraph import callgraph
from .facts import strip_generics

# callee (declared, generic-stripped) -> kind
PANIC_CALLS = [
    (re.compile(r"^core::panicking::(panic|panic_fmt|panic_display|panic_explicit|panic_nounwind|assert_failed|assert_matches_failed|unreachable_display|panic_str.*|panic_const::.*|panic_bounds_check|panic_misaligned.*|panic_null.*)$"), "panic"),
    (re.compile(r"^std::rt::(begin_panic|panic_fmt|begin_panic_fmt)$|^std::panicking::begin_panic$"), "panic"),
    (re.compile(r"^core::option::Option::(unwrap|expect)$"), "unwrap"),
    (re.compile(r"^core::result::Result::(unwrap|expect|unwrap_err|expect_err)$"), "unwrap"),
    (re.compile(r"^core::option::(unwrap_failed|expect_failed)$|^core::result::unwrap_failed$"), "panic"),
    (re.compile(r"^core::ops::index::(Index::index|IndexMut::index_mut)$"), "index"),
    (re.compile(r"^alloc::vec::Vec::(remove|insert|swap_remove|drain|split_off|splice)$"), "vecop"),
    (re.compile(r"^alloc::collections::vec_deque::VecDeque::(remove|insert|swap_remove_back|drain|split_off|swap)$"), "vecop"),
    (re.compile(r"^alloc::string::String::(remove|insert|insert_str|drain|split_off|replace_range|truncate)$"), "strop"),
    (re.compile(r"^core::slice::(split_at|split_at_mut|copy_from_slice|clone_from_slice|swap|rotate_left|rotate_right|chunks|chunks_exact|windows|copy_within)$"), "sliceop"),
    (re.compile(r"^core::str::(split_at|split_at_mut)$"), "strop"),
    (re.compile(r"^core::cell::RefCell::(borrow|borrow_mut)$"), "refcell"),
    (re.compile(r"^std::process::(abort|exit)$"), "exit"),
    (re.compile(r"^core::time::Duration::(from_secs_f64|from_secs_f32|mul_f64|mul_f32|div_f64)$"), "time"),
    (re.compile(r"^<std::time::Instant as core::ops::arith::(Add|Sub)<core::time::Duration>>::(add|sub)$|^<core::time::Duration as core::ops::arith::(Add|Sub|Mul<u32>)>::(add|sub|mul)$"), "time"),
    (re.compile(r"^core::num::(div_ceil|next_multiple_of|pow|ilog2|ilog10|ilog|abs|neg)$"), "arith"),
    (re.compile(r"^core::iter::traits::iterator::Iterator::step_by$|^core::char::methods::from_digit$"), "arith"),
    # localtime: `LocalTime - LocalDuration` is a plain u128/u64 subtraction (underflow panics with overflow checks, wraps without)
    (re.compile(r"^<localtime::LocalTime as core::ops::arith::Sub<localtime::LocalDuration>>::sub$"), "timesub"),
    # sqlite's panicking column accessor: `Row::read::<T>(col)` = `try_read(col).unwrap()`
    (re.compile(r"^sqlite::cursor::Row::read$"), "dbread"),
]
ASSERT_KINDS = {"BoundsCheck": "bounds", "DivisionByZero": "div", "RemainderByZero": "div"}


def sources(fn):
    """[(key suffix, kind, what, bb, line, exp)] for every panic source in fn."""
    out = []
    counts = {}
    for i, b in enumerate(fn["blocks"]):
        if b.get("c"):
            continue
        t = b["t"]
        hit = None
        if t[0] == "call" and "d" in t[1]:
            c = t[1]
            dn = c.get("dn") or ""
            rn = c.get("rn") or ""
            for rx_, kind in PANIC_CALLS:
                if rx_.search(dn) or (rn and rx_.search(rn)):
                    what = cfg.short(rn or dn)
                    if kind == "index":
                        ga = c.get("ga", [])
                        what = "index %s[%s]" % (strip_ty(ga[0]) if ga else "?", strip_ty(ga[1]) if len(ga) > 1 else "?")
                    if kind == "dbread":
                        ga = c.get("ga", [])
                        what = "Row::read<%s>" % (ga[0] if ga else "?")
                    hit = (kind, what, t[6], t[7])
                    break
        elif t[0] == "assert":
            k = ASSERT_KINDS.get(t[3])
            if k:
                hit = (k, t[3], t[6], t[7])
            elif t[3] == "Overflow" and _overflow_op(fn, t) == "Sub":
                # unsigned subtraction: underflow panics in builds with overflow checks and wraps otherwise,
                # after which the huge value typically sizes a slice/allocation; additions/multiplications of
                # in-memory sizes are not counted (stated assumption: 64-bit usize)
                hit = ("sub", "SubWithOverflow", t[6], t[7])
        if hit:
            kind, what, line, exp = hit
            base = "%s:%s" % (kind, what)
            n = counts.get(base, 0)
            counts[base] = n + 1
            out.append(("%s#%d" % (base, n), kind, what, i, line, exp))
    return out


def _overflow_op(fn, t):
    c = t[1]
    if c[0] in ("c", "m"):
        for d in cfg.graph(fn).defs().get(c[1][0], []):
            if d[0] == "stmt" and d[3][0] == "bin":
                return d[3][1].replace("WithOverflow", "")
    return None


def sub_guarded(db, fn, bb):
    """The `a - b` whose overflow assertion ends block bb is dominated by a branch establishing a >= b."""
    t = fn["blocks"][bb]["t"]
    c = t[1]
    if c[0] not in ("c", "m"):
        return False
    a = b = None
    for d in cfg.graph(fn).defs().get(c[1][0], []):
        if d[0] == "stmt" and d[3][0] == "bin" and d[3][1].startswith("Sub"):
            a = cfg.nshow(cfg.peel(cfg.expr_operand(fn, d[3][2])))
            b = cfg.nshow(cfg.peel(cfg.expr_operand(fn, d[3][3])))
    if a is None:
        return False

    def ge(f):
        if f[0] != "cmp":
            return False
        l, r = cfg.nshow(cfg.peel(f[2])), cfg.nshow(cfg.peel(f[3]))
        return (f[1] in ("Ge", "Gt") and l == a and r == b) or (f[1] in ("Le", "Lt") and l == b and r == a)
    ok, allow, _ = rules.dom_check(db, fn, [bb], ge)
    return bool(ok and allow)


def _min_args(e):
    """operands of an `Ord::min(a, b)` / `cmp::min(a, b)` expression (shown), or None"""
    e = cfg.peel(e)
    if e[0] == "call" and re.search(r"(cmp::Ord::min|core::cmp::min|::min)$", e[1].get("n") or e[1].get("dn") or "") and len(e[2]) == 2:
        return [cfg.nshow(cfg.peel(x)) for x in e[2]], e[2]
    return None


def sub_min_bounded(fn, bb):
    """`a - b` where b was computed as min(a, ..): cannot underflow."""
    t = fn["blocks"][bb]["t"]
    c = t[1]
    if c[0] not in ("c", "m"):
        return False
    for d in cfg.graph(fn).defs().get(c[1][0], []):
        if d[0] == "stmt" and d[3][0] == "bin" and d[3][1].startswith("Sub"):
            a = cfg.nshow(cfg.peel(cfg.expr_operand(fn, d[3][2])))
            m = _min_args(cfg.expr_operand(fn, d[3][3]))
            if m and a in m[0]:
                return True
            # a is a loop-carried local: compare by root local instead of by value
            ra, rb = d[3][2], d[3][3]
            if rb[0] in ("c", "m"):
                for d2 in cfg.graph(fn).defs().get(rb[1][0], []):
                    if d2[0] == "call" and re.search(r"(cmp::Ord::min|core::cmp::min)$", d2[2][1].get("n") or d2[2][1].get("dn") or ""):
                        args = d2[2][2]
                        if ra[0] in ("c", "m") and any(x[0] in ("c", "m") and x[1][0] == ra[1][0] for x in args):
                            return True
    return False


def index_min_bounded(fn, bb):
    """`arr[..n]` on a fixed-size array where n = min(.., N) with N the array length (or arr.len())."""
    t = fn["blocks"][bb]["t"]
    ga = t[1].get("ga") or []
    if len(ga) < 2 or "RangeTo" not in ga[1]:
        return False
    mlen = re.match(r"^\[.*; (\d+)\]$", ga[0].strip())
    if not mlen:
        return False
    n = int(mlen.group(1))
    rng = cfg.peel(cfg.expr_operand(fn, t[2][1]))
    if rng[0] == "agg" and rng[2]:
        end = rng[2][-1]
        # the end operand: defined by a call to min(.., const N)
        e = cfg.peel(end)
        if e[0] == "phi":
            for d in cfg.graph(fn).defs().get(e[1], []):
                if d[0] == "call" and re.search(r"(cmp::Ord::min|core::cmp::min)$", d[2][1].get("n") or d[2][1].get("dn") or ""):
                    for x in d[2][2]:
                        v = cfg.peel(cfg.expr_operand(fn, x))
                        if v[0] == "const" and str(v[1].get("v")) == str(n):
                            return True
            return False
        m = _min_args(e)
        if m:
            recv = cfg.nshow(cfg.peel(cfg.expr_operand(fn, t[2][0])))
            for x, shown in zip(m[1], m[0]):
                v = cfg.peel(x)
                if v[0] == "const" and str(v[1].get("v")) == str(n):
                    return True
                # min(.., arr.len()) of the very array that is indexed
                if v[0] == "call" and (v[1].get("n") or "").endswith("slice::len") and recv and recv in shown:
                    return True
    return False


def strip_ty(t):
    t = re.sub(r"^&(mut )?", "", t)
    from .facts import strip_type_args
    return cfg.short(strip_type_args(t)) or t


def is_debug_only(exp):
    return bool(exp) and "debug_assert" in exp


class Review:
    """table: {(fn key regex or exact key, source key regex): (class, reason[, guard])}"""

    def __init__(self, rows):
        self.rows = [(re.compile(f), re.compile(s), cls, reason, guard) for f, s, cls, reason, guard in rows]
        self.used = set()

    def lookup(self, fnkey, skey):
        for i, (f, s, cls, reason, guard) in enumerate(self.rows):
            if f.search(fnkey) and s.search(skey):
                self.used.add(i)
                return cls, reason, guard
        return None


def run_panic(ctx, entries_patterns, in_scope, review, label, floor_fns, floor_sources, auto=None):
    """Evaluate the PANIC rule.
    in_scope(fn) -> bool: functions whose sources must be reviewed.
    review: Review table.  auto(fn, source) -> (class, reason) | None for rule-based classes."""
    db = ctx.db
    cg = callgraph(db)
    entries = []
    for p in entries_patterns:
        fs = db.find(p)
        if not fs:
            ctx.violated("panic:entry:%s" % p, "entry point %s not found (anchor missing)" % p)
        entries.extend(fs)
    reach = cg.reachable_from(entries)
    fns = [cg.fn_by_uid[u] for u in reach]
    scoped = [f for f in fns if in_scope(f)]
    ctx.floor("%s:reachable" % label, len(scoped), floor_fns, "functions in the reviewed scope reachable from the entry points")
    n_src = 0
    n_out = 0
    classes = {}
    for f in fns:
        srcs = sources(f)
        if not in_scope(f):
            n_out += len(srcs)
            continue
        for skey, kind, what, bb, line, exp in srcs:
            n_src += 1
            key = "panic:%s:%s" % (f["key"], skey)
            where = rules.where(f, bb)
            if is_debug_only(exp):
                cls = ("DEBUG", "debug assertion: compiled out of release builds", None)
            else:
                cls = review.lookup(f["key"], skey)
                if cls is None and kind == "sub" and sub_guarded(db, f, bb):
                    cls = ("SAFE", "dominated by a comparison establishing minuend >= subtrahend", None)
                if cls is None and kind == "sub" and sub_min_bounded(f, bb):
                    cls = ("SAFE", "the subtrahend is min(minuend, ..)", None)
                if cls is None and kind == "index" and index_min_bounded(f, bb):
                    cls = ("SAFE", "the range end is min(.., length of the indexed array)", None)
                if cls is None and auto:
                    a = auto(f, (skey, kind, what, bb, line, exp))
                    if a:
                        cls = (a[0], a[1], None)
            if cls is None:
                ctx.violated(key, "unreviewed panic source (%s %s%s) on a path reachable from remote input" % (
                    kind, what, " in " + exp if exp else ""), where, fn=f)
                continue
            c, reason, guard = cls
            classes[c] = classes.get(c, 0) + 1
            if c == "FINDING":
                ctx.violated(key, "panic source reachable from remote input: %s" % reason, where, fn=f)
            elif c == "ASSUMED":
                ctx.ob(key, "assumed", "%s %s: %s" % (kind, what, reason), where, fn=f)
            elif c == "GUARDED" and guard is not None:
                ok, msg = guard(ctx, f, bb)
                ctx.check(key, ok, "%s %s is guarded: %s%s" % (kind, what, reason, "" if ok else " — GUARD MISSING: " + msg), where, fn=f)
            else:
                ctx.held(key, "%s %s: %s (%s)" % (kind, what, c, reason), where, fn=f)
    ctx.floor("%s:sources" % label, n_src, floor_sources, "panic sources enumerated in the reviewed scope")
    ctx.panic_stats = {"reachable_functions": len(fns), "in_scope_functions": len(scoped), "sources_in_scope": n_src,
                       "sources_outside_scope_not_decided": n_out, "by_class": classes}
    return fns, scoped
