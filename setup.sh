#!/bin/sh
# Build the extractor and warm the dependency artefacts + fact base for /repo's current tree.
# Offline; everything lives under /verif/.cache and /verif/extractor/target.
set -e
cd "$(dirname "$0")"
export CARGO_NET_OFFLINE=true
(cd extractor && cargo build --release --offline)
python3 -m hw.extract
