#!/bin/sh
# placeholder until the extractor exists
exit 0
