"""Behaviour-preserving refactors of /repo used as a *silence test*: applied together to a scratch copy, no check
may report a violation that it does not report on the unchanged tree.  Each entry: (file, old, new); `old` must
occur exactly `count` times (default 1).  `python3 -m hw.silence` applies them, re-extracts and runs every check."""

F = "crates/radicle-fetch/src/"
R = "crates/radicle/src/"
N = "crates/radicle-node/src/"

REFACTORS = [
    # S1: rename the accumulators of FetchState::run
    ("s1", F + "state.rs", "let mut failures = sigrefs::Validations::default();", "let mut problems = sigrefs::Validations::default();", 1),
    ("s1", F + "state.rs", "failures.push(", "problems.push(", 2),
    ("s1", F + "state.rs", "failures.append(", "problems.append(", 2),
    ("s1", F + "state.rs", "                validations: failures,", "                validations: problems,", 2),
    ("s1", F + "state.rs", "                failures.len(),", "                problems.len(),", 1),
    ("s1", F + "state.rs", "valid_delegates", "ok_delegates", 5),
    ("s1", F + "state.rs", "let mut failed_delegates = BTreeSet::new();", "let mut bad_delegates = BTreeSet::new();", 1),
    ("s1", F + "state.rs", "failed_delegates.insert(remote);", "bad_delegates.insert(remote);", 2),
    ("s1", F + "state.rs", "                delegates: failed_delegates,", "                delegates: bad_delegates,", 1),
    # S2: rename the locals of Cached::validate_remote
    ("s2", F + "state.rs", "has_sigrefs", "seen_sigrefs_branch", 3),
    # S3: Authorization::from(bool) -> if/else
    ("s3", R + "cob/issue.rs", "            Action::Edit { .. } => Authorization::from(*actor == author),",
     "            Action::Edit { .. } => {\n                if *actor == author {\n                    Authorization::Allow\n                } else {\n                    Authorization::Deny\n                }\n            }", 1),
    # S4: is_authorized with the branches swapped
    ("s4", N + "worker.rs", "        if !doc.is_visible_to(&remote.into()) {\n            Err(UploadError::Unauthorized(remote, rid))\n        } else {\n            Ok(())\n        }",
     "        if doc.is_visible_to(&remote.into()) {\n            Ok(())\n        } else {\n            Err(UploadError::Unauthorized(remote, rid))\n        }", 1),
    # S5: decoder with the reads inlined into the struct literal (same order)
    ("s5", N + "wire/message.rs", "        let rid = RepoId::decode(reader)?;\n        let refs = BoundedVec::<_, REF_REMOTE_LIMIT>::decode(reader)?;\n        let timestamp = Timestamp::decode(reader)?;\n\n        Ok(Self {\n            rid,\n            refs,\n            timestamp,\n        })",
     "        Ok(Self {\n            rid: RepoId::decode(reader)?,\n            refs: BoundedVec::<_, REF_REMOTE_LIMIT>::decode(reader)?,\n            timestamp: Timestamp::decode(reader)?,\n        })", 1),
    # S6: adopt's write extracted into a helper
    ("s6", R + "cob/identity.rs", "        if self.is_majority(votes) {\n            self.current = id;\n            self.current_mut().state = State::Accepted;\n",
     "        if self.is_majority(votes) {\n            self.promote(id);\n", 1),
    ("s6", R + "cob/identity.rs", "    fn adopt(&mut self, id: RevisionId) {",
     "    fn promote(&mut self, id: RevisionId) {\n        self.current = id;\n        self.current_mut().state = State::Accepted;\n    }\n\n    fn adopt(&mut self, id: RevisionId) {", 1),
    # S7: extra logging around guards
    ("s7", N + "service.rs", "        if !announcement.verify() {\n            return Err(session::Error::Misbehavior);\n        }",
     "        if !announcement.verify() {\n            debug!(target: \"service\", \"Invalid signature on announcement from {relayer}\");\n            return Err(session::Error::Misbehavior);\n        }", 1),
    ("s7", N + "service.rs", "                if ponglen > Ping::MAX_PONG_ZEROES {\n                    return Ok(());\n                }",
     "                if ponglen > Ping::MAX_PONG_ZEROES {\n                    trace!(target: \"service\", \"Ignoring ping asking for {ponglen} bytes\");\n                    return Ok(());\n                }", 1),
    # S8: timestamp(): same logic, restructured
    ("s8", N + "service.rs", "        if *now > *self.last_timestamp {\n            self.last_timestamp = now;\n        } else {\n            self.last_timestamp = self.last_timestamp + 1;\n        }",
     "        self.last_timestamp = if *now > *self.last_timestamp {\n            now\n        } else {\n            self.last_timestamp + 1\n        };", 1),
    # S9: TokenBucket::take with an early return
    ("s9", N + "service/limiter.rs", "        if self.tokens >= 1.0 {\n            self.tokens -= 1.0;\n            true\n        } else {\n            false\n        }",
     "        if self.tokens < 1.0 {\n            return false;\n        }\n        self.tokens -= 1.0;\n        true", 1),
    # S10: Repository::clean guard split in two
    ("s10", R + "storage/git.rs", "            if *local == id || delegates.contains(&id) {\n                continue;\n            }",
     "            if *local == id {\n                continue;\n            }\n            if delegates.contains(&id) {\n                continue;\n            }", 1),
    # S11: pkt-line length test written with a range
    ("s11", N + "worker/upload_pack.rs", "            if length < HEADER_LEN || length > buf.len() {", "            if !(HEADER_LEN..=buf.len()).contains(&length) {", 1),
    # S12: authorization outcome matched instead of `if let Err`
    ("s12", N + "worker.rs", "                if let Err(e) = self.is_authorized(remote, header.repo) {\n                    return FetchResult::Responder {\n                        rid: Some(header.repo),\n                        result: Err(e),\n                    };\n                }",
     "                match self.is_authorized(remote, header.repo) {\n                    Ok(()) => {}\n                    Err(e) => {\n                        return FetchResult::Responder {\n                            rid: Some(header.repo),\n                            result: Err(e),\n                        };\n                    }\n                }", 1),
    # S13: signature check propagated with `?`
    ("s13", R + "storage/refs.rs", "        if let Err(e) = self.id.verify(canonical, &self.signature) {\n            return Err(e.into());\n        }",
     "        self.id.verify(canonical, &self.signature)?;", 1),
    # S14: deserialize_next without a match guard
    ("s14", N + "deserializer.rs", "            Err(err) if err.is_eof() => Ok(None),\n            Err(err) => Err(err),",
     "            Err(err) => {\n                if err.is_eof() {\n                    Ok(None)\n                } else {\n                    Err(err)\n                }\n            }", 1),
    # S15: rate limiter bypass tests restructured
    ("s15", N + "service/limiter.rs", "        if let Some(nid) = nid {\n            if self.bypass.contains(nid) {\n                return false;\n            }\n        }",
     "        if nid.is_some_and(|nid| self.bypass.contains(nid)) {\n            return false;\n        }", 1),
    # S16: SQL keywords in lower case and re-wrapped
    ("s16", R + "node/routing.rs", "WHERE timestamp < ?3", "where timestamp < ?3", 1),
    # S17: gossip handler: verify() matched
    ("s17", N + "service.rs", "        if !announcement.verify() {\n            return Err(session::Error::Misbehavior);\n        }",
     "        match announcement.verify() {\n            true => {}\n            false => return Err(session::Error::Misbehavior),\n        }", 1),
    # S18: evaluate closure with the two prune conditions joined
    ("s18", "crates/radicle-cob/src/change_graph.rs", "                if !entry.valid_signatures() {\n                    return ControlFlow::Break(());\n                }\n                // Apply the entry to the state, and if there's an error, prune that branch.\n                if object\n                    .apply(entry, siblings.map(|(k, n)| (k, &n.value)), store)\n                    .is_err()\n                {\n                    return ControlFlow::Break(());\n                }\n                ControlFlow::Continue(())",
     "                if !entry.valid_signatures()\n                    || object\n                        .apply(entry, siblings.map(|(k, n)| (k, &n.value)), store)\n                        .is_err()\n                {\n                    return ControlFlow::Break(());\n                }\n                ControlFlow::Continue(())", 1),
    # S19: Storage::clean with an early return for the removal case
    ("s19", R + "storage/git.rs", "        if has_sigrefs {\n            repo.clean(&self.info.key)\n        } else {\n            let remotes = repo.remote_ids()?.collect::<Result<_, _>>()?;\n            repo.remove()?;\n            Ok(remotes)\n        }",
     "        if !has_sigrefs {\n            let remotes = repo.remote_ids()?.collect::<Result<_, _>>()?;\n            repo.remove()?;\n            return Ok(remotes);\n        }\n        repo.clean(&self.info.key)", 1),
    # S20: try_fetch: the two session checks in the other order
    ("s20", N + "service.rs", "        if !session.is_connected() {\n            // This can happen if a session disconnects in the time between asking for seeds to\n            // fetch from, and initiating the fetch from one of those seeds.\n            return Err(TryFetchError::SessionNotConnected);\n        }\n        if session.is_at_capacity() {\n            // If we're already fetching multiple repos from this peer.\n            return Err(TryFetchError::SessionCapacityReached);\n        }",
     "        if session.is_at_capacity() {\n            // If we're already fetching multiple repos from this peer.\n            return Err(TryFetchError::SessionCapacityReached);\n        }\n        if !session.is_connected() {\n            return Err(TryFetchError::SessionNotConnected);\n        }", 1),
    # S21: is_visible_to as an if-let
    ("s21", R + "identity/doc.rs", "        match &self.visibility {\n            Visibility::Public => true,\n            Visibility::Private { allow } => allow.contains(did) || self.is_delegate(did),\n        }",
     "        if let Visibility::Private { allow } = &self.visibility {\n            return allow.contains(did) || self.is_delegate(did);\n        }\n        true", 1),
    # S22: accept(): signature result matched
    ("s22", R + "cob/identity.rs", "        if current\n            .verify_signature(&author, &signature, self.blob)\n            .is_err()\n        {\n            return Err(ApplyError::InvalidSignature(author, self.blob));\n        }\n        if self",
     "        match current.verify_signature(&author, &signature, self.blob) {\n            Ok(()) => {}\n            Err(_) => return Err(ApplyError::InvalidSignature(author, self.blob)),\n        }\n        if self", 1),
    # S23: let-else on the merging delegate's head written as a match
    ("s23", R + "cob/patch.rs", "                        let Ok(head) = repo.reference_oid(&author, &branch) else {\n                            return Ok(());\n                        };",
     "                        let head = match repo.reference_oid(&author, &branch) {\n                            Ok(head) => head,\n                            Err(_) => return Ok(()),\n                        };", 1),
    # S24: the quorum-lost reset written with `if let`
    ("s24", R + "cob/patch.rs", "                        if matches!(self.state, State::Merged { .. }) {\n                            self.state = State::Open { conflicts: vec![] };\n                        }",
     "                        if let State::Merged { .. } = self.state {\n                            self.state = State::Open { conflicts: vec![] };\n                        }", 1),
    # S25: issue Cache::remove with if-let instead of match
    ("s25", R + "cob/issue/cache.rs", "        match self.store.get(id)? {\n            Some(object) => {\n                self.update(&self.rid(), id, &object)\n                    .map_err(|e| super::Error::CacheUpdate {\n                        id: *id,\n                        err: e.into(),\n                    })?;\n            }\n            None => {\n                self.cache\n                    .remove(id)\n                    .map_err(|e| super::Error::CacheRemove {\n                        id: *id,\n                        err: e.into(),\n                    })?;\n            }\n        }",
     "        if let Some(object) = self.store.get(id)? {\n            self.update(&self.rid(), id, &object)\n                .map_err(|e| super::Error::CacheUpdate {\n                    id: *id,\n                    err: e.into(),\n                })?;\n        } else {\n            self.cache\n                .remove(id)\n                .map_err(|e| super::Error::CacheRemove {\n                    id: *id,\n                    err: e.into(),\n                })?;\n        }", 1),
    # S26: is_authorized without the intermediate `policy` local
    ("s26", N + "worker.rs", "        let policy = self.policies.seed_policy(&rid)?.policy;\n        // Check policy first, since if we're blocking then we likely don't have\n        // the repository.\n        if policy.is_block() {",
     "        // Check policy first, since if we're blocking then we likely don't have\n        // the repository.\n        if self.policies.seed_policy(&rid)?.policy.is_block() {", 1),
    # S27: Comment::author through a destructuring pattern
    ("s27", R + "cob/thread.rs", "    pub fn author(&self) -> ActorId {\n        self.author\n    }",
     "    pub fn author(&self) -> ActorId {\n        let Self { author, .. } = self;\n        *author\n    }", 1),
    # S28: Config::is_seeding with `?` instead of map
    ("s28", R + "node/policy/config.rs", "        self.seed_policy(rid).map(|entry| entry.policy.is_allow())",
     "        let entry = self.seed_policy(rid)?;\n        Ok(entry.policy.is_allow())", 1),
    # S29: threshold comparison with the operands swapped
    ("s29", R + "cob/patch.rs", "                merges.retain(|_, count| *count >= identity.threshold());",
     "                merges.retain(|_, count| identity.threshold() <= *count);", 1),
    # S30: issue upsert, same statement laid out differently
    ("s30", R + "cob/issue/cache.rs", "             ON CONFLICT DO UPDATE\n             SET issue = (?3)\",", "             ON CONFLICT DO UPDATE SET issue = ?3\",", 1),
    # S31: ancestry test nested instead of `&&`
    ("s31", R + "cob/patch.rs", "                        if commit != head && !repo.is_ancestor_of(commit, head)? {\n                            return Ok(());\n                        }",
     "                        if commit != head {\n                            if !repo.is_ancestor_of(commit, head)? {\n                                return Ok(());\n                            }\n                        }", 1),
    # S32: worklist loop of ChangeGraph::load written as loop + let-else
    ("s32", "crates/radicle-cob/src/change_graph.rs", "        while let Some(child_id) = child_ids.pop() {\n            // Skip if we already processed this node.",
     "        loop {\n            let Some(child_id) = child_ids.pop() else {\n                break;\n            };\n            // Skip if we already processed this node.", 1),
    # S33: Fetcher::is_target_reached with if/else instead of then_some
    ("s33", R + "node/sync/fetch.rs", "                None => (succeeded >= min).then_some(SuccessfulOutcome::MinReplicas { succeeded }),",
     "                None => {\n                    if min <= succeeded {\n                        Some(SuccessfulOutcome::MinReplicas { succeeded })\n                    } else {\n                        None\n                    }\n                }", 1),
    # S34: Announcer::synced_with with the test inverted
    ("s34", R + "node/sync/announce.rs", "        if node == self.local_node {\n            return ControlFlow::Continue(self.progress());\n        }\n        self.to_sync.remove(&node);\n        self.synced.insert(node, SyncStatus::Synced { duration });\n        self.finished()",
     "        if node != self.local_node {\n            self.to_sync.remove(&node);\n            self.synced.insert(node, SyncStatus::Synced { duration });\n            return self.finished();\n        }\n        ControlFlow::Continue(self.progress())", 1),
    # S35: include_node by De Morgan
    ("s35", R + "node/sync/fetch.rs", "    fn include_node(&self, node: &NodeId) -> bool {\n        self.results.get(node).is_none() && self.local_node != *node\n    }",
     "    fn include_node(&self, node: &NodeId) -> bool {\n        !(self.results.get(node).is_some() || self.local_node == *node)\n    }", 1),
    # S36: Fetcher::finish with if-let
    ("s36", R + "node/sync/fetch.rs", "        match self.is_target_reached() {\n            None => {\n                let missing = self.missing_seeds();\n                FetcherResult::target_error(progress, self.target, self.results, missing)\n            }\n            Some(outcome) => FetcherResult::target_reached(outcome, progress, self.results),\n        }",
     "        if let Some(outcome) = self.is_target_reached() {\n            FetcherResult::target_reached(outcome, progress, self.results)\n        } else {\n            let missing = self.missing_seeds();\n            FetcherResult::target_error(progress, self.target, self.results, missing)\n        }", 1),
    # S37: Announcer::is_target_reached with the preferred test as an early return
    ("s37", R + "node/sync/announce.rs", "        let reached_preferred = self.target.preferred_seeds.is_empty()\n            || preferred >= self.target.preferred_seeds.len();\n",
     "        let reached_preferred = if self.target.preferred_seeds.is_empty() {\n            true\n        } else {\n            self.target.preferred_seeds.len() <= preferred\n        };\n", 1),
    # S38: fetch_complete with the eligibility test in line
    ("s38", R + "node/sync/fetch.rs", "        if self.include_node(&node) {\n            self.results.push(node, result);\n        }",
     "        if self.results.get(&node).is_none() && node != self.local_node {\n            self.results.push(node, result);\n        }", 1),
    # S39: Fetcher::success_counts as a for loop
    ("s39", R + "node/sync/announce.rs", "    fn synced(self) -> Self {\n        Self {\n            synced: self.synced + 1,\n            ..self\n        }\n    }",
     "    fn synced(mut self) -> Self {\n        self.synced += 1;\n        self\n    }", 1),
    # S40: the retain of Service::disconnected extracted into a helper, called at the same place
    ("s40", N + "service.rs", "        self.fetching.retain(|_, fetching| {\n            if fetching.from != remote {\n                return true;\n            }\n            // Remove and fail any pending fetches from this remote node.\n            for resp in &fetching.subscribers {\n                resp.send(FetchResult::Failed {\n                    reason: format!(\"disconnected: {reason}\"),\n                })\n                .ok();\n            }\n            false\n        });\n",
     "        Self::fail_fetches(&mut self.fetching, &remote, reason);\n", 1),
    ("s40", N + "service.rs", "    pub fn received_message(&mut self, remote: NodeId, message: Message) {",
     "    /// Remove and fail any pending fetches from the given remote node.\n    fn fail_fetches(fetching: &mut HashMap<RepoId, FetchState>, remote: &NodeId, reason: &DisconnectReason) {\n        fetching.retain(|_, fetching| {\n            if fetching.from != *remote {\n                return true;\n            }\n            for resp in &fetching.subscribers {\n                resp.send(FetchResult::Failed {\n                    reason: format!(\"disconnected: {reason}\"),\n                })\n                .ok();\n            }\n            false\n        });\n    }\n\n    pub fn received_message(&mut self, remote: NodeId, message: Message) {", 1),
    # S41: Refs::canonical writing through fmt::Write
    ("s41", R + "storage/refs.rs", "            buf.push_str(&oid.to_string());\n            buf.push(' ');\n            buf.push_str(name);\n            buf.push('\\n');",
     "            let line = format!(\"{oid} {name}\\n\");\n            buf.push_str(&line);", 1),
    # S42: Address decoder binding the octets through a helper variable and an explicit From
    ("s42", N + "wire/message.rs", "                let ip = net::Ipv6Addr::from(octets);\n\n                HostName::Ip(net::IpAddr::V6(ip))",
     "                let ip: net::Ipv6Addr = octets.into();\n                let ip = net::IpAddr::V6(ip);\n\n                HostName::Ip(ip)", 1),
    # S43: address book reader with match instead of let-else
    ("s43", R + "node/address/store.rs", "            // Nb. See `addresses_of`: skip stored addresses that don't parse back.\n            let Ok(addr) = row.try_read::<Address, _>(\"value\") else {\n                continue;\n            };",
     "            let addr = match row.try_read::<Address, _>(\"value\") {\n                Ok(addr) => addr,\n                Err(_) => continue,\n            };", 1),
    # S44: delegate membership in Repository::clean through iter().any()
    ("s44", R + "storage/git.rs", "            if *local == id || delegates.contains(&id) {\n                continue;\n            }",
     "            if *local == id || delegates.iter().any(|d| *d == id) {\n                continue;\n            }", 1),
    # S45: quorum's selection loop over the entries instead of the keys
    ("s45", R + "git/canonical.rs", "        for head in candidates.keys() {", "        for (head, _) in candidates.iter() {", 1),
    # S46: bool merge as a disjunction
    ("s46", "crates/radicle-crdt/src/lib.rs", "        match (&self, other) {\n            (false, true) => *self = true,\n            (true, false) => *self = true,\n            (false, false) | (true, true) => {}\n        }",
     "        *self = *self || other;", 1),
    # S47: Max::merge with the comparison turned around
    ("s47", "crates/radicle-crdt/src/ord.rs", "        if other.0 > self.0 {\n            self.0 = other.0;\n        }", "        if self.0 < other.0 {\n            self.0 = other.0;\n        }", 1),
    # S48: Option merge with the no-op arms joined
    ("s48", "crates/radicle-crdt/src/lib.rs", "            (Some(_), None) => {}\n            (None, None) => {}", "            (Some(_), None) | (None, None) => {}", 1),
    # S49: Redactable merge with the inner test hoisted into a guard
    ("s49", "crates/radicle-crdt/src/redactable.rs", "            (Self::Present(a), Self::Present(b)) => {\n                if a != &b {\n                    *self = Self::Redacted;\n                }\n            }",
     "            (Self::Present(a), Self::Present(b)) if a != &b => {\n                *self = Self::Redacted;\n            }\n            (Self::Present(_), Self::Present(_)) => {}", 1),
    # S50: LWWReg::set with the greater-clock case first
    ("s50", "crates/radicle-crdt/src/lwwreg.rs", "        if clock == self.clock {\n            self.value.merge(value);\n        } else if clock > self.clock {\n            self.clock.merge(clock);\n            self.value = value;\n        }",
     "        if clock > self.clock {\n            self.clock = clock;\n            self.value = value;\n        } else if clock == self.clock {\n            self.value.merge(value);\n        }", 1),
    # S51: ZeroBytes decoder reading the padding in blocks with read_exact (short input is still an EOF error)
    ("s51", N + "wire/message.rs", "        for _ in 0..zeroes {\n            // Padding is all zeroes. Anything else would decode to the same value\n            // as the all-zero padding, giving one message several encodings.\n            if u8::decode(reader)? != 0 {\n                return Err(wire::Error::UnexpectedBytes);\n            }\n        }\n        Ok(ZeroBytes::new(zeroes))",
     "        let mut left = usize::from(zeroes);\n        let mut block = [0u8; 256];\n        while left > 0 {\n            let n = left.min(block.len());\n            reader.read_exact(&mut block[..n])?;\n            // Padding is all zeroes.\n            if block[..n].iter().any(|b| *b != 0) {\n                return Err(wire::Error::UnexpectedBytes);\n            }\n            left -= n;\n        }\n        Ok(ZeroBytes::new(zeroes))", 1),
]
